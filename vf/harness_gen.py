"""Drives the production front end `annet.gen._old_new_per_device` with hand-built context, fake device/storage and
dynamically created PartialGenerator classes. Used by C02, C10, C17."""
import types as _types

_counter = [0]


class FakeStorage:
    def flush_perf(self):
        return 0.0


class FakeDevice:
    def __init__(self, hw, hostname="dev1", pc=False):
        self.hw = hw
        self.hostname = hostname
        self.fqdn = hostname + ".example.net"
        self.id = 1
        self.storage = FakeStorage()
        self.tags = []
        self.breed = "test"
        self._pc = pc
        self.neighbours_fqdns = []

    def is_pc(self):
        return self._pc

    def __hash__(self):
        return hash(self.fqdn)

    def __eq__(self, other):
        return isinstance(other, FakeDevice) and other.fqdn == self.fqdn

    def __repr__(self):
        return "<FakeDevice %s %s>" % (self.hostname, self.hw.model)


def make_partial(name, vendor, acl_text, run_fn, supported=True, acl_safe_text=None, vendor_neutral=False, tags=None):
    """-> instance of a fresh PartialGenerator subclass called `name`.
    run_fn(self, device) is a generator function yielding rows / tuples, using self.block() etc."""
    from annet.generators import PartialGenerator
    ns = {"TAGS": [name.lower()] + list(tags or [])}
    if supported:
        if vendor_neutral:
            ns["run"] = run_fn
        else:
            ns["run_" + vendor] = run_fn
        if acl_text is not None:
            ns["acl_" + vendor] = lambda self, device, _t=acl_text: _t
        if acl_safe_text is not None:
            ns["acl_safe_" + vendor] = lambda self, device, _t=acl_safe_text: _t
    else:
        ns["run_nosuchvendor"] = run_fn
        ns["acl_nosuchvendor"] = lambda self, device, _t=acl_text: _t
    cls = _types.new_class(name, (PartialGenerator,), {}, lambda d: d.update(ns))
    cls.__module__ = "vf_generated"
    return cls(storage=FakeStorage())


def old_new(device, gens, config_text, no_acl=False, add_implicit=False, no_acl_exclusive=False, acl_safe=False,
            filter_acl_text=None, config="-", add_annotations=False, no_new=False):
    """run _old_new_per_device for one device; returns OldNewResult (errors are in .err or raised)"""
    from annet import gen as ann_gen
    from annet.filtering import NopFilterer
    args = _types.SimpleNamespace(
        no_acl=no_acl, acl_safe=acl_safe, generators_context=None, profile=False, no_acl_exclusive=no_acl_exclusive,
        fail_on_empty_config=False, filter_acl=("-" if filter_acl_text else None), filter_ifaces=None, filter_peers=None,
        filter_policies=None, required_packages_check=False,
    )
    dg = ann_gen.DeviceGenerators()
    dg.partial[device] = list(gens)
    dg.ref[device] = []
    dg.entire[device] = []
    dg.json_fragment[device] = []
    ctx = ann_gen.OldNewDeviceContext(
        config=config, args=args, downloaded_files={}, failed_files={}, running={}, failed_running={}, no_new=no_new,
        stdin={"config": config_text, "filter_acl": filter_acl_text}, add_annotations=add_annotations, add_implicit=add_implicit,
        do_files_download=False, gens=dg, fetched_packages={}, failed_packages={}, device_count=1, do_print_perf=False,
    )
    return ann_gen._old_new_per_device(ctx, device, NopFilterer())


def tree_runner(tree):
    """run function that yields a plain tree [[row, children]] through block() contexts"""
    def run(self, device):
        def emit(nodes):
            for row, ch in nodes:
                if ch:
                    with self.block(row):
                        yield from emit(ch)
                else:
                    yield row
        yield from emit(tree)
    return run


class FakeLoader:
    """what annet.gen.Loader gives the workers: devices by id and the generators selected for them"""

    def __init__(self, device, gens, entire=(), json_fragment=()):
        self._device = device
        self._gens = (list(gens), list(entire), list(json_fragment))

    @property
    def devices(self):
        return [self._device]

    @property
    def device_ids(self):
        return [self._device.id]

    @property
    def device_fqdns(self):
        return {self._device.id: self._device.fqdn}

    def get_device(self, device_id):
        assert device_id == self._device.id
        return self._device

    def resolve_gens(self, devices):
        from annet import gen as ann_gen
        dg = ann_gen.DeviceGenerators()
        for d in devices:
            dg.partial[d] = list(self._gens[0])
            dg.ref[d] = []
            dg.entire[d] = list(self._gens[1])
            dg.json_fragment[d] = list(self._gens[2])
        return dg


def worker_args(acl_safe=False, no_acl=False, no_acl_exclusive=False, filter_acl_text=None, clear=False, add_comments=False, indent="  "):
    return _types.SimpleNamespace(
        config="-", clear=clear, acl_safe=acl_safe, add_comments=add_comments, indent=indent, no_acl=no_acl, generators_context=None, profile=False,
        no_acl_exclusive=no_acl_exclusive, fail_on_empty_config=False, filter_acl=("-" if filter_acl_text else None), filter_ifaces=None,
        filter_peers=None, filter_policies=None, required_packages_check=False, show_rules=False, no_color=True, no_collapse=True,
    )


def run_patch_worker(device, gens, config_text, **opts):
    """the `annet patch` worker for one device -> [(label, text, is_fail)]"""
    from annet import api
    from annet.filtering import NopFilterer
    args = worker_args(**opts)
    stdin = {"config": config_text, "filter_acl": opts.get("filter_acl_text")}
    return list(api._patch_worker(device.id, args, stdin, FakeLoader(device, gens), NopFilterer()))


def run_diff_worker(device, gens, config_text, **opts):
    """the `annet diff` worker for one device -> Diff | PCDiff | None"""
    from annet import diff as ann_diff
    from annet.filtering import NopFilterer
    args = worker_args(**opts)
    stdin = {"config": config_text, "filter_acl": opts.get("filter_acl_text")}
    return ann_diff.worker(device.id, args, stdin, FakeLoader(device, gens), NopFilterer())
