"""Access to what the repository ships: rule texts (rendered for the hardware families the
templates branch on), the (before, after, patch) fixture corpus, the device database."""
import glob
import json
import os
import re

import yaml

from vf import env

# model strings for which rule templates are rendered (every Mako branch is reached by one of them)
RULE_HW = {
    "huawei": ["Huawei", "Huawei CE6870", "Huawei NE40E", "Huawei Quidway S5300"],
    "h3c": ["H3C"],
    "optixtrans": ["Huawei OptiXtrans DC908"],
    "cisco": ["Cisco Catalyst 2960", "Cisco"],
    "nexus": ["Cisco Nexus 3432", "Cisco Nexus 9316"],
    "iosxr": ["Cisco ASR 9010", "Cisco XRv", "Cisco 8201"],
    "arista": ["Arista"],
    "aruba": ["Aruba"],
    "b4com": ["B4com"],
    "juniper": ["Juniper"],
    "ribbon": ["Ribbon"],
    "nokia": ["Nokia"],
    "routeros": ["RouterOS"],
    "pc": ["PC"],
}

STUB_HW = {
    "cisco": "Cisco Catalyst", "nexus": "Cisco Nexus", "asr": "Cisco ASR", "iosxr": "Cisco XR",
    "huawei": "Huawei", "huawei ce": "Huawei CE0000", "juniper": "Juniper", "routeros": "RouterOS",
    "aruba": "Aruba", "arista": "Arista", "nokia": "Nokia", "pc": "PC", "ribbon": "Ribbon",
    "optixtrans": "Huawei DC", "b4com": "B4com", "h3c": "H3C",
}


def texts_dir():
    return os.path.join(env.REPO, "annet", "rulebook", "texts")


def rule_files():
    return sorted(os.path.basename(p) for p in glob.glob(os.path.join(texts_dir(), "*.*")))


def rendered(name, model):
    """Mako-rendered text of a shipped rule file for a hardware model (through the real provider)"""
    from annet.rulebook import DefaultRulebookProvider
    from annet.annlib.netdev.views.hardware import HardwareView
    return DefaultRulebookProvider()._render_rul(name, HardwareView(model, ""))


def rule_lines(text):
    """own reading of a rule text: yields (pattern, raw_line, depth_indent, is_ignore)"""
    rows = []
    for line in text.split("\n"):
        s = line.strip()
        if not s or s.startswith("#"):
            continue
        if s.startswith("%") and not s.startswith("%context") and rows:
            rows[-1] = (rows[-1][0] + " " + s, rows[-1][1])
            continue
        rows.append((s, len(line) - len(line.lstrip())))
    for raw, ind in rows:
        if raw.startswith("%context"):
            continue
        pat = re.split(r"\s%[a-zA-Z_]", raw)[0].strip()
        ignore = False
        if pat.startswith("!"):
            pat = pat[1:].strip()
            ignore = True
            if not pat:
                continue
        pat = re.sub(r"\s+", " ", pat)
        yield pat, raw, ind, ignore


def patch_samples():
    """[(name, vendor_key, before_text, after_text | None, diff_text | None, patch_text)]"""
    out = []
    d = os.path.join(env.REPO, "tests", "annet", "test_patch")
    for p in sorted(glob.glob(os.path.join(d, "*.yaml"))):
        with open(p) as f:
            data = yaml.load(f.read(), Loader=yaml.BaseLoader)
        items = data if isinstance(data, list) else [data]
        for i, s in enumerate(items, 1):
            out.append(("%s#%d" % (os.path.basename(p), i), s.get("vendor", "huawei").lower(),
                        s.get("before"), s.get("after"), s.get("diff"), s.get("patch")))
    return out


def hw_for(vendor_key):
    from annet.annlib.netdev.views.hardware import HardwareView
    return HardwareView(STUB_HW[vendor_key], None)


def sample_configs(sample):
    """parse a corpus sample into (hw, old_tree, new_tree) the way tests do"""
    from annet import tabparser
    from annet.vendors import registry_connector
    name, vk, before, after, diff, patch = sample
    hw = hw_for(vk)
    fmt = registry_connector.get().match(hw).make_formatter()
    if diff is not None:
        return hw, *_expand_diff(diff, fmt.split)
    return hw, tabparser.parse_to_tree(before, fmt.split), tabparser.parse_to_tree(after, fmt.split)


def _expand_diff(diff, splitter):
    from annet import tabparser
    from collections import OrderedDict

    def node(n, sign=0):
        r1, r2 = OrderedDict(), OrderedDict()
        for line, ch in n.items():
            line = line.strip()
            ls = 0
            if line.startswith("-") or line.startswith("+"):
                ls = 1 if line[0] == "+" else -1
                line = line[1:].strip()
            s1, s2 = node(ch, ls)
            if ls != 1:
                r1[line] = s1
            if ls != -1:
                r2[line] = s2
        return r1, r2
    return node(tabparser.parse_to_tree(diff, splitter))


def devdb():
    with open(os.path.join(env.REPO, "annet", "annlib", "netdev", "devdb", "data", "devdb.json")) as f:
        return json.load(f)
