"""Mutation self-test: applies small realistic edits (that keep the repository's own tests green) to a scratch copy
of the repository outside /repo and /verif and asserts that the property's check fires.

  /venv/bin/python -m vf.selftest C07 [name-substring]     # run mutants of one property
  /venv/bin/python -m vf.selftest all
"""
import importlib
import os
import shutil
import subprocess
import sys
import tempfile
import concurrent.futures as cf

VERIF = os.path.dirname(os.path.dirname(os.path.abspath(__file__)))


def make_copy():
    d = tempfile.mkdtemp(prefix="vf_mut_")
    subprocess.run(["rsync", "-a", "--exclude", ".git", "--exclude", "__pycache__", "--exclude", ".benchmarks",
                    "/repo/", d + "/"], check=True)
    return d


def run_mutant(prop, m, tier="quick", run_tests=False):
    name, path, old, new = m[:4]
    d = make_copy()
    try:
        fp = os.path.join(d, path)
        s = open(fp).read()
        if s.count(old) < 1:
            return name, "BROKEN-MUTANT (anchor text not found)", ""
        s = s.replace(old, new, 1)
        open(fp, "w").write(s)
        for path2, old2, new2 in (m[4] if len(m) > 4 else []):  # a mutant may need cooperating edits
            fp2 = os.path.join(d, path2)
            s2 = open(fp2).read()
            if s2.count(old2) < 1:
                return name, "BROKEN-MUTANT (second anchor text not found)", ""
            open(fp2, "w").write(s2.replace(old2, new2, 1))
        env = dict(os.environ, VF_REPO=d, VF_REPLAY_DIR=os.path.join(d, "_replays"))
        tests = ""
        if run_tests:
            t = subprocess.run(["/venv/bin/python", "-m", "pytest", "-q", "-x", "-p", "no:cacheprovider", "tests"], cwd=d,
                               capture_output=True, text=True, env=dict(os.environ, PYTHONPATH=d))
            tests = "tests:%s " % ("pass" if t.returncode == 0 else "FAIL")
        r = subprocess.run([os.path.join(VERIF, "check"), prop, tier], capture_output=True, text=True, env=env, timeout=3600)
        out = r.stdout.strip().splitlines()
        keys = [l.strip() for l in out if l.strip().startswith("key=")]
        verdict = {0: "MISSED", 1: "caught", 2: "inconclusive"}.get(r.returncode, "rc=%s" % r.returncode)
        return name, tests + verdict, "; ".join(k[:160] for k in keys[:3]) or (out[-1][:300] if out else r.stderr[-300:])
    finally:
        shutil.rmtree(d, ignore_errors=True)


def main(argv):
    props = argv[0:1]
    sub = argv[1] if len(argv) > 1 and not argv[1].startswith("--") else None
    run_tests = "--tests" in argv
    tier = "thorough" if "--thorough" in argv else "quick"
    from vf import mutants
    if props == ["all"]:
        props = sorted(mutants.MUTANTS)
    jobs = []
    for p in props:
        for m in mutants.MUTANTS.get(p, []):
            if sub and sub not in m[0]:
                continue
            jobs.append((p, m))
    bad = 0
    with cf.ThreadPoolExecutor(max_workers=int(os.environ.get("VF_ST_PAR", "4"))) as ex:
        futs = {ex.submit(run_mutant, p, m, tier, run_tests): (p, m) for p, m in jobs}
        for f in cf.as_completed(futs):
            p, m = futs[f]
            try:
                name, verdict, detail = f.result()
            except Exception as e:
                name, verdict, detail = m[0], "ERROR", repr(e)
            if "caught" not in verdict:
                bad += 1
            print("%s %-40s %-14s %s" % (p, name, verdict, detail))
            sys.stdout.flush()
    print("mutants: %d, not caught: %d" % (len(jobs), bad))
    return 1 if bad else 0


if __name__ == "__main__":
    sys.exit(main(sys.argv[1:]))
