"""R1 - the rule-pattern language, stated twice and independently of annet:

* word level (`match`, `reverse`): a pattern is a list of tokens, a row a list of words;
  used on generated patterns whose literals have no regex metacharacters;
* regex level (`ref_regex`): token-wise translation, used for the shipped rule files,
  whose "literals" legitimately embed regular-expression fragments.
"""
import random
import re

try:
    import re._parser as sre_parse  # py3.11+
    import re._constants as sre_c
except ImportError:  # pragma: no cover
    import sre_parse
    import sre_constants as sre_c


def split_flags(pattern):
    icase = "(?i)" in pattern
    return pattern.replace("(?i)", ""), icase


def tokenize(pattern):
    """-> (tokens, tail, icase); tokens: ('lit',w)|('star',)|('starre',re)|('name',n); tail: None|'tilde'|'ellipsis'"""
    pattern, icase = split_flags(pattern)
    words = pattern.split()
    tail = None
    if words and words[-1] == "~":
        tail = "tilde"
        words = words[:-1]
    elif words and words[-1].endswith("...") and len(words[-1]) > 3:
        tail = "ellipsis"
        words[-1] = words[-1][:-3]
    toks = []
    for w in words:
        if w == "*":
            toks.append(("star",))
        elif w.startswith("*/") and w.endswith("/") and len(w) > 3:
            toks.append(("starre", w[2:-1]))
        elif re.fullmatch(r"<\w+>", w):
            toks.append(("name", w[1:-1]))
        else:
            toks.append(("lit", w))
    return toks, tail, icase


def match(pattern, row):
    """word-level semantics. Returns None or the key tuple."""
    toks, tail, icase = tokenize(pattern)
    fl = re.IGNORECASE if icase else 0
    words = row.split()
    key = []
    if len(words) < len(toks):
        return None
    for i, t in enumerate(toks):
        w = words[i]
        last = i == len(toks) - 1
        if t[0] == "lit":
            lw, ww = (t[1].lower(), w.lower()) if icase else (t[1], w)
            if last and tail == "ellipsis":
                if not ww.startswith(lw):
                    return None
            elif lw != ww:
                return None
        elif t[0] == "star":
            key.append(w)
        elif t[0] == "starre":
            if not re.fullmatch(t[1], w, fl):
                return None
            key.append(w)
        elif t[0] == "name":
            if not re.fullmatch(r"\w+", w):
                return None
            key.append(w)
    if tail == "tilde":
        rest = words[len(toks):]
        if not rest:
            return None
        # the remainder of the line as written (single spaces in generated rows)
        if toks:
            m = re.match(r"\s*" + r"\s+".join(r"\S+" for _ in toks) + r"\s+", row)
            key.append(row[m.end():])
        else:
            key.append(row)
    return tuple(key)


def reverse_words(pattern, prefix):
    """the negated form of a pattern, as a pattern: drop a leading prefix word, else prepend it"""
    pattern, _ = split_flags(pattern)
    words = pattern.split()
    if len(words) > 1 and words[0] == prefix:
        return words[1:]
    return [prefix] + words


def reverse(pattern, prefix, key):
    """the removal command for a row matched by `pattern` with `key`"""
    key = list(key)
    out = []
    words = reverse_words(pattern, prefix)
    for i, w in enumerate(words):
        if w == "*" or (w.startswith("*/") and w.endswith("/") and len(w) > 3):
            out.append(key.pop(0))
        elif w == "~" and i == len(words) - 1:
            out.append(key.pop(0))
        elif w.startswith("~/"):
            continue
        else:
            out.append(w)
    return " ".join(out)


# ---------------------------------------------------------------------------------------------
def ref_regex(pattern, flags=0):
    """token-wise translation into a regular expression (regex-level reference)"""
    pattern, icase = split_flags(pattern)
    if icase:
        flags |= re.IGNORECASE
    has_star = "*" in pattern
    boundary = True
    tilde_tail = False
    if pattern.endswith("~"):
        pattern = pattern[:-1]
        tilde_tail = True
        boundary = False
    elif pattern.endswith("..."):
        pattern = pattern[:-3]
        boundary = False
    elif "~/" in pattern:
        boundary = False
    trailing_space = pattern != pattern.rstrip()
    frags = []
    for w in pattern.split():
        if has_star:
            w = re.sub(r"\((?!\?)", "(?:", w)
            m = re.search(r"\*/(\S+)/", w)
            if m:
                w = w[:m.start()] + "(" + m.group(1) + ")" + w[m.end():]
            if w.startswith("*"):
                w = r"([^\s]+)" + w[1:]
        w = re.sub(r"<(\w+)>", r"(?P<\1>\\w+)", w)
        if not tilde_tail and not pattern.endswith("...") and "~/" in w:
            w = re.sub(r"~/(((?!~/).)+)/", r"\1", w)
        frags.append(w)
    body = r"\s+".join(frags)
    if tilde_tail:
        body += (r"\s+" if (trailing_space and frags) else "") + "(.+)"
    elif boundary:
        body += r"(?:\s|$)"
    return re.compile("^" + body, flags)


# ---------------------------------------------------------------------------------------------
def sample_regex(rx, rng=None, _depth=0):
    """one string matched by the regular expression `rx` (best effort; None when unsupported)"""
    rng = rng or random.Random(0)
    try:
        parsed = sre_parse.parse(rx)
    except Exception:
        return None
    try:
        s = _sample_seq(parsed, rng)
    except NotImplementedError:
        return None
    try:
        if re.fullmatch(rx, s) is None:
            return None
    except re.error:
        return None
    return s


def _sample_seq(seq, rng):
    out = []
    for op, av in seq:
        op = str(op)
        if op == "LITERAL":
            out.append(chr(av))
        elif op == "NOT_LITERAL":
            out.append("x" if chr(av) != "x" else "y")
        elif op == "ANY":
            out.append("x")
        elif op == "IN":
            out.append(_sample_in(av, rng))
        elif op == "BRANCH":
            out.append(_sample_seq(rng.choice(av[1]), rng))
        elif op == "SUBPATTERN":
            out.append(_sample_seq(av[3], rng))
        elif op in ("MAX_REPEAT", "MIN_REPEAT", "POSSESSIVE_REPEAT"):
            lo, hi, sub = av
            n = lo if lo > 0 else (1 if rng.random() < 0.5 else 0)
            out.append("".join(_sample_seq(sub, rng) for _ in range(n)))
        elif op == "CATEGORY":
            out.append(_sample_cat(av))
        elif op == "AT":
            continue
        elif op in ("ASSERT", "ASSERT_NOT"):
            continue
        else:
            raise NotImplementedError(op)
    return "".join(out)


def _sample_cat(av):
    s = str(av)
    if "NOT_SPACE" in s:
        return "x"
    if "SPACE" in s:
        return " "
    if "NOT_DIGIT" in s:
        return "x"
    if "DIGIT" in s:
        return "1"
    if "NOT_WORD" in s:
        return "-"
    if "WORD" in s:
        return "w"
    raise NotImplementedError(s)


def _sample_in(av, rng):
    negate = False
    items = []
    for op, a in av:
        op = str(op)
        if op == "NEGATE":
            negate = True
        elif op == "LITERAL":
            items.append(chr(a))
        elif op == "RANGE":
            items.append(chr(a[0]))
        elif op == "CATEGORY":
            items.append(_sample_cat(a))
        else:
            raise NotImplementedError(op)
    if not negate:
        return rng.choice(items)
    for c in "xy1-/Z":
        ok = True
        for op, a in av:
            op = str(op)
            if op == "LITERAL" and chr(a) == c:
                ok = False
            elif op == "RANGE" and a[0] <= ord(c) <= a[1]:
                ok = False
            elif op == "CATEGORY":
                s = str(a)
                if s.endswith("CATEGORY_SPACE") and c.isspace():
                    ok = False
                if s.endswith("CATEGORY_DIGIT") and c.isdigit():
                    ok = False
                if s.endswith("CATEGORY_WORD") and (c.isalnum() or c == "_"):
                    ok = False
        if ok:
            return c
    raise NotImplementedError("negated class")
