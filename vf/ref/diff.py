"""Reference structural diff for the standard diff logics (default, ordered, rewrite), from the statement of C03:

* rows the rulebook does not know (R2) are invisible, with their subtrees;
* a row only in old is REMOVED with everything below it, only in new ADDED with everything below it;
* a row in both keeps the parent's state (AFFECTED at top level, MOVED below a moved block) and is compared
  recursively; in the group of %ordered rows of a level it is MOVED iff the sequence of rows preceding it differs
  between old and new;
* the rows governed by %rewrite rules of a block form one unit: unchanged -> absent from the diff, otherwise every row
  that is not added/removed is MOVED at every depth (the block is rewritten);
* a row all of whose descendants are unchanged is UNCHANGED.
Entries are (op, row, children) with op in {"ADDED","REMOVED","MOVED","AFFECTED","UNCHANGED"}; order is not specified
except inside an ordered group.
"""
from vf.ref import rulebook as RB


def restrict(tree, locals_, globals_):
    """plain tree -> [(row, children(plain, unrestricted), sel)] of rows the rulebook knows"""
    out = []
    for row, ch in tree:
        s = RB.select(row, locals_, globals_)
        if s is not None:
            out.append((row, ch, s))
    return out


def restricted_plain(tree, locals_, globals_):
    return [[row, restricted_plain(ch, s[2], s[3])] for row, ch, s in restrict(tree, locals_, globals_)]


def _all(op, tree, locals_, globals_):
    return [(op, row, _all(op, ch, s[2], s[3])) for row, ch, s in restrict(tree, locals_, globals_)]


def _kind(s):
    if s[0].rewrite:
        return "rewrite"
    if s[0].ordered:
        return "ordered"
    return "default"


def _walk(entries):
    for e in entries:
        yield e
        yield from _walk(e[2])


def _to_moved(entries):
    return [("MOVED" if op == "AFFECTED" else op, row, _to_moved(ch)) for op, row, ch in entries]


def diff(old, new, locals_, globals_, parent_op="AFFECTED", in_rewrite=False):
    O, N = restrict(old, locals_, globals_), restrict(new, locals_, globals_)
    out = []
    for kind in ("default", "ordered", "rewrite"):
        Ok = [x for x in O if _kind(x[2]) == kind]
        Nk = [x for x in N if _kind(x[2]) == kind]
        if not Ok and not Nk:
            continue
        ro, rn = [x[0] for x in Ok], [x[0] for x in Nk]
        ent = []
        for row, ch, s in Ok:
            if row not in rn:
                ent.append(("REMOVED", row, _all("REMOVED", ch, s[2], s[3])))
        for i, (row, ch, s) in enumerate(Nk):
            if row not in ro:
                ent.append(("ADDED", row, _all("ADDED", ch, s[2], s[3])))
                continue
            io = ro.index(row)
            moved = kind in ("ordered", "rewrite") and ro[:io] != rn[:i]
            op = "MOVED" if moved else parent_op
            och = Ok[io][1]
            ent.append((op, row, diff(och, ch, s[2], s[3], op, in_rewrite or kind == "rewrite")))
        if kind == "rewrite" and not in_rewrite:
            if all(e[0] == "AFFECTED" for e in _walk(ent)):
                ent = []
            else:
                ent = _to_moved(ent)
        out += ent
    return out


def mark_unchanged(entries):
    out = []
    for op, row, ch in entries:
        ch = mark_unchanged(ch)
        if op == "AFFECTED" and all(c[0] == "UNCHANGED" for c in ch):
            op = "UNCHANGED"
        out.append((op, row, ch))
    return out


def canon(entries):
    """order-insensitive canonical form"""
    return sorted([[op, row, canon(ch)] for op, row, ch in entries])


def strip(entries):
    return [(op, row, strip(ch)) for op, row, ch in entries if op != "UNCHANGED"]
