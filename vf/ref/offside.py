"""R5 - reference offside-rule parser. Independent of annet.

A text is a list of lines. Blank lines and lines whose first non-blank characters are a
comment marker are invisible. When '#' is one of the markers, a line that has '#' in
column 0 ends the current section: the next significant line starts a fresh stack and
fixes a new base column. Every significant line goes under the nearest preceding line
with a strictly smaller column; returning to a column that no open block started at
(including a column left of the base) is an error. Equal paths merge. A tab counts as
one column, like a space.
"""


class RefParseError(Exception):
    pass


def indent_of(line):
    n = 0
    for ch in line:
        if ch in " \t":
            n += 1
        else:
            break
    return n


def parse(text, comments=("!", "#")):
    comments = tuple(comments)
    tree = {}
    cols = None
    path = []
    for line in text.split("\n"):
        if "#" in comments and line.startswith("#"):
            cols = None
            path = []
            continue
        s = line.strip()
        if not s or any(s.startswith(c) for c in comments):
            continue
        col = indent_of(line)
        if cols is None:
            cols = [col]
            path = [s]
        elif col > cols[-1]:
            cols.append(col)
            path.append(s)
        else:
            if col not in cols:
                raise RefParseError("line %r returns to column %d, open columns %r" % (line, col, cols))
            k = cols.index(col)
            cols = cols[:k + 1]
            path = path[:k] + [s]
        node = tree
        for p in path:
            node = node.setdefault(p, {})
    return tree
