"""R6 - ordering rank of a command among its siblings, from an ordering rulebook whose sibling rules have
pairwise disjoint languages.

rank(cmd) = +(i+1)  if the i-th sibling rule matches the command (directly or in negated form) and the command is not a removal,
            -(i+1)  if it is a removal (so removals come first, in mirrored rule order),
            +(i+1)  if the removal is matched directly by a rule flagged %order_reverse (pinned to that position),
            None    if no rule mentions it.
The rules that order the children of a command are, in file order of the parent's level: every %global rule, and at the
place of the rule matching the parent, that rule's children.
"""
from vf.ref import rulelang as R


class ORule:
    __slots__ = ("pat", "glob", "order_reverse", "children", "scope")

    def __init__(self, pat, children=(), glob=False, order_reverse=False, scope=None):
        self.pat, self.glob, self.order_reverse, self.children, self.scope = pat, glob, order_reverse, list(children), scope

    def raw(self):
        return self.pat + (" %global" if self.glob else "") + (" %order_reverse" if self.order_reverse else "") + (" %%scope=%s" % self.scope if self.scope else "")


def for_scope(level, scope):
    """the rules in force for a caller: a rule restricted with %scope=X exists only for callers of scope X (patches: "patch",
    ordering a whole configuration: none)"""
    out = []
    for r in level:
        if r.scope is not None and r.scope != scope:
            continue
        out.append(ORule(r.pat, for_scope(r.children, scope), r.glob, r.order_reverse, r.scope))
    return out


def render(level, indent=0):
    out = []
    for r in level:
        out.append(" " * indent + r.raw())
        if r.children:
            out.append(render(r.children, indent + 4))
    return "\n".join(x for x in out if x)


def rank(cmd, level, prefix, is_removal):
    """-> (rank | None, children_level)"""
    best = None
    children = []
    for i, r in enumerate(level):
        if r.glob:
            children.append(r)
        direct = R.match(r.pat, cmd) is not None
        rev = R.match(" ".join(R.reverse_words(r.pat, prefix)), cmd) is not None
        if not r.order_reverse and (direct or rev):
            if best is None:
                best = -(i + 1) if is_removal else (i + 1)
            children.extend(r.children)
        elif r.order_reverse and is_removal and direct:
            best = i + 1
            children = []
    return best, children
