"""R2 - which rule of a (patching) rulebook governs a row, and which rules govern its children.

A rulebook is a list of Rule objects in file order; the reference never looks at annet's
compiled form. For a row at a level with `locals_` (rules written at this place) and
`globals_` (%global rules written here or above):
  * if any '!'-rule matches, the row is unknown to the rulebook;
  * otherwise the first matching rule in (locals, then globals) order gives (rule, key);
  * the children of the row are governed by the union of the children of *all local* rules
    matching it (when the winner is local) plus the %global rules in force.
"""
from vf.ref import rulelang as R


class Rule:
    __slots__ = ("pat", "glob", "ordered", "rewrite", "logic", "children", "ignore", "extra")

    def __init__(self, pat, children=(), glob=False, ordered=False, rewrite=False, logic=None, ignore=False, extra=""):
        self.pat = pat
        self.glob = glob
        self.ordered = ordered
        self.rewrite = rewrite
        self.logic = logic  # None | "common.undo_redo" | "common.permanent" | "common.ignore_changes"
        self.children = list(children)
        self.ignore = ignore
        self.extra = extra  # further raw params text

    def raw(self):
        s = ("!" if self.ignore else "") + self.pat
        if self.glob:
            s += " %global"
        if self.ordered:
            s += " %ordered"
        if self.rewrite:
            s += " %rewrite"
        if self.logic:
            s += " %logic=" + self.logic
        if self.extra:
            s += " " + self.extra
        return s

    def to_json(self):
        return {"rule": self.raw(), "children": [c.to_json() for c in self.children]}


def render(level, indent=0):
    out = []
    for r in level:
        out.append(" " * indent + r.raw())
        if r.children and not r.glob:
            out.append(render(r.children, indent + 4))
    return "\n".join(x for x in out if x)


def split_level(level, inherited=()):
    locals_ = [r for r in level if not r.glob]
    globals_ = []
    for r in [r for r in level if r.glob] + list(inherited):
        if all(r is not g for g in globals_):
            globals_.append(r)
    return locals_, globals_


def select(row, locals_, globals_):
    """-> None | (rule, key, child_locals, child_globals)"""
    hits = []
    for r in list(locals_) + list(globals_):
        k = R.match(r.pat, row)
        if k is not None:
            if r.ignore:
                return None
            hits.append((r, k))
    if not hits:
        return None
    rule, key = hits[0]
    ch_local, ch_global = [], []
    if any(rule is r for r in locals_):
        for r, _ in hits:
            if any(r is x for x in locals_):
                for c in r.children:
                    tgt = ch_global if c.glob else ch_local
                    if all(c.raw() != t.raw() for t in tgt):
                        tgt.append(c)
    for g in globals_:
        if all(g.raw() != t.raw() for t in ch_global):
            ch_global.append(g)
    return rule, key, ch_local, ch_global
