"""R4 - device simulators. State = ordered tree of rows: node = [row, children(list of nodes)].

Block CLI: a device that holds one line per rulebook rule and key.
  * a command path (b1..bk, c) is executed inside the blocks b1..bk, which must have been entered/created by
    earlier commands (a command outside its block is an error);
  * the vendor's block-exit word is a no-op;
  * a command that matches a rule directly sets that (rule,key): it replaces the line with the same (rule,key) in
    place (keeping its children, but dropping children governed by %rewrite rules: re-entering such a block
    rewrites it) or is appended at the end of the level;
  * a command whose negated form (negation word removed if present, else prepended) matches a rule removes the
    line with that (rule,key) and its subtree; removing an absent line is a no-op;
  * a line governed by an undo_redo rule cannot be overwritten with a different text (that is what the logic is
    for): the command is refused unless the line was removed first;
  * anything else is a command the rulebook knows nothing about: an error.
"""
from vf.ref import rulebook as RB


class DeviceError(Exception):
    pass


def from_tree(tree):
    return [[k, from_tree(v)] for k, v in (tree or {}).items()]


def to_plain(nodes):
    return [[r, to_plain(c)] for r, c in nodes]


def negated(cmd, prefix):
    if cmd.startswith(prefix + " "):
        return cmd[len(prefix) + 1:]
    return prefix + " " + cmd


class BlockDevice:
    def __init__(self, tree_nodes, rules, prefix, exit_words, strict_undo_redo=True):
        self.strict_undo_redo = strict_undo_redo
        self.root = tree_nodes
        self.rules = rules  # top level list of RB.Rule
        self.prefix = prefix
        self.exit_words = set(w for w in exit_words if w)
        self.log = []

    def _find(self, nodes, locals_, globals_, rule, key):
        for i, (row, ch) in enumerate(nodes):
            s = RB.select(row, locals_, globals_)
            if s is not None and s[0] is rule and s[1] == key:
                return i
        return None

    def execute(self, path):
        nodes = self.root
        locals_, globals_ = RB.split_level(self.rules)
        for b in path[:-1]:
            s = RB.select(b, locals_, globals_)
            hit = None
            for n in nodes:
                if n[0] == b:
                    hit = n
                    break
            if hit is None:
                raise DeviceError("command %r issued inside block %r which does not exist on the device" % (path, b))
            nodes = hit[1]
            if s is None:
                locals_, globals_ = [], globals_
            else:
                locals_, globals_ = s[2], s[3]
        cmd = path[-1]
        if cmd in self.exit_words:
            self.log.append((path, "exit", None))
            return
        starts_neg = cmd.startswith(self.prefix + " ")
        direct = RB.select(cmd, locals_, globals_)
        neg = RB.select(negated(cmd, self.prefix), locals_, globals_)

        def negform(sel):  # the governing rule is itself written in negated form (e.g. `undo portswitch`)
            return sel is not None and sel[0].pat.split()[:1] == [self.prefix] and len(sel[0].pat.split()) > 1
        if starts_neg:
            action = "set" if negform(direct) else ("remove" if neg is not None else None)
        else:
            action = "remove" if negform(neg) else ("set" if direct is not None else None)
        if action == "set":
            s = direct
            rule, key = s[0], s[1]
            i = self._find(nodes, locals_, globals_, rule, key)
            if i is None:
                nodes.append([cmd, []])
                self.log.append((path, "create", nodes[-1]))
            else:
                self.log.append((path, "set", nodes[i]))
                if self.strict_undo_redo and rule.logic == "common.undo_redo" and nodes[i][0] != cmd:
                    # what undo_redo is for: the device does not accept `key value2` over `key value1`
                    raise DeviceError("line %r cannot be overwritten by %r without removing it first (rule %r)" % (nodes[i][0], cmd, rule.pat))
                kept = []
                for ch in nodes[i][1]:
                    cs = RB.select(ch[0], s[2], s[3])
                    if cs is not None and cs[0].rewrite:
                        continue
                    kept.append(ch)
                nodes[i][0] = cmd  # same node object: the line keeps its identity, only its text changes
                nodes[i][1][:] = kept
            return
        if action == "remove":
            i = self._find(nodes, locals_, globals_, neg[0], neg[1])
            self.log.append((path, "remove", nodes[i] if i is not None else None))
            if i is not None:
                del nodes[i]
            return
        raise DeviceError("command %r addresses nothing the rulebook knows (path %r)" % (cmd, path))

    def run(self, paths):
        for p in paths:
            self.execute(tuple(p))
        return self.root


def segment(words, rules):
    """Junos-like flattened statement -> path of rows. Block rules have a fixed word count (generator contract); the
    remainder after the last block is one leaf row."""
    locals_, globals_ = RB.split_level(rules)
    path = []
    while words:
        hit = None
        for r in locals_:
            if not r.children:
                continue
            n = len(r.pat.split())
            if len(words) < n:
                continue
            cand = " ".join(words[:n])
            s = RB.select(cand, locals_, globals_)
            if s is not None and s[0] is r:
                hit = (cand, n, s)
                break
        if hit is None:
            path.append(" ".join(words))
            break
        path.append(hit[0])
        words = words[hit[1]:]
        locals_, globals_ = hit[2][2], hit[2][3]
    return path


class FlatDevice(BlockDevice):
    """Junos-like CLI on top of the same state model: every command is one flattened statement
    `<set-word> w1..wn` / `<set-word>? delete w1..wn`; `set` creates the blocks on its way, `delete` of something inside
    a block that does not exist is a no-op."""

    def __init__(self, tree_nodes, rules, set_words, strict_undo_redo=True):
        super().__init__(tree_nodes, rules, "delete", (), strict_undo_redo)
        self.set_words = set_words  # {"set"} or {"/configure"}

    def _exists(self, path):
        nodes = self.root
        for b in path:
            hit = None
            for n in nodes:
                if n[0] == b:
                    hit = n
                    break
            if hit is None:
                return False
            nodes = hit[1]
        return True

    def execute_flat(self, cmd):
        words = cmd.split()
        delete = False
        if words and words[0] in self.set_words:
            words = words[1:]
            if words and words[0] == "delete" and "set" not in self.set_words:
                delete, words = True, words[1:]
        elif words and words[0] == "delete":
            delete, words = True, words[1:]
        else:
            raise DeviceError("command %r is neither a set nor a delete statement" % cmd)
        if not words:
            raise DeviceError("command %r addresses nothing" % cmd)
        path = segment(words, self.rules)
        if delete:
            if not self._exists(path[:-1]):
                self.log.append((tuple(path), "remove", None))
                return
            return self.execute(tuple(path[:-1]) + ("delete " + path[-1],))
        for i in range(1, len(path)):
            if not self._exists(path[:i]):
                self.execute(tuple(path[:i]))
        return self.execute(tuple(path))

    def run(self, paths):
        for p in paths:
            if len(p) != 1:
                raise DeviceError("flattened formatter emitted a multi-part command %r" % (p,))
            self.execute_flat(p[0])
        return self.root
