"""R3 - ACL coverage, independent of annet.

Surface form: a list of AclRule in file order (texts of several generators are concatenated).

Compilation (per sibling list): rules with the same row are one rule: %global OR-ed, %cant_delete flags and
%generator_names concatenated, %prio max, children united. A %global rule is inherited by every level below the one
where it is written and carries no children rules of its own. `ideal=True` changes one thing: a row that one ACL marks
%global and another gives children keeps both capabilities (this is what "the merged ACL passes everything either
passes alone" needs); `ideal=False` is what the ACL compiler's attribute "uniters" say: the united rule is global.

Matching: a row is covered iff some local rule of its level or a %global rule in force matches it directly or in
negated form. Its children are judged by the union of the children of all local rules matching it directly (same rows
united again: flags concatenated), plus the %global rules in force. Matches are ranked by (prio, share of the row's
characters occurring in the rule's regular expression), stable in the order direct-before-negated, local-before-
global; the best one decides whose cant_delete flags govern a negated row. mode="winner" restates the behaviour
written in _select_match: children rules are taken only when the best match is a local direct one.
"""
from vf.ref import rulelang as R


class AclRule:
    __slots__ = ("pat", "glob", "cant_delete", "prio", "gens", "children", "explicit_cd")

    def __init__(self, pat, children=(), glob=False, cant_delete=None, prio=0, gens=()):
        self.pat = pat
        self.glob = glob
        self.explicit_cd = cant_delete
        self.cant_delete = list(cant_delete) if cant_delete is not None else [pat.startswith("interface")]
        self.prio = prio
        self.gens = list(gens)
        self.children = list(children)

    def raw(self):
        s = self.pat
        if self.glob:
            s += " %global"
        if self.explicit_cd is not None:
            s += " %cant_delete=" + ",".join("1" if x else "0" for x in self.explicit_cd)
        if self.prio:
            s += " %%prio=%d" % self.prio
        if self.gens:
            s += " %generator_names=" + ",".join(self.gens)
        return s

    def to_json(self):
        return {"rule": self.raw(), "children": [c.to_json() for c in self.children]}


def render(level, indent=0):
    out = []
    for r in level:
        out.append(" " * indent + r.raw())
        if r.children and not r.glob:
            out.append(render(r.children, indent + 4))
    return "\n".join(x for x in out if x)


class CRule:
    """compiled rule"""
    __slots__ = ("pat", "cant_delete", "prio", "gens", "local", "glob")

    def __init__(self, pat, cant_delete, prio, gens, local=(), glob=()):
        self.pat, self.cant_delete, self.prio, self.gens = pat, list(cant_delete), prio, list(gens)
        self.local, self.glob = list(local), list(glob)  # compiled children rules


def compile_level(level, ideal=False):
    """-> (locals, globals) lists of CRule"""
    united = []
    by = {}
    for r in level:
        if r.pat in by:
            u = by[r.pat]
            u["glob"] = u["glob"] or r.glob
            u["cd"] += r.cant_delete
            u["prio"] = max(u["prio"], r.prio)
            u["gens"] += r.gens
            if not r.glob or ideal:
                u["children"] += list(r.children) if not r.glob else []
        else:
            u = {"pat": r.pat, "glob": r.glob, "cd": list(r.cant_delete), "prio": r.prio, "gens": list(r.gens),
                 "children": list(r.children) if not r.glob else []}
            by[r.pat] = u
            united.append(u)
    locals_, globals_ = [], []
    for u in united:
        if u["glob"]:
            globals_.append(CRule(u["pat"], u["cd"], u["prio"], u["gens"]))
            if ideal and u["children"]:
                cl, cg = compile_level(u["children"], ideal)
                locals_.append(CRule(u["pat"], u["cd"], u["prio"], u["gens"], cl, cg))
        else:
            cl, cg = compile_level(u["children"], ideal)
            locals_.append(CRule(u["pat"], u["cd"], u["prio"], u["gens"], cl, cg))
    return locals_, globals_


def unite(lists):
    """match-time union of rule lists (first-seen order); the same row from two parents is one rule: flags and names
    concatenated, the later prio, children united"""
    out = []
    by = {}
    for lst in lists:
        for r in lst:
            if r.pat in by:
                u = by[r.pat]
                if u is r:
                    continue
                n = CRule(u.pat, u.cant_delete + r.cant_delete, r.prio, u.gens + r.gens,
                          unite([u.local, r.local]), unite([u.glob, r.glob]))
                out[out.index(u)] = n
                by[r.pat] = n
            else:
                by[r.pat] = r
                out.append(r)
    return out


def ranked(row, locals_, globals_, prefix):
    """[(rule, is_global, is_reverse)] best first"""
    res = []
    n = 0
    for rev in (False, True):
        for rule, is_global in [(r, False) for r in locals_] + [(r, True) for r in globals_]:
            pat = " ".join(R.reverse_words(rule.pat, prefix)) if rev else rule.pat
            if R.match(pat, row) is None:
                continue
            rx = R.ref_regex(pat).pattern
            share = len(set(row) & set(rx)) / len(row)
            res.append(((rule.prio, share), -n, rule, is_global, rev))
            n += 1
    res.sort(key=lambda x: (x[0], x[1]), reverse=True)
    return [(r, g, v) for _, _, r, g, v in res]


def children_rules(ms, globals_, mode):
    winner_ok = (not ms[0][1]) and (not ms[0][2])
    ls, gs = [], []
    if mode == "property" or winner_ok:
        for r, is_global, rev in ms:
            if not is_global and not rev:
                ls.append(r.local)
                gs.append(r.glob)
    return unite(ls), unite(gs + [globals_])


def filter_tree(tree, locals_, globals_, prefix, mode="property", uncovered=None, path=(), ambiguous=None):
    """tree: plain list [[row, children]] -> filtered plain list. `uncovered` collects paths of uncovered rows whose
    parents are covered (strict mode raises for the first of them). `ambiguous` collects negated rows for which matching
    rules of equal rank disagree about deletability."""
    out = []
    for row, ch in tree:
        ms = ranked(row, locals_, globals_, prefix)
        if not ms:
            if uncovered is not None:
                uncovered.append(path + (row,))
            continue
        rule, is_global, rev = ms[0]
        if rev and all(rule.cant_delete):
            continue
        cl, cg = children_rules(ms, globals_, mode)
        out.append([row, filter_tree(ch, cl, cg, prefix, mode, uncovered, path + (row,), ambiguous)])
    return out
