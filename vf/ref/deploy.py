"""R7 - which deploy rule governs a command path. Rules are given as a nested list
[(pattern, attrs, children), ...] whose sibling patterns have pairwise disjoint languages.
Walk the path: at each depth the unique sibling rule matching the row (and whose ifcontext
admits the command's context) is entered; an ancestor row matching no rule is skipped
(the rule level stays); the result is the rule matched by the last row, else None (defaults)."""
from vf.ref import rulelang as R


def context_ok(ifcontext, context):
    if not ifcontext:
        return True
    for item in ifcontext:
        name, value = item.split(":")
        if context.get(name) == value:
            return True
    return False


def find(rules, path, context=None):
    context = context or {}
    level = rules
    for depth, row in enumerate(path):
        hit = None
        for pat, attrs, children in level:
            if R.match(pat, row) is not None and context_ok(attrs.get("ifcontext"), context):
                hit = (pat, attrs, children)
                break
        last = depth == len(path) - 1
        if hit is None:
            if last:
                return None
            continue
        if last:
            return hit
        level = hit[2]
        if not level:
            return None
    return None
