"""Seeded-regression tooling.

  python -m vf.seedtool verify /tmp/seed_out/C05/1 C05-1   # confirm (tests pass, demo fails with / passes without), store under seeded/
  python -m vf.seedtool run C05-1 [PROP] [quick|thorough]  # run a check against the seeded change (scratch worktree, VF_REPO)
  python -m vf.seedtool runall [quick|thorough]            # all stored seeds against their own property's check

Scratch worktrees of /repo are created under /tmp and removed afterwards.
"""
import json
import os
import shutil
import subprocess
import sys
import tempfile
import concurrent.futures as cf

VERIF = os.path.dirname(os.path.dirname(os.path.abspath(__file__)))
SEEDED = os.path.join(VERIF, "seeded")
PY = "/venv/bin/python"


def worktree():
    d = tempfile.mkdtemp(prefix="vf_seed_")
    os.rmdir(d)
    subprocess.run(["git", "-C", "/repo", "worktree", "add", "--detach", "-q", d, "HEAD"], check=True, capture_output=True)
    return d


def drop(d):
    subprocess.run(["git", "-C", "/repo", "worktree", "remove", "--force", d], capture_output=True)
    shutil.rmtree(d, ignore_errors=True)


def run_demo(d, demo):
    p = subprocess.run([PY, demo], cwd=d, env=dict(os.environ, PYTHONPATH=d, PYTHONDONTWRITEBYTECODE="1"), capture_output=True, text=True, timeout=900)
    return p.returncode, (p.stdout + p.stderr)[-600:]


def verify(src, name):
    d = worktree()
    try:
        demo = os.path.join(src, "demo.py")
        patch = os.path.join(src, "patch.diff")
        rc0, out0 = run_demo(d, demo)
        ap = subprocess.run(["git", "-C", d, "apply", patch], capture_output=True, text=True)
        if ap.returncode != 0:
            return name, False, "patch does not apply to current /repo HEAD: %s" % ap.stderr[-300:]
        t = subprocess.run([PY, "-m", "pytest", "-q", "-p", "no:cacheprovider", "--timeout=900", "tests"], cwd=d,
                           env=dict(os.environ, PYTHONPATH=d, PYTHONDONTWRITEBYTECODE="1"), capture_output=True, text=True)
        tests_ok = t.returncode == 0
        rc1, out1 = run_demo(d, demo)
        ok = rc0 == 0 and rc1 != 0 and tests_ok
        res = {"demo_passes_without_change": rc0 == 0, "demo_fails_with_change": rc1 != 0, "tests_pass_with_change": tests_ok,
               "tests_tail": t.stdout.strip().splitlines()[-1:] if t.stdout else [], "demo_output_with_change": out1[-400:]}
        if ok:
            dst = os.path.join(SEEDED, name)
            os.makedirs(dst, exist_ok=True)
            shutil.copy(patch, os.path.join(dst, "patch.diff"))
            shutil.copy(demo, os.path.join(dst, "demo.py"))
            meta = json.load(open(os.path.join(src, "meta.json")))
            meta["confirmed_by_me"] = res
            meta["confirmed_against_repo_head"] = subprocess.run(["git", "-C", "/repo", "rev-parse", "--short", "HEAD"], capture_output=True, text=True).stdout.strip()
            meta["what_i_ran"] = ["git apply patch.diff in a scratch worktree of /repo HEAD", "pytest -q tests (PYTHONPATH=worktree)",
                                  "demo.py before and after applying the patch"]
            json.dump(meta, open(os.path.join(dst, "meta.json"), "w"), indent=1)
        return name, ok, json.dumps(res)[:500]
    finally:
        drop(d)


def run_check(name, prop=None, tier="quick"):
    prop = prop or name.split("-")[0]
    d = worktree()
    try:
        ap = subprocess.run(["git", "-C", d, "apply", os.path.join(SEEDED, name, "patch.diff")], capture_output=True, text=True)
        if ap.returncode != 0:
            return name, prop, "patch-does-not-apply", ap.stderr[-200:]
        env = dict(os.environ, VF_REPO=d, VF_REPLAY_DIR=os.path.join(d, "_replays"))
        r = subprocess.run([os.path.join(VERIF, "check"), prop, tier], capture_output=True, text=True, env=env, timeout=7200)
        out = r.stdout.strip().splitlines()
        keys = [l.strip()[:200] for l in out if l.strip().startswith("key=")]
        verdict = {0: "MISSED", 1: "caught", 2: "inconclusive"}.get(r.returncode, "rc=%s" % r.returncode)
        return name, prop, verdict, "; ".join(keys[:3]) or (out[-1][:300] if out else r.stderr[-300:])
    finally:
        drop(d)


def main(argv):
    cmd = argv[0]
    if cmd == "verify":
        print(*verify(argv[1], argv[2]))
    elif cmd == "verifyall":
        root = argv[1]
        jobs = []
        for pid in sorted(os.listdir(root)):
            for k in sorted(os.listdir(os.path.join(root, pid))):
                src = os.path.join(root, pid, k)
                if os.path.exists(os.path.join(src, "patch.diff")):
                    jobs.append((src, "%s-%s" % (pid, k)))
        with cf.ThreadPoolExecutor(max_workers=8) as ex:
            for name, ok, detail in ex.map(lambda j: verify(*j), jobs):
                print(name, "CONFIRMED" if ok else "REJECTED", detail if not ok else "")
                sys.stdout.flush()
    elif cmd == "run":
        print(*run_check(argv[1], argv[2] if len(argv) > 2 and argv[2].startswith("C") else None,
                         argv[-1] if argv[-1] in ("quick", "thorough") else "quick"))
    elif cmd == "runall":
        tier = argv[1] if len(argv) > 1 and argv[1] in ("quick", "thorough") else "quick"
        only = [a for a in argv[1:] if a.startswith("C")]
        names = sorted(n for n in os.listdir(SEEDED) if os.path.isdir(os.path.join(SEEDED, n)) and not n.startswith("_"))
        if only:
            names = [n for n in names if n.split("-")[0] in only]
        man = json.load(open(os.path.join(VERIF, "MANIFEST.json")))
        claimed = {c["property_id"] for c in man["checks"]}
        names = [n for n in names if n.split("-")[0] in claimed]
        bad = 0
        with cf.ThreadPoolExecutor(max_workers=int(os.environ.get("VF_ST_PAR", "3"))) as ex:
            for name, prop, verdict, detail in ex.map(lambda n: run_check(n, None, tier), names):
                if verdict != "caught":
                    bad += 1
                print("%-8s %-4s %-12s %s" % (name, prop, verdict, detail))
                sys.stdout.flush()
        print("seeds run: %d, not caught: %d" % (len(names), bad))


if __name__ == "__main__":
    main(sys.argv[1:])
