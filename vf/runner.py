"""Tier driver: plans shards, runs each in a fresh subprocess (with a wall-clock
watchdog whose firing is *inconclusive*, never a violation), aggregates what the
monitors observed, matches violations against known_findings.json by mechanism key,
writes evidence/<id>.json and replay files, prints the verdict lines.

Exit codes: 0 held (possibly with KNOWN-FINDING lines), 1 violated, 2 inconclusive.
"""
import hashlib
import importlib
import json
import os
import random
import subprocess
import sys
import tempfile
import time
import shutil

VERIF = os.path.dirname(os.path.dirname(os.path.abspath(__file__)))
PY = "/venv/bin/python"
MAX_SAMPLES = 6
MAX_VIOL_PER_KEY = 5


def h(obj) -> str:
    """short stable hash of a JSON-able case"""
    return hashlib.blake2b(json.dumps(obj, sort_keys=True, default=str).encode(), digest_size=7).hexdigest()


class Acc:
    """Per-shard accumulator handed to the property's run_shard()."""

    def __init__(self, seed=0):
        self.evaluations = 0
        self.nontrivial = set()
        self.samples = []
        self.violations = {}  # key -> {"count": n, "what": str, "witnesses": [..]}
        self.counters = {}
        self.sets = {}
        self._rng = random.Random(seed)
        self._seen_samples = 0

    def case(self, case=None, nontrivial=False, n=1, hashed=None):
        """register one oracle evaluation of a case; nontrivial by the property's rule"""
        self.evaluations += n
        if nontrivial:
            self.nontrivial.add(hashed if hashed is not None else h(case))

    def count(self, name, n=1):
        self.counters[name] = self.counters.get(name, 0) + n

    def distinct(self, name, value):
        """named set of observed things (states, interleaving signatures ...); unions across shards"""
        self.sets.setdefault(name, set()).add(value if isinstance(value, str) else h(value))

    def sample(self, obj):
        self._seen_samples += 1
        if len(self.samples) < MAX_SAMPLES:
            self.samples.append(obj)
        else:
            j = self._rng.randrange(self._seen_samples)
            if j < MAX_SAMPLES:
                self.samples[j] = obj

    def violation(self, key, what, witness):
        v = self.violations.setdefault(key, {"count": 0, "what": what, "witnesses": []})
        v["count"] += 1
        if len(v["witnesses"]) < MAX_VIOL_PER_KEY:
            v["witnesses"].append(witness)

    def dump(self):
        return {
            "evaluations": self.evaluations,
            "nontrivial": sorted(self.nontrivial),
            "samples": self.samples,
            "violations": self.violations,
            "counters": self.counters,
            "sets": {k: sorted(v) for k, v in self.sets.items()},
        }


def load_findings():
    path = os.path.join(VERIF, "known_findings.json")
    if not os.path.exists(path):
        return []
    with open(path) as f:
        return json.load(f)["findings"]


def _shard_env():
    env = dict(os.environ)
    env["PYTHONHASHSEED"] = env.get("VF_HASHSEED", "0")
    env["PYTHONDONTWRITEBYTECODE"] = "1"
    env["PYTHONPATH"] = VERIF
    env.pop("ANNET_VERIF", None)
    return env


def run_shards(prop, specs, nproc, timeout):
    """run every spec in its own subprocess; returns list of (spec, result|None, err)"""
    tmp = tempfile.mkdtemp(prefix="vf_%s_" % prop)
    out = [None] * len(specs)
    running = {}
    pending = list(enumerate(specs))
    try:
        while pending or running:
            while pending and len(running) < nproc:
                i, spec = pending.pop(0)
                sp = os.path.join(tmp, "s%d.json" % i)
                rp = os.path.join(tmp, "r%d.json" % i)
                with open(sp, "w") as f:
                    json.dump(spec, f)
                errf = open(os.path.join(tmp, "e%d.txt" % i), "w+")
                p = subprocess.Popen([PY, "-m", "vf.shard", prop, sp, rp], cwd=VERIF, env=_shard_env(),
                                     stdout=errf, stderr=subprocess.STDOUT)
                running[i] = (p, time.monotonic(), rp, errf, spec)
            time.sleep(0.02)
            for i in list(running):
                p, t0, rp, errf, spec = running[i]
                rc = p.poll()
                if rc is None:
                    if time.monotonic() - t0 > timeout:
                        p.kill()
                        p.wait()
                        part = None
                        try:
                            with open(rp + ".partial") as f:
                                part = json.load(f)
                        except Exception:
                            part = None
                        out[i] = (spec, part, "watchdog %ss fired" % timeout)
                        errf.close()
                        del running[i]
                    continue
                errf.seek(0)
                err = errf.read()[-4000:]
                errf.close()
                del running[i]
                if rc == 0 and os.path.exists(rp):
                    with open(rp) as f:
                        out[i] = (spec, json.load(f), None)
                else:
                    out[i] = (spec, None, "shard exit %s: %s" % (rc, err))
    finally:
        for p, *_ in running.values():
            try:
                p.kill()
            except Exception:
                pass
        shutil.rmtree(tmp, ignore_errors=True)
    return out


def shard_main(argv):
    """entry of `python -m vf.shard PROP spec.json out.json`"""
    prop, sp, rp = argv
    import faulthandler
    faulthandler.enable()
    try:  # a runaway workload must end as a quick MemoryError (=> inconclusive), not as minutes of swapping and an OOM kill
        import resource
        lim = int(os.environ.get("VF_SHARD_MEM_GB", "12")) << 30
        resource.setrlimit(resource.RLIMIT_AS, (lim, lim))
    except Exception:
        pass
    from vf import env
    env.setup()
    mod = importlib.import_module("vf.props.%s" % prop.lower())
    with open(sp) as f:
        spec = json.load(f)
    acc = Acc(seed=spec.get("seed", 0))
    # what the shard has witnessed so far is written out every half minute: if the watchdog has to end a shard that a change of the code under
    # test made crawl, the violations it had already seen still count (and nothing else of it does)
    import threading

    def checkpoint():
        import copy
        while True:
            time.sleep(30)
            try:
                part = {"evaluations": acc.evaluations, "nontrivial": [], "samples": [], "sets": {},
                        "violations": copy.deepcopy(acc.violations), "counters": dict(acc.counters)}
                with open(rp + ".partial.tmp", "w") as f:
                    json.dump(part, f, default=str)
                os.replace(rp + ".partial.tmp", rp + ".partial")
            except Exception:
                pass
    threading.Thread(target=checkpoint, daemon=True).start()
    mod.run_shard(spec, acc)
    with open(rp + ".tmp", "w") as f:
        json.dump(acc.dump(), f, default=str)
    os.replace(rp + ".tmp", rp)


def main(argv):
    if len(argv) < 2:
        print("usage: check <ID> quick|thorough [--replay PATH]")
        return 2
    prop = argv[0].upper()
    tier = argv[1]
    replay = None
    if "--replay" in argv:
        replay = argv[argv.index("--replay") + 1]
    seed = int(os.environ.get("VERIF_SEED", "0") or 0)
    t0 = time.monotonic()
    mod = importlib.import_module("vf.props.%s" % prop.lower())

    if replay:
        with open(replay) as f:
            rp = json.load(f)
        specs = [{"mode": "replay", "witness": w, "seed": 0} for w in rp["witnesses"]]
        tier_for_evidence = None
    else:
        specs = list(mod.plan(tier, seed))
        tier_for_evidence = tier
    findings = [f for f in load_findings() if f["property"] == prop]
    open_findings = [f for f in findings if f.get("status") == "open"]
    # directed re-execution of every listed finding's witness (open: must still fail to be
    # announced; fixed: must not fail)
    if not replay:
        for f in findings:
            for w in f.get("witnesses", []):
                specs.append({"mode": "replay", "witness": w, "seed": 0, "finding": f["key"]})

    nproc = int(os.environ.get("VF_NPROC", "0") or 0) or getattr(mod, "NPROC", {}).get(tier, 8 if tier == "quick" else 16)
    timeout = getattr(mod, "TIMEOUT", {}).get(tier, 600 if tier == "quick" else 3600)
    results = run_shards(prop, specs, nproc, timeout)

    evaluations = 0
    nontrivial = set()
    samples = []
    counters = {}
    violations = {}
    sets = {}
    errors = []
    for spec, res, err in results:
        if err:
            errors.append(err)
        if res is None:
            continue
        evaluations += res["evaluations"]
        nontrivial.update(res["nontrivial"])
        for s in res["samples"]:
            if len(samples) < MAX_SAMPLES:
                samples.append(s)
        for k, v in res["counters"].items():
            counters[k] = counters.get(k, 0) + v
        for k, v in res.get("sets", {}).items():
            sets.setdefault(k, set()).update(v)
        for k, v in res["violations"].items():
            a = violations.setdefault(k, {"count": 0, "what": v["what"], "witnesses": []})
            a["count"] += v["count"]
            for w in v["witnesses"]:
                if len(a["witnesses"]) < MAX_VIOL_PER_KEY:
                    a["witnesses"].append(w)

    known = {}
    new = {}
    for k, v in violations.items():
        f = next((f for f in open_findings if f["key"] == k), None)
        (known if f else new)[k] = v

    lines = []
    for f in open_findings:
        if f["key"] in known:
            lines.append("KNOWN-FINDING: property=%s %s [key=%s, %d case(s) this run]" % (
                prop, f["what"], f["key"], known[f["key"]]["count"]))
        else:
            lines.append("NOTE: property=%s listed finding not reproduced this run: key=%s" % (prop, f["key"]))

    floors = getattr(mod, "FLOORS", {}).get(tier, {}) if not replay else {}
    observed = dict(counters)
    observed.update({"distinct:" + k: len(v) for k, v in sets.items()})
    short = {k: (observed.get(k, 0), m) for k, m in floors.items() if observed.get(k, 0) < m}
    if not replay and evaluations == 0:
        short["evaluations"] = (0, 1)

    rc = 0
    replay_paths = []
    if new:
        rc = 1
        rdir = os.path.join(os.environ.get("VF_REPLAY_DIR", os.path.join(VERIF, "replays")), prop)
        os.makedirs(rdir, exist_ok=True)
        for k, v in new.items():
            path = os.path.join(rdir, "%s.json" % h(k))
            with open(path, "w") as f:
                json.dump({"property": prop, "key": k, "what": v["what"], "count": v["count"],
                           "witnesses": v["witnesses"]}, f, indent=1, default=str)
            replay_paths.append(path)
            lines.append("VIOLATION property=%s replay=%s" % (prop, path))
            lines.append("  key=%s what=%s count=%d" % (k, v["what"], v["count"]))
    elif errors or short:
        rc = 2
        reason = "; ".join(errors[:3]) if errors else "monitors below floor: %s" % short
        lines.append("INCONCLUSIVE property=%s reason=%s" % (prop, reason.replace("\n", " | ")[:1500]))
    else:
        lines.append("OK property=%s tier=%s evaluations=%d distinct_nontrivial=%d" % (
            prop, tier, evaluations, len(nontrivial)))

    wall = time.monotonic() - t0
    foreign_repo = os.path.realpath(os.environ.get("VF_REPO", "/repo")) != "/repo"
    if tier_for_evidence and not foreign_repo:
        ev = {
            "property_id": prop,
            "tier": tier,
            "seed": seed,
            "level": getattr(mod, "LEVEL", "exploration"),
            "coverage": {
                "evaluations": evaluations,
                "distinct_nontrivial": len(nontrivial),
                "rule": mod.RULE,
                "samples": samples,
                "monitor_counters": counters,
                "distinct_observed": {k: len(v) for k, v in sets.items()},
                "shards": len(specs),
                "shard_errors": errors[:5],
                "known_findings_observed": {k: v["count"] for k, v in known.items()},
                "verdict": {0: "held", 1: "violated", 2: "inconclusive"}[rc],
            },
            "assumptions": list(getattr(mod, "ASSUMPTIONS", [])),
            "wall_s": round(wall, 2),
            "violations": sum(v["count"] for v in new.values()),
        }
        if getattr(mod, "EXHAUSTIVE", {}).get(tier):
            ev["coverage"]["exhaustive"] = True
        os.makedirs(os.path.join(VERIF, "evidence"), exist_ok=True)
        p = os.path.join(VERIF, "evidence", "%s.json" % prop)
        with open(p + ".tmp", "w") as f:
            json.dump(ev, f, indent=1, default=str)
        os.replace(p + ".tmp", p)
    for ln in lines:
        print(ln)
    sys.stdout.flush()
    return rc
