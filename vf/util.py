"""Small helpers shared by the property modules."""
from collections import OrderedDict as odict


def plain(tree):
    """ordered tree (nested dict) -> nested list [[row, children], ...] (order-aware, JSON-able)"""
    if not tree:
        return []
    return [[k, plain(v)] for k, v in tree.items()]


def unplain(lst):
    t = odict()
    for k, v in lst:
        t[k] = unplain(v)
    return t


def plain_unordered(tree):
    if not tree:
        return []
    return sorted([[k, plain_unordered(v)] for k, v in tree.items()])


def depth(tree):
    if not tree:
        return 0
    return 1 + max(depth(v) for v in tree.values())


def count_rows(tree):
    if not tree:
        return 0
    return sum(1 + count_rows(v) for v in tree.values())


def paths(tree, prefix=()):
    for k, v in (tree or {}).items():
        yield prefix + (k,)
        yield from paths(v, prefix + (k,))


def render(tree, indent="  ", level=0):
    """plain indentation rendering (one row per line)"""
    out = []
    for k, v in (tree or {}).items():
        out.append(indent * level + k)
        if v:
            out.append(render(v, indent, level + 1))
    return "\n".join(out)
