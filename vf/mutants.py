"""Self-test mutants: (name, file, old text, new text). Each is a small realistic edit that keeps the
repository's own test-suite green (verified with `python -m vf.selftest <ID> --tests`)."""

MUTANTS = {
    "C05": [
        ("no-consistency-check", "annet/annlib/tabparser.py", "                if curr_level != level:\n", "                if False:\n"),
        ("pop-one-too-many", "annet/annlib/tabparser.py", "                while curr_level > level and len(indents):", "                while curr_level >= level and len(indents):"),
        ("ignore-g_level", "annet/annlib/tabparser.py", "            level = level - (g_level or 0)", "            level = level"),
        ("hash-plain-comment", "annet/annlib/tabparser.py", '        if "#" in comments and line.startswith("#"):\n            yield BlockEnd', '        if False:\n            yield BlockEnd'),
        ("stack-slice", "annet/annlib/tabparser.py", "            stack = stack[:level - 1] + [line]", "            stack = stack[:level] + [line]"),
    ],
    "C07": [
        ("no-trailing-boundary", "annet/annlib/rbparser/syntax.py", '        row += r"(?:\\s|$)"', '        row += r""'),
        ("star-greedy-across-words", "annet/annlib/rbparser/syntax.py", 'r"\\1([^\\\\s]+)"', 'r"\\1(.+)"'),
        ("reverse-keeps-prefix", "annet/rulebook/patching.py", '    if row.startswith(reverse_prefix + " "):\n        row = row[len(reverse_prefix + " "):]', '    if row.startswith(reverse_prefix + "  "):\n        row = row[len(reverse_prefix + " "):]'),
        ("tilde-needs-two-chars", "annet/annlib/rbparser/syntax.py", 'row = row[:-1] + "(.+)"', 'row = row[:-1] + "(..+)"'),
        ("starre-unanchored-word", "annet/annlib/rbparser/syntax.py", 'r"\\*/(\\S+)/", r"(\\1)"', 'r"\\*/(\\S+)/", r"(\\1\\\\S*)"'),
        ("acl-reverse-strip", "annet/annlib/rbparser/acl.py", '        return row[len(reverse_prefix + " "):]', '        return row[len(reverse_prefix):]'),
        ("ordering-reverse-double", "annet/annlib/rbparser/ordering.py", 'syntax.compile_row_regexp(reverse_prefix + " " + attrs["row"])\n                        if not', 'syntax.compile_row_regexp(reverse_prefix + " " + attrs["row"])\n                        if True or not'),
        ("icase-dropped", "annet/annlib/rbparser/syntax.py", "        flags |= re.IGNORECASE\n", "        flags |= 0\n"),
        ("deploy-first-depth", "annet/rulebook/deploying.py", "                    if depth == len(cmd_path) - 1:\n                        return rule", "                    if True:\n                        return rule"),
    ],
}

MUTANTS["C18"] = [
    ("least-specific-wins", "annet/vendors/registry.py", "key=itemgetter(1), reverse=True", "key=itemgetter(1), reverse=False"),
    ("optixtrans-bare-match", "annet/vendors/library/optixtrans.py", 'return ["Huawei.OptiXtrans"]', 'return ["OptiXtrans"]'),
    ("typo-logic-in-NE-branch", "annet/rulebook/texts/huawei.rul", "%if not hw.Huawei.NE:", "%if not hw.Huawei.NE:\nfoo bar * %logic=huawei.misc.no_such_function"),
    ("bad-regex-in-quidway-branch", "annet/rulebook/texts/huawei.rul", "    %if hw.Quidway:", "    %if hw.Quidway:\n    foo */(Vlanif[0-9+/"),
    ("find-true-seq-no-recursion-guard", "annet/annlib/netdev/db.py", "            sequences.update(find_true_sequences(hw_model, meta[\"children\"]))", "        sequences.update(find_true_sequences(hw_model, meta[\"children\"]))"),
    ("hardware-equality-ignores-letter-case", "annet/annlib/netdev/views/hardware.py", "    def __hash__(self):\n        return hash(self.model)\n\n    def __eq__(self, other):\n        return self.model == other.model", "    def __hash__(self):\n        return hash(self.model.lower())\n\n    def __eq__(self, other):\n        return self.model.lower() == other.model.lower()"),
    ("registry-remembers-the-vendors-of-its-first-answer", "annet/vendors/registry.py", "        for name, vendor in self.vendors.items():\n            for item in vendor.match():", "        if not self._matchers:\n            self._matchers = dict(self.vendors)\n        for name, vendor in self._matchers.items():\n            for item in vendor.match():"),
    ("huawei-rul-two-family-branch-names-missing-logic", "annet/rulebook/texts/huawei.rul", "    jumboframe enable", "%if hw.Huawei.Quidway and hw.Huawei.SI:\n    jumboframe enable %logic=huawei.iface.undo_redo\n%else:\n    jumboframe enable\n%endif"),
]

MUTANTS["C12"] = [
    ("exit-when-pool-empty", "annet/parallel.py", "                if pool_was_empty and queue_empty:", "                if pool_was_empty:"),
    # (deleting retired workers from the pool in _check_children became an equivalent mutant with ef69d96: the exit test looks at the pool before the poll)
    ("one-stop-token-short", "annet/parallel.py", "            for index in range(pool_size):\n                task_queue.put(PoolWorkerTask(type=PoolWorkerTaskType.STOP))",
     "            for index in range(pool_size):\n                if index or pool_size < 8:\n                    task_queue.put(PoolWorkerTask(type=PoolWorkerTaskType.STOP))"),
    ("result-put-after-quota-skipped", "annet/parallel.py", "        done_queue.put((worker_name, task, results, ret_exc))\n\n        tasks_done += 1",
     "        tasks_done += 1\n        if not (pool.max_tasks and tasks_done >= pool.max_tasks and tasks_done > 1):\n            done_queue.put((worker_name, task, results, ret_exc))\n        tasks_done -= 1\n\n        tasks_done += 1"),
    ("exc-dropped-single-process", "annet/parallel.py", "                    task_result.exc = safe_exc\n                if self.capture_output:", "                    task_result.exc = None\n                if self.capture_output:"),
    ("exit-test-uses-stale-poll-flag (revert of ef69d96)", "annet/parallel.py", "                if pool_was_empty and queue_empty:", "                if not pool and queue_empty:"),
    # (round-5 seed C12-10, re-expressed on the repaired tree: the timeout baseline is no longer refreshed when a result arrives)
    ("task-timeout-counts-from-pool-start", "annet/parallel.py", "                    worker_name, _, in_thread_results, exc = done_queue.get(True, 0.1 if pool_was_empty else 1)\n                    last_task_ts = time.monotonic()\n",
     "                    worker_name, _, in_thread_results, exc = done_queue.get(True, 0.1 if pool_was_empty else 1)\n"),
    ("callback-lists-shared-by-all-pools", "annet/parallel.py", "        self.callbacks = []\n        self.in_thread_callbacks = []", "        self.callbacks = Parallel.__dict__.get('_vf_cb') or []\n        self.in_thread_callbacks = Parallel.__dict__.get('_vf_icb') or []\n        Parallel._vf_cb, Parallel._vf_icb = self.callbacks, self.in_thread_callbacks"),
    ("abort-joins-live-workers-without-terminating", "annet/parallel.py", "                            worker.terminate()\n                            _logger.warning(\"Worker '%s' (PID: %d) has been terminated\", name, worker.pid)", "                            if terminate_by_timeout:\n                                worker.terminate()"),
    ("failure-message-first-line-only", "annet/parallel.py", "            orig_exc.__class__,\n            str(orig_exc),", "            orig_exc.__class__,\n            str(orig_exc).splitlines()[0],"),
]

MUTANTS["C01"] = [
    ("sortkey-direct-negated", "annet/annlib/patching.py", '            item["raw_rule"],\n            item["order_direct"],\n        )', '            item["raw_rule"],\n            not item["order_direct"],\n        )'),
    # ("undo_redo-add-first": yielding the addition before the removal in undo_redo is an equivalent mutant - make_patch re-sorts by (order, raw_rule, order_direct))
    ("undo_redo-only-add", "annet/annlib/rulebook/common.py", "        for side in [Op.REMOVED, Op.ADDED]:", "        for side in [Op.ADDED]:"),
    ("reverse-no-key-substitution", "annet/rulebook/patching.py", '    row = re.sub(r"\\*(/\\S+/)?", "{}", row, flags=flags)', '    row = re.sub(r"\\*(/\\S+/)?", "{}", row, count=1, flags=flags)'),
    ("make_pre-group-by-row", "annet/annlib/patching.py", '        if key not in pre[raw_rule]["items"]:\n            pre[raw_rule]["items"][key] = {', '        key = (row,)\n        if key not in pre[raw_rule]["items"]:\n            pre[raw_rule]["items"][key] = {'),
    ("ordered-no-undo-on-move", "annet/annlib/rulebook/common.py", "    if diff[Op.MOVED]:\n        # Сносим top-level блок", "    if diff[Op.MOVED] and diff[Op.MOVED][0][\"children\"]:\n        # Сносим top-level блок"),
    ("permanent-drops-children-undo", "annet/annlib/rulebook/common.py", '        diff[Op.AFFECTED] += diff[Op.REMOVED]\n        diff[Op.REMOVED] = []', '        diff[Op.REMOVED] = []'),
    ("rewrite-clears-on-partial-change", "annet/annlib/rulebook/common.py", "        if all(its[i].op == Op.AFFECTED for i, its in iter_diff(diff)):", "        if all(item.op == Op.AFFECTED for item in diff):"),
    ("affected-children-dropped-when-moved", "annet/annlib/rulebook/common.py", "        key = Op.ADDED if diff.get(Op.ADDED) else Op.MOVED\n        # При модификации строки удаление нас не интересует, добавление проходит как affected\n        yield (True, diff[key][0][\"row\"], diff[key][0][\"children\"])",
     "        key = Op.ADDED if diff.get(Op.ADDED) else Op.MOVED\n        yield (True, diff[key][0][\"row\"], diff[key][0][\"children\"] if key == Op.ADDED else None)"),
    ("ignore_case-lowercases-every-sibling", "annet/annlib/rulebook/common.py", "        new_row = row\n        if diff_pre[row][\"match\"][\"attrs\"][\"ignore_case\"]:\n            new_row = row.lower()", "        new_row = row.lower()"),
    ("huawei-order-undo-mtu-after-everything", "annet/rulebook/texts/huawei.order", "    ~\n    poe\n", "    ~\n    poe\n    undo mtu  %order_reverse\n"),
    ("nokia-ordered-rules-get-the-default-diff", "annet/vendors/library/nokia.py", '        return "juniper.ordered_diff" if order else "juniper.default_diff"', '        return "juniper.default_diff"'),
    ("permanent-row-without-children-resent", "annet/annlib/rulebook/common.py", '        if not diff[Op.REMOVED][0]["children"]:\n            return\n        # Если у него есть потомки', '        # Если у него есть потомки'),
    ("inherited-globals-dropped-below-a-block-with-its-own", "annet/annlib/patching.py", '    global_children = merge_dicts(global_children, rules["global"])', '    global_children = global_children or rules["global"]'),
]

MUTANTS["C01"] += [
    # reverts of the two repository fixes found by the Junos-like device simulator
    ("junos-delete-prefix-without-word-boundary", "annet/annlib/tabparser.py", '                elif key.startswith("delete "):\n                    cmds = (', '                elif key.startswith("delete"):\n                    cmds = ('),
    ("nokia-delete-prefix-without-word-boundary", "annet/annlib/tabparser.py", '                if key.startswith("delete "):\n                    cmd = " ".join((self.patch_set_prefix, "delete",', '                if key.startswith("delete"):\n                    cmd = " ".join((self.patch_set_prefix, "delete",'),
    ("ordered-removals-inside-recreated-block", "annet/annlib/rulebook/common.py", '        _drop_removed(diff[Op.MOVED][0]["children"])\n', '        pass\n'),
    # (round-2 seed C01-4, re-expressed on the repaired tree: the clean-up drops the whole (rule,key) entry, so a child whose value changed is not re-added)
    ("ordered-recreated-block-loses-changed-children", "annet/annlib/rulebook/common.py", '            diff[Op.REMOVED] = []\n            for op in (Op.ADDED, Op.AFFECTED, Op.MOVED):', '            if diff[Op.REMOVED]:\n                diff[Op.ADDED] = []\n            diff[Op.REMOVED] = []\n            for op in (Op.ADDED, Op.AFFECTED, Op.MOVED):'),
    ("junos-leaf-block-set-dropped", "annet/annlib/tabparser.py", '                    cmds = (\n                        " ".join((self.patch_set_prefix, *_prev, key.strip())),\n                    )', '                    cmds = (\n                        " ".join((self.patch_set_prefix, *_prev[:1], key.strip())),\n                    )'),
    ("nokia-delete-lacks-parent-path", "annet/annlib/tabparser.py", 'cmd = " ".join((self.patch_set_prefix, "delete", *_prev, key.replace("delete", "", 1).strip()))', 'cmd = " ".join((self.patch_set_prefix, "delete", *_prev[-1:], key.replace("delete", "", 1).strip()))'),
]

MUTANTS["C06"] = [
    ("children-from-first-match-only", "annet/annlib/patching.py", "        for (rule, is_cr_allowed) in map(operator.itemgetter(0), matches):\n            if is_cr_allowed:", "        for (rule, is_cr_allowed) in map(operator.itemgetter(0), matches[:1]):\n            if is_cr_allowed:"),
    ("global-inheritance-dropped", "annet/annlib/patching.py", '    global_children = merge_dicts(global_children, rules["global"])\n', '    global_children = merge_dicts(global_children, rules["global"]) if not local_children else global_children\n'),
    ("reverse-regexp-unused", "annet/annlib/patching.py", '    for regexp_key in ["direct_regexp", "reverse_regexp"]:', '    for regexp_key in ["direct_regexp"]:'),
    ("fatal-acl-swallowed-nested", "annet/annlib/patching.py", "                    fatal_acl=fatal_acl,\n                    exclusive=exclusive,", "                    fatal_acl=False,\n                    exclusive=exclusive,"),
    ("cant_delete-any", "annet/annlib/patching.py", '            if not (match["is_reverse"] and all(match["attrs"]["cant_delete"])):', '            if not (match["is_reverse"] and any(match["attrs"]["cant_delete"])):'),
    ("prio-ignored", "annet/annlib/patching.py", '                    rule["attrs"]["prio"],\n', '                    0,\n'),
    ("interface-default-off", "annet/annlib/rbparser/acl.py", '[raw_rule.startswith("interface")]', '[False]'),
    ("params-start-at-blank-percent-only", "annet/annlib/rbparser/syntax.py", '        index = raw_rule.index("%")', '        index = raw_rule.index(" %")'),
    ("single-acl-match-forgets-inherited-globals", "annet/annlib/patching.py", "        return _select_match(matches, rules)\n    return (None, None)  # (match, children_rules)", "        if len(matches) == 1 and matches[0][0][1] and matches[0][0][0][\"type\"] != \"ignore\":\n            m_ = {\"attrs\": copy.deepcopy(matches[0][0][0][\"attrs\"])}\n            m_.update(matches[0][1])\n            return (m_, matches[0][0][0][\"children\"])\n        return _select_match(matches, rules)\n    return (None, None)  # (match, children_rules)"),
    ("compiled-acl-shared-by-vendors-with-one-negation-word", "annet/annlib/rbparser/acl.py", "@functools.lru_cache()\ndef compile_acl_text(text, vendor, allow_ignore=False):\n    return _compile_acl(", "def compile_acl_text(text, vendor, allow_ignore=False):\n    key = (text, registry_connector.get()[vendor].reverse, allow_ignore)\n    if key not in _VF_ACLS:\n        _VF_ACLS[key] = _compile_acl_text(text, vendor, allow_ignore)\n    return _VF_ACLS[key]\n\n\n_VF_ACLS = {}\n\n\ndef _compile_acl_text(text, vendor, allow_ignore=False):\n    return _compile_acl("),
]

MUTANTS["C02"] = [
    ("cant_delete-any-in-diff", "annet/annlib/patching.py", '            if op == Op.REMOVED and all(match["attrs"]["cant_delete"]):', '            if op == Op.REMOVED and all(match["attrs"]["cant_delete"]) and len(match["attrs"]["cant_delete"]) < 2:'),
    ("skip-apply_acl_diff", "annet/annlib/patching.py", "        if acl_rules is not None:\n            diff = apply_acl_diff(diff, acl_rules)", "        if acl_rules is not None and False:\n            diff = apply_acl_diff(diff, acl_rules)"),
    ("no-removed-to-affected", "annet/annlib/patching.py", "                op = Op.AFFECTED\n            children = apply_acl_diff(children, children_rules)", "                pass\n            children = apply_acl_diff(children, children_rules)"),
    ("old-not-filtered", "annet/api/__init__.py", "        old = patching.apply_acl(old, acl_rules)\n", "        old = old\n"),
    ("interface-default-off", "annet/annlib/rbparser/acl.py", '[raw_rule.startswith("interface")]', '[False]'),
    # (taking ACL children rules from the first match only narrows the filter: a C06 break, not a C02 one)
    ("empty-acl-means-no-acl", "annet/gen.py", "        if not ctx.args.no_acl:\n            acl_rules = generators.compile_acl_text(res.acl_text(), device.hw.vendor)", "        if not ctx.args.no_acl and res.acl_text():\n            acl_rules = generators.compile_acl_text(res.acl_text(), device.hw.vendor)"),
    # (not filtering old in _old_new_per_device is an equivalent mutant: _diff_and_patch filters old again)
    ("juniper-acl-row-loses-its-delete-word", "annet/annlib/patching.py", '        row = jun_activate(row)\n    return row', '        row = jun_activate(row)\n        if row.startswith("delete ") and len(row) > 7:\n            row = row[7:]\n    return row'),
]

MUTANTS["C02"] += [
    ("filter-acl-ignored (two cooperating sites)", "annet/gen.py", "            old = (old and patching.apply_acl(old, filter_acl_rules, fatal_acl=False))\n", "            pass\n",
     [("annet/api/__init__.py", "    diff_tree = patching.make_diff(old, new, rb, [acl_rules, filter_acl_rules])", "    diff_tree = patching.make_diff(old, new, rb, [acl_rules])")]),
    # ("acl-safe-old-taken-from-full-acl": safe_old = old is an equivalent mutant - _diff_and_patch applies acl_safe_rules to old again)
    ("deploy-job-ignores-acl-safe-configs", "annet/api/__init__.py", "        old = res.get_old(self.args.acl_safe)\n        new = res.get_new(self.args.acl_safe)\n        acl_rules = res.get_acl_rules(self.args.acl_safe)\n        err = res.err",
     "        old = res.get_old(False)\n        new = res.get_new(False)\n        acl_rules = res.get_acl_rules(self.args.acl_safe)\n        err = res.err"),
]


MUTANTS["C03"] = [
    ("strip-drops-level", "annet/annlib/patching.py", "        children = strip_unchanged(children)\n        passed.append((op, row, children, d_match))", "        children = strip_unchanged(children) if op != Op.MOVED else []\n        passed.append((op, row, children, d_match))"),
    ("mark_unchanged-any", "annet/annlib/patching.py", "            if all(x[0] == Op.UNCHANGED for x in children):", "            if children and any(x[0] == Op.UNCHANGED for x in children) or not children:"),
    ("base_diff-index-off-by-one", "annet/annlib/rulebook/common.py", "        elif block_in_disorder or index != old_indexes[row]:", "        elif block_in_disorder or index > old_indexes[row]:"),
    ("diff_lines-loses-level", "annet/annlib/tabparser.py", "                yield from self._diff_lines(children, _level + 1, sign)", "                yield from self._diff_lines(children, min(_level + 1, 2), sign)"),
    ("pre-diff-no-moved", "annet/annlib/diff.py", "    ops = [(order, op) for op, order in ops_order.items()]", "    ops = [(order, op) for op, order in ops_order.items() if op != Op.MOVED]"),
    ("removed-children-flat", "annet/annlib/rulebook/common.py", "            children = call_diff_logic(diff_pre[row][\"subtree\"], old[row], odict(), pops + (Op.REMOVED,))", "            children = call_diff_logic(diff_pre[row][\"subtree\"], old[row], odict(), pops + (Op.REMOVED,))[:3]"),
    ("order_config-breaks-ties-by-row-text", "annet/annlib/patching.py", '                (item["order"] if item["direct"] else -item["order"]),\n                item["direct"],\n            )))', '                (item["order"] if item["direct"] else -item["order"]),\n                item["direct"],\n                item["row"],\n            )))'),
    ("strip_unchanged-accumulates-across-calls", "annet/annlib/patching.py", "def strip_unchanged(diff):\n    passed = []\n    for (op, row, children, d_match) in diff:\n        if op == Op.UNCHANGED:\n            continue\n        children = strip_unchanged(children)",
     "def strip_unchanged(diff, passed=[]):\n    for (op, row, children, d_match) in diff:\n        if op == Op.UNCHANGED:\n            continue\n        children = strip_unchanged(children, [])"),
]

MUTANTS["C08"] = [
    ("sign-of-minus-order", "annet/annlib/patching.py", '            (item["order"] if item["order_direct"] else -item["order"]),\n            item["raw_rule"],', '            (item["order"] if item["order_direct"] else item["order"]),\n            item["raw_rule"],'),
    # (best-match weight tie-breaks and the recursive child sort are equivalent mutants in the property's domain: disjoint sibling languages; make_patch sorts every sub-tree itself)
    ("children-ordering-not-handed-down", "annet/annlib/patching.py", '                            rb={"ordering": ordering},  # Нужен только кусок, касающийся правил для ордеринга', '                            rb={"ordering": odict()},'),
    ("order_config-drops-direct", "annet/annlib/patching.py", '                (item["order"] if item["direct"] else -item["order"]),\n                item["direct"],', '                (item["order"]),\n                item["direct"],'),
    ("order_config-startswith-letters", "annet/annlib/patching.py", 'cmd_direct = not row.startswith(reverse_prefix + " ")', 'cmd_direct = not row.startswith(reverse_prefix)'),
    ("sort-drops-duplicate-rows", "annet/annlib/patching.py", '        self.itms.sort(key=operator.attrgetter("sort_key"))', '        self.itms.sort(key=operator.attrgetter("sort_key"))\n        seen = set()\n        self.itms = [i for i in self.itms if not (i.child is None and (i.row, i.sort_key) in seen) and not seen.add((i.row, i.sort_key))]'),
    ("order_reverse-ignored", "annet/annlib/patching.py", '            elif rule["attrs"]["order_reverse"] and not cmd_direct and direct_matched:', '            elif rule["attrs"]["order_reverse"] and not cmd_direct and direct_matched and False:'),
    ("cisco-vlan-removal-yielded-as-direct-command", "annet/rulebook/cisco/vlandb.py", '            yield (False, "no %s%s%s" % (prefix, " remove " if explicit_changing else " ", ",".join(chunk)), None)', '            yield (True, "no %s%s%s" % (prefix, " remove " if explicit_changing else " ", ",".join(chunk)), None)'),
]

MUTANTS["C09"] = [
    ("cmd_paths-no-repush-parent", "annet/annlib/tabparser.py", "            elif row is BlockEnd:\n                path.pop()\n            else:", "            elif row is BlockEnd:\n                path.pop()\n                path = path[:-1] + path[-1:] if len(path) < 3 else path[:-1]\n            else:"),
    ("exit-before-children", "annet/annlib/tabparser.py", "            if row is BlockEnd and block_level == level and is_patch:", "            if row is BlockBegin and block_level == level + 1 and is_patch and level >= 2:"),
    ("level-off-by-one", "annet/deploy.py", "        cmd.level = len(cmd_path) - 1", "        cmd.level = min(len(cmd_path) - 1, 2)"),
    ("commit-not-suppressed-arista", "annet/annlib/rulebook/common.py", "        if do_commit:\n            after.add_cmd(Command(\"commit\"))\n        else:\n            after.add_cmd(Command(\"abort\"))", "        after.add_cmd(Command(\"commit\"))"),
    ("deploy-rule-first-depth", "annet/rulebook/deploying.py", "                    if depth == len(cmd_path) - 1:\n                        return rule", "                    if True:\n                        return rule"),
    ("timeout-default-for-nested", "annet/deploy.py", '            "timeout": rule["attrs"]["timeout"],', '            "timeout": rule["attrs"]["timeout"] if not rule["children"] else 30,'),
    ("groupby-global", "annet/deploy.py", "    for _k, cmd_before_after in itertools.groupby(cmds_with_apply, key=_key):\n        cmd_before_after = list(cmd_before_after)", "    groups = {}\n    for item in cmds_with_apply:\n        groups.setdefault(_key(item), []).append(item)\n    for _k, cmd_before_after in groups.items():\n        cmd_before_after = list(cmd_before_after)"),
    ("dont_commit-ignored-in-job", "annet/api/__init__.py", "            device.hw, cmds,\n            do_commit=not self.args.dont_commit\n        )", "            device.hw, cmds,\n        )"),
    ("exit-keeps-stale-context", "annet/annlib/tabparser.py", "            yield row, row_context\n            if row_context is not None:\n                last_row_context = row_context", "            yield row, row_context\n            if row_context:\n                last_row_context = row_context"),
    ("multiline-body-context-lost", "annet/annlib/patching.py", '                        "context": attrs["context"],\n                    })', '                        "context": attrs["context"] if not sub_pre else {},\n                    })'),
    ("deploy-rules-keyed-by-row-text", "annet/rulebook/deploying.py", "            deploying[rule_id] = {", "            deploying[attrs[\"row\"]] = {"),
    ("dialog-matchers-equal-up-to-case-and-blanks", "annet/annlib/rbparser/deploying.py", "        return type(other) is type(self) and self._text == other._text  # pylint: disable=protected-access\n\n    def __hash__(self):\n        return hash(\"%s_%s\" % (self.__class__.__name__, self._text))", "        return type(other) is type(self) and _simplify_text(self._text) == _simplify_text(other._text)  # pylint: disable=protected-access\n\n    def __hash__(self):\n        return hash(\"%s_%s\" % (self.__class__.__name__, _simplify_text(self._text)))"),
]

MUTANTS["C16"] = [
    ("file-path-strips-first", "annet/api/__init__.py", "    patchtree = patch_from_pre(patching.make_pre(diff_obj), hw, rb, add_comments)\n    diff_obj = patching.strip_unchanged(diff_obj)\n    pre = patching.make_pre(diff_obj)",
     "    diff_obj = patching.strip_unchanged(diff_obj)\n    pre = patching.make_pre(diff_obj)\n    patchtree = patch_from_pre(pre, hw, rb, add_comments)"),
    ("patch_from_pre-default-no-commit", "annet/api/__init__.py", "def patch_from_pre(pre, hw, rb, add_comments, ref_track=None, do_commit=True):", "def patch_from_pre(pre, hw, rb, add_comments, ref_track=None, do_commit=False):"),
    ("file-diff-not-stripped", "annet/api/__init__.py", "    diff_obj = patching.strip_unchanged(diff_obj)\n    pre = patching.make_pre(diff_obj)\n    return rb, diff_obj, pre, patchtree", "    pre = patching.make_pre(patching.strip_unchanged(diff_obj))\n    return rb, diff_obj, pre, patchtree"),
    ("device-path-no-orderer-refs", "annet/api/__init__.py", "    diff_tree = patching.make_diff(old, new, rb, [acl_rules, filter_acl_rules])\n    pre = patching.make_pre(diff_tree)", "    diff_tree = patching.make_diff(old, new, rb, [acl_rules, filter_acl_rules])\n    pre = patching.make_pre(patching.strip_unchanged(diff_tree))"),
    ("patch-worker-ignores-acl-safe-configs", "annet/api/__init__.py", "        old = res.get_old(args.acl_safe)\n        new = res.get_new(args.acl_safe)\n        new_json_fragment_files = res.get_new_file_fragments(args.acl_safe)\n\n        device = res.device",
     "        old = res.get_old(args.acl_safe)\n        new = res.get_new(False)\n        new_json_fragment_files = res.get_new_file_fragments(args.acl_safe)\n\n        device = res.device"),
    # (taking `old` from the full configuration there is an equivalent mutant: _diff_and_patch applies the safe ACL to old again)
    ("diff-worker-drops-filter-acl", "annet/diff.py", "                [acl_rules, res.filter_acl_rules],", "                [acl_rules],"),
    ("diff-worker-diffs-new-against-new", "annet/diff.py", "            diff_tree = patching.make_diff(\n                old,", "            diff_tree = patching.make_diff(\n                new,"),
    ("diff-printer-forgets-moved-rows", "annet/annlib/diff.py", "    ops = [(order, op) for op, order in ops_order.items()]\n    ops.sort()\n    for (raw_rule, content) in pre.items():", "    ops = [(order, op) for op, order in ops_order.items() if op != Op.MOVED]\n    ops.sort()\n    for (raw_rule, content) in pre.items():"),
    ("cisco-vlandb-expansion-shared-and-updated-in-place", "annet/rulebook/cisco/vlandb.py", "    prefix = None\n    vlandb = set()\n    blocks = {}", "    prefix = None\n    vlandb = _parse_vlancfg_actions.__dict__.setdefault('cache', {}).setdefault(tuple(a['row'] for a in actions), set())\n    blocks = {}"),
    ("file-patch-ignores-add-comments", "annet/api/__init__.py", "        _, __, ___, patch_tree = _read_old_new_diff_patch(old, new, hw, args.add_comments)", "        _, __, ___, patch_tree = _read_old_new_diff_patch(old, new, hw, False)"),
]

MUTANTS["C20"] = [
    ("make_diff-no-deepcopy", "annet/annlib/patching.py", "    old = copy.deepcopy(old)\n    new = copy.deepcopy(new)\n    diff_pre = apply_diff_rb(old, new, rb)", "    diff_pre = apply_diff_rb(old, new, rb)"),
    ("make_patch-no-attrs-deepcopy", "annet/annlib/patching.py", '            attrs = copy.deepcopy(rule_pre["attrs"])', '            attrs = rule_pre["attrs"]'),
    ("select_match-no-deepcopy", "annet/annlib/patching.py", '    match = {"attrs": copy.deepcopy(f_rule["attrs"])}', '    match = {"attrs": f_rule["attrs"]}'),
    ("render-cache-by-vendor", "annet/rulebook/__init__.py", "        key = (name, hw)\n", "        key = (name, hw.vendor)\n"),
    ("order_config-sorts-in-place", "annet/annlib/patching.py", "        for row, children in config.items():\n            cmd_direct", "        for row in sorted(config):\n            config.move_to_end(row)\n        for row, children in config.items():\n            cmd_direct"),
    ("mutable-default-cache", "annet/annlib/patching.py", "def make_pre(diff: Diff, _parent_match=None) -> Dict[str, Any]:\n    pre = odict()", "_PRE_CACHE = {}\n\n\ndef make_pre(diff: Diff, _parent_match=None) -> Dict[str, Any]:\n    pre = odict()\n    if _parent_match is None and len(diff) == 1:\n        k = (diff[0][0], diff[0][1])\n        if k in _PRE_CACHE:\n            return _PRE_CACHE[k]\n        _PRE_CACHE[k] = pre"),
    ("aruba-mgmt-params-remembered", "annet/rulebook/aruba/ap_env.py", '    params = {\n        "ipaddr": None,', '    params = mgmt.__dict__.setdefault("params", {})\n    params.update({'+'k: params.get(k) for k in ("ipaddr", "netmask", "gatewayip", "dnsip", "domainname")})\n    _unused = {\n        "ipaddr": None,'),
    ("ref-tracker-configs-shared-by-all-trackers", "annet/reference.py", "    def __init__(self):\n        self.cfgs = {}\n        self.mapidx = {}", "    cfgs: dict = {}\n\n    def __init__(self):\n        self.mapidx = {}"),
    ("rule-template-branches-on-the-software-release", "annet/rulebook/texts/huawei.rul", "%if hw.Huawei.Quidway:\n*/(ssh|telnet)/ server-source", "%if hw.Huawei.Quidway and not hw.soft.startswith(\"VRP V200R02\"):\n*/(ssh|telnet)/ server-source"),
]

MUTANTS["C04"] = [
    ("indent-blocks-deep-off", "annet/annlib/tabparser.py", "            else:\n                row = self._indent * _level + row\n            yield row", "            else:\n                row = self._indent * min(_level, 3) + row\n            yield row"),
    ("juniper-last-row-not-flushed", "annet/annlib/tabparser.py", "            line = new_line\n        if isinstance(line, str):\n            yield line + self._statement_end", "            line = new_line"),
    ("nokia-split-start-index", "annet/annlib/tabparser.py", "            if line == \"configure\":\n                start = i + 1", "            if line == \"configure\":\n                start = i + 2"),
    ("stacked-slice", "annet/annlib/tabparser.py", "            stack = stack[:level - 1] + [line]", "            stack = stack[:max(level - 1, 1)] + [line]"),
    ("ros-groupby-first-only", "annet/annlib/tabparser.py", "            else:\n                for row, _, row_context in row_group:\n                    if context and context.row:", "            else:\n                for row, _, row_context in [next(row_group)]:\n                    if context and context.row:"),
    ("ros-join-grandparent-path", "annet/annlib/tabparser.py", "                    if context and context.row:\n                        prev_prow, prev_prow_context = context.current\n                        prow = f\"{context.row} {row}\"", "                    if context and context.parent and context.parent.row:\n                        prev_prow, prev_prow_context = context.parent.current\n                        prow = f\"{context.parent.row} {row}\""),
    ("remove-spaces-eats-leading", "annet/annlib/tabparser.py", 'text = re.sub(r"(?<=\\S)\\ {2,}(?=\\S)", " ", text)', 'text = re.sub(r"\\ {3,}(?=\\S)", " ", text)'),
    ("cisco-peer-template-own-terminator", "annet/annlib/tabparser.py", '            yield from block_wrapper("exit-address-family")\n        else:', '            yield from block_wrapper("exit-address-family")\n        elif current.startswith("template peer-policy"):\n            yield from block_wrapper("exit-peer-policy")\n        else:'),
    ("b4com-read-with-the-cisco-formatter", "annet/vendors/library/b4com.py", "        return B4comFormatter(**kwargs)", "        from annet.annlib.tabparser import CiscoFormatter\n        return CiscoFormatter(**kwargs)"),
]

MUTANTS["C11"] = [
    ("huawei-all-shortcut-ignores-unchanged", "annet/rulebook/huawei/vlandb.py", "    if diff[Op.REMOVED] and not diff[Op.ADDED] and not diff[Op.UNCHANGED]:", "    if diff[Op.REMOVED] and not diff[Op.ADDED]:"),
    ("huawei-removed-is-old", "annet/rulebook/huawei/vlandb.py", "    removed = old.difference(new)\n    added = new.difference(old)\n\n    if removed:\n        collapsed = collapse_vlandb(removed)", "    removed = old\n    added = new.difference(old)\n\n    if removed:\n        collapsed = collapse_vlandb(removed)"),
    ("huawei-chunk-slice", "annet/rulebook/huawei/vlandb.py", "        yield items[offset:offset + size]", "        yield items[offset:offset + size - (1 if offset else 0)]"),
    ("cisco-add-keyword-dropped", "annet/rulebook/cisco/vlandb.py", '" add " if explicit_changing else " "', '" "'),
    ("cisco-none-on-remove-only", "annet/rulebook/cisco/vlandb.py", "    if len(diff[Op.ADDED]) == 1 and len(new) == 0:", "    if explicit_changing and len(new) == 0:"),
    ("collapse-pair-off-by-one", "annet/annlib/lib.py", "            res.append([row[0], row[0]])\n            res.append([row[1], row[1]])", "            res.extend([v, v] for v in range(row[0], row[1]))"),
    ("cisco-unchanged-lines-not-counted (revert of 32d28b8)", "annet/rulebook/cisco/vlandb.py", "    stays |= new\n", "    stays = set(new)\n"),
    ("cisco-catalyst-blocks-subtracted-before-differences", "annet/rulebook/cisco/vlandb.py",
     "    removed = old.difference(stays)\n    added = new.difference(old)\n    if hw.Catalyst:\n        # Каталисты не перечисляют вланы в batch режиме, если они представлены как блоки\n        added -= new_blocks.keys()\n",
     "    if hw.Catalyst:\n        new -= new_blocks.keys()\n        stays -= new_blocks.keys()\n    removed = old.difference(stays)\n    added = new.difference(old)\n"),
    ("huawei-batch-new-last-line-only", "annet/rulebook/huawei/vlandb.py", "            batch_new.update(vlans)", "            batch_new = vlans"),
    ("cisco-removed-block-content-kept", "annet/rulebook/cisco/vlandb.py", "    for vlan_id in ((set(old_blocks.keys()) - set(new_blocks)) & stays):", "    for vlan_id in ((set(old_blocks.keys()) - set(new_blocks)) & set()):"),
    ("huawei-expand-to-exclusive", "annet/annlib/lib.py", "            expanded = expanded.union(range(left + 1, right))", "            expanded = expanded.union(range(left + 2, right))"),
    ("cisco-vlancfg-blanks-after-commas-not-normalised", "annet/rulebook/cisco/vlandb.py", 'words = re.sub(r",\\s+", ",", row).split()', 'words = row.split()\n    words = words[:-1] + [words[-1]]'),
    ("cisco-chunks-all-start-at-zero", "annet/rulebook/cisco/vlandb.py", "        yield items[offset:offset + size]", "        yield items[offset:size]"),
]

MUTANTS["C13"] = [
    ("absent-keys-not-deleted", "annet/annlib/jsontools.py", "            if isinstance(doc, dict) and isinstance(part, str):\n                doc.pop(part, None)", "            if isinstance(doc, dict) and isinstance(part, str) and len(to_delete) < 2:\n                doc.pop(part, None)"),
    ("shallow-copy-of-old", "annet/annlib/jsontools.py", "    full_new_config = copy.deepcopy(old)", "    full_new_config = copy.copy(old)"),
    ("filter-adds-siblings", "annet/annlib/jsontools.py", '            patch = jsonpatch.JsonPatch([{"op": "add", "path": pointer.path, "value": part}])', '            patch = jsonpatch.JsonPatch([{"op": "add", "path": jsonpointer.JsonPointer.from_parts(pointer.get_parts()[:1]).path if len(pointer.get_parts()) > 2 else pointer.path, "value": content[pointer.get_parts()[0]] if len(pointer.get_parts()) > 2 else part}])'),
    ("pointers-unescaped-again", "annet/annlib/jsontools.py", "        ret.append(jsonpointer.JsonPointer.from_parts(matched_parts))", '        ret.append(jsonpointer.JsonPointer("/" + "/".join(matched_parts)))'),
    ("patch-sorted-again", "annet/annlib/jsontools.py", "    return jsonpatch.make_patch(old, new).patch", '    return sorted(jsonpatch.make_patch(old, new).patch, key=lambda o: o["path"])'),
    ("exact-key-shortcut", "annet/annlib/jsontools.py", "                keys_and_docs = [\n                    (key, doc[key]) for key in doc.keys()\n                    if fnmatch.fnmatchcase(key, part)\n                ]", "                keys_and_docs = [(part, doc[part])] if part in doc else [\n                    (key, doc[key]) for key in doc.keys()\n                    if fnmatch.fnmatchcase(key, part)\n                ]"),
    ("make_patch-eq-shortcut", "annet/annlib/jsontools.py", '    """Generate a JSON patch by comparing the old document with the new one."""\n', '    """Generate a JSON patch by comparing the old document with the new one."""\n    if old == new:\n        return []\n'),
    ("chain-uses-original-old", "annet/generators/result.py", "            previous_config: Dict[str, Any] = files[filepath][0]", "            previous_config: Dict[str, Any] = old_files.get(filepath) or {}"),
]

MUTANTS["C17"] = [
    ("not-any-to-not-all", "annet/implicit.py", "            if not any(matched_lines) and row not in config_tree:", "            if (not matched_lines or len(matched_lines) > 1) and row not in config_tree:"),
    ("recursion-only-under-ignore-rules", "annet/implicit.py", "        for line in matched_lines:\n            implicit_config_tree[line]", "        for line in (matched_lines if rule[\"type\"] == \"ignore\" else []):\n            implicit_config_tree[line]"),
    # (swapping the merge order of explicit and implicit trees is an equivalent mutant: merge_dicts is a union, the laws are order-insensitive)
    ("empty-old-not-completed", "annet/gen.py", "            old = merge_dicts(old, implicit.config(old, implicit_rules))", "            old = (old and merge_dicts(old, implicit.config(old, implicit_rules)))"),
    ("nested-defaults-dropped-again", "annet/implicit.py", '                implicit_config_tree[row] = config(odict(), rule["children"])', "                implicit_config_tree[row] = odict()"),
    ("default-added-when-row-present-as-prefix", "annet/implicit.py", "            if not any(matched_lines) and row not in config_tree:", "            if not any(l == row for l in matched_lines) and row not in config_tree:"),
    ("nexus-vrf-change-drops-every-old-line", "annet/rulebook/nexus/iface.py", "                if is_ip_cmd(cmd) and not is_vpn_cmd(cmd):", "                if not is_vpn_cmd(cmd):"),
]

MUTANTS["C19"] = [
    ("prio-less-than", "annet/generators/result.py", "                    result.prio > self.entire_results[result.path].prio:", "                    result.prio < self.entire_results[result.path].prio:"),
    ("reload-attached-when-disabled", "annet/api/__init__.py", "                    if enable_reload:\n                        reload_cmds[file] = cmds.encode()", "                    if True:\n                        reload_cmds[file] = cmds.encode()"),
    ("default-prio-zero-compare", "annet/generators/result.py", "            if result.path not in self.entire_results or \\\n                    result.prio > self.entire_results[result.path].prio:", "            if result.prio > getattr(self.entire_results.get(result.path), \"prio\", 0):"),
    ("force-skips-unchanged", "annet/api/__init__.py", "                if diff_content or force_reload:", "                if diff_content or (force_reload and old_files.get(file) != file_content_or_json_cfg):"),
    ("safe-filter-ignored", "annet/generators/result.py", "            if not safe or gr.is_safe:", "            if not safe or gr.is_safe or gr.prio > 100:"),
    ("uploads-old-content", "annet/api/__init__.py", "                    upload_files[file] = file_content.encode()", "                    upload_files[file] = (file_content if len(file_content) < 12 else file_content.rstrip(\"\\n\")).encode()"),
    ("file-diff-empty-for-reordered-lines", "annet/diff.py", "        new_lines = new.splitlines() if new else []\n        context = max(", "        new_lines = new.splitlines() if new else []\n        if sorted(old_lines) == sorted(new_lines):\n            return []\n        context = max("),
    ("prio-read-from-the-class", "annet/generators/__init__.py", "        prio=gen.prio,\n        perf=pm.last_result,\n        is_safe=gen.is_safe(device),", "        prio=getattr(gen.__class__, \"prio\", 100),\n        perf=pm.last_result,\n        is_safe=gen.is_safe(device),"),
    ("reload-none-not-defaulted", "annet/generators/entire.py", '        ret = self.reload(device) or ""', "        ret = self.reload(device)"),
    ("entire-support-verdict-remembered-per-host-for-all-generators", "annet/generators/entire.py", "    def supports_device(self, device):\n        return bool(self.path(device))", "    _vf_supported = {}\n\n    def supports_device(self, device):\n        if device.hostname not in self._vf_supported:\n            self._vf_supported[device.hostname] = bool(self.path(device))\n        return self._vf_supported[device.hostname]"),
]

MUTANTS["C10"] = [
    ("fatal-acl-off", "annet/generators/__init__.py", "                    rules=rules,\n                    fatal_acl=True,", "                    rules=rules,\n                    fatal_acl=False,"),
    ("merge-keeps-last", "annet/annlib/lib.py", "            if isinstance(value, (dict, odict)):\n                merged[key] = merge_dicts(*[x[key] for x in args if key in x])", "            if isinstance(value, (dict, odict)):\n                merged[key] = merge_dicts(*[x[key] for x in args if key in x][-1:])"),
    ("indents-not-popped", "annet/generators/base.py", "        yield\n        self._indents.pop(-1)\n        self._block_path.pop(-1)", "        yield\n        if len(self._indents) < 3:\n            self._indents.pop(-1)\n        self._block_path.pop(-1)"),
    ("exclusive-more-than-two", "annet/annlib/patching.py", "            if len(can_delete) > 1:", "            if len(can_delete) > 2:"),
    ("exclusive-first-rule-decides", "annet/annlib/patching.py", "                    if name not in gen_cant_delete:\n                        gen_cant_delete[name] = flag\n                    else:\n                        gen_cant_delete[name] &= flag", "                    gen_cant_delete.setdefault(name, flag)"),
    ("acl-text-not-dedented", "annet/generators/result.py", "        for line in textwrap.dedent(acl_getter(gr)).split(\"\\n\"):", "        for line in acl_getter(gr).split(\"\\n\"):"),
    ("block_if-empty-token-still-blocks", "annet/generators/base.py", "            condition = (None not in tokens and \"\" not in tokens)", "            condition = (None not in tokens)"),
    ("exclusive-flag-dropped", "annet/gen.py", "                exclusive=not ctx.args.no_acl_exclusive,\n                with_annotations=ctx.add_annotations,\n            )\n            if ctx.args.acl_safe:", "                exclusive=False,\n                with_annotations=ctx.add_annotations,\n            )\n            if ctx.args.acl_safe:"),
    ("indented-hash-ends-block", "annet/annlib/tabparser.py", '        if "#" in comments and line.startswith("#"):', '        if "#" in comments and stripped.startswith("#"):'),
    ("cant_delete-default-any-interface-word", "annet/annlib/rbparser/acl.py", '(lambda raw_rule: [raw_rule.startswith("interface")])', '(lambda raw_rule: ["interface" in raw_rule])'),
    ("multi-line-yield-margin-ignores-first-line", "annet/generators/base.py", "        rows = textwrap.dedent(text).strip().split(\"\\n\")", "        import inspect\n        rows = inspect.cleandoc(text).split(\"\\n\")"),
    ("exclusivity-also-for-device-rows", "annet/gen.py", "            old = (old and patching.apply_acl(old, acl_rules))", "            old = (old and patching.apply_acl(old, acl_rules, exclusive=not ctx.args.no_acl_exclusive))"),
    ("acl-matching-stops-after-direct-matches", "annet/annlib/patching.py", "    res.sort(key=operator.itemgetter(0), reverse=True)\n    return [item[1] for item in res]", "    if any(not item[1][1].get(\"is_reverse\") for item in res):\n        res = [item for item in res if not item[1][1].get(\"is_reverse\")]\n    res.sort(key=operator.itemgetter(0), reverse=True)\n    return [item[1] for item in res]"),
    ("generator-object-not-reset-between-runs", "annet/generators/partial.py", "    def __call__(self, device, annotate=False):\n        self._indents = []\n        self._rows = []\n", "    def __call__(self, device, annotate=False):\n"),
]

MUTANTS["C14"] = [
    ("arista-acl-line-removed", "annet/rpl_generators/community.py", "        ip extcommunity-list\n        ip large-community-list\n", "        ip extcommunity-list\n"),
    ("huawei-prefix-acl-no-ipv6", "annet/rpl_generators/prefix_lists.py", "        ip ip-prefix\n        ip ipv6-prefix\n", "        ip ip-prefix\n"),
    ("name-mangling-one-side", "annet/rpl_generators/policy.py", '                    device, "community", [mangle_united_community_list_name(condition.value)],', '                    device, "community", [mangle_united_community_list_name(list(reversed(condition.value)))],'),
    ("orlonger-name-one-side", "annet/rpl_generators/prefix_lists.py", "                        yield from self._huawei_prefix_list(\"ip-prefix\", plist)\n                        processed_names.add(plist.name)", "                        yield from self._huawei_prefix_list(\"ip-prefix\", plist)\n                        processed_names.add(name)"),
    ("arista-dedupe-by-orig-name", "annet/rpl_generators/prefix_lists.py", "                        yield from self._arista_prefix_list(\"ip\", plist)\n                        processed_names.add(plist.name)", "                        yield from self._arista_prefix_list(\"ip\", plist)\n                        processed_names.add(name)"),
    ("raise-moved-below-yield", "annet/rpl_generators/policy.py", "        if action.value.expand:\n            raise RuntimeError(\"as_path.expand is not supported for huawei\")\n        if action.value.expand_last_as:\n            raise RuntimeError(\"as_path.expand_last_as is not supported for huawei\")\n        if action.value.set is not None:", "        if action.value.set is not None:", [("annet/rpl_generators/policy.py", "        if action.value.delete:\n            for path_item in action.value.delete:\n                yield \"apply as-path\", path_item, \"delete\"\n", "        if action.value.delete:\n            for path_item in action.value.delete:\n                yield \"apply as-path\", path_item, \"delete\"\n        if action.value.expand:\n            raise RuntimeError(\"as_path.expand is not supported for huawei\")\n")]),
    ("huawei-next_hop-no-return", "annet/rpl_generators/policy.py", "                raise RuntimeError(f\"Next_hop target {next_hop_action_value.target} is not supported for huawei\")\n            return\n", "                raise RuntimeError(f\"Next_hop target {next_hop_action_value.target} is not supported for huawei\")\n"),
    ("arista-continue-outside-block", "annet/rpl_generators/policy.py", "            for action in statement.then:\n                yield from self._arista_then(communities, device, action)\n            if statement.result is ResultType.NEXT:\n                yield \"continue\"", "            for action in statement.then:\n                yield from self._arista_then(communities, device, action)\n        if statement.result is ResultType.NEXT:\n            yield \"continue\""),
    ("cumulus-united-list-only-first", "annet/rpl_generators/cumulus_frr.py", "        if condition.operator is ConditionOperator.HAS_ANY:\n            return [mangle_united_community_list_name(condition.value)]", "        if condition.operator is ConditionOperator.HAS_ANY:\n            return [mangle_united_community_list_name(condition.value[:1])] if len(condition.value) > 2 else [mangle_united_community_list_name(condition.value)]"),
    ("rd-filter-by-name", "annet/rpl_generators/policy.py", '            yield "if-match rd-filter", str(rd_filter.number)', '            yield "if-match rd-filter", str(rd_filter.name)'),
    ("block-header-not-annotated", "annet/generators/base.py", "        self._append_text(block)\n", "        self._append_text_cb(block)\n"),
    ("generator-object-keeps-rows-of-an-aborted-run", "annet/generators/partial.py", "    def __call__(self, device, annotate=False):\n        self._indents = []\n        self._rows = []\n", "    def __call__(self, device, annotate=False):\n        if not getattr(self, '_vf_dirty', False):\n            self._indents = []\n            self._rows = []\n        self._vf_dirty = True\n"),
]

MUTANTS["C15"] = [
    ("reverse-match-groups-swapped", "annet/mesh/registry.py", "                        direct_order=False,\n                        name_left=neighbor,\n                        name_right=device,\n                        match_left=args[0],\n                        match_right=args[1],", "                        direct_order=False,\n                        name_left=neighbor,\n                        name_right=device,\n                        match_left=args[1],\n                        match_right=args[0],"),
    ("subif-zero-is-no-subif", "annet/mesh/executor.py", "        elif changes.subif is not None:\n            # single connection", "        elif changes.subif:\n            # single connection"),
    ("direct-order-handler-args-swapped", "annet/mesh/executor.py", "        else:\n            rule.handler(peer_neighbor, peer_device, session)\n\n        if peer_neighbor.is_empty()", "        else:\n            rule.handler(peer_device, peer_neighbor, session)\n\n        if peer_neighbor.is_empty()"),
    ("uselast-for-mtu", "annet/mesh/peer_models.py", "    mtu: int\n\n\nclass DirectPeerDTO", "    mtu: Annotated[int, UseLastMtu()]\n\n\nclass DirectPeerDTO", [("annet/mesh/peer_models.py", "from .basemodel import BaseMeshModel, Concat, Unite", "from .basemodel import BaseMeshModel, Concat, Unite, UseLast as UseLastMtu")]),
    ("session-merged-into-one-side-only", "annet/mesh/executor.py", "            device_dto = merge(DirectPeerDTO(), peer_device, session)", "            device_dto = merge(DirectPeerDTO(), peer_device)"),
    ("remote-as-from-local", "annet/mesh/models_converter.py", "        remote_as=ASN(connected.asnum),", "        remote_as=ASN(local.asnum),"),
    ("unite-keeps-first", "annet/mesh/basemodel.py", "        return x | y  # type: ignore[operator]", "        return x  # type: ignore[operator]"),
    # (returning NOT_SET for an unset right-hand value is an equivalent mutant: _merge starts from copy(a) and skips NOT_SET results)
    ("lag-ports-all-connections", "annet/mesh/executor.py", "            if p[0].name in ports\n", "            if p[0].name in ports or True\n"),
    ("peer-options-multihop-is-bool (revert of a80614b)", "annet/bgp_models.py", "    multipath: Optional[bool] = None\n    multihop: Optional[int] = None\n", "    multipath: Optional[bool] = None\n    multihop: Optional[bool] = None\n"),
    ("peer-key-uses-own-fqdn", "annet/mesh/executor.py", "                    fqdn=pair.device.fqdn,\n                    addr=addr,\n                    vrf=getattr(pair.connected", "                    fqdn=device.fqdn,\n                    addr=addr,\n                    vrf=getattr(pair.connected"),
    ("executor-remembers-first-devices-ports", "annet/mesh/executor.py", "                for p1, p2 in self._storage.search_connections(device, neighbor_device)\n", "                for p1, p2 in self.__dict__.setdefault('_vf_conn', {}).setdefault(frozenset((device.fqdn, neighbor_device.fqdn)), list(self._storage.search_connections(device, neighbor_device)))\n"),
    ("filter-type-errors-escape", "annet/mesh/match_args.py", "        except (TypeError, ValueError, AttributeError, KeyError, IndexError):", "        except (ValueError, AttributeError, KeyError, IndexError):"),
]

# ---- round 9 sub-checks -----------------------------------------------------------------------------------
MUTANTS["C18"] += [
    ("escaped-text-cache-filled-before-the-read", "annet/rulebook/__init__.py",
     "                with open(path.join(root_dir, \"texts\", name), \"r\") as f:\n",
     "                self._escaped_rul_cache[name] = \"\"\n                with open(path.join(root_dir, \"texts\", name), \"r\") as f:\n"),
    ("render-cache-filled-before-the-render", "annet/rulebook/__init__.py",
     "            self._render_rul_cache[key] = mako_render(self._read_escaped_rul(name), hw=hw)",
     "            self._render_rul_cache[key] = \"\"\n            self._render_rul_cache[key] = mako_render(self._read_escaped_rul(name), hw=hw)"),
]
MUTANTS["C08"] += [
    ("negated-form-loses-the-inline-case-marker", "annet/annlib/rbparser/ordering.py",
     'syntax.compile_row_regexp(reverse_prefix + " " + attrs["row"])\n                        if not',
     'syntax.compile_row_regexp(reverse_prefix + " " + attrs["row"].replace("(?i)", ""))\n                        if not'),
]
MUTANTS["C10"] += [
    ("flatten-takes-iterators-for-words", "annet/annlib/lib.py", "        if not isinstance(x, (str, bytes)) and isinstance(x, Iterable):\n            yield from flatten(x)",
     "        if not isinstance(x, (str, bytes)) and isinstance(x, Iterable) and not hasattr(x, \"__next__\"):\n            yield from flatten(x)"),
]
MUTANTS["C15"] += [
    ("indirect-interface-name-read-from-the-far-end-when-both-name-one", "annet/mesh/executor.py",
     "                getattr(connected_pair.local, \"ifname\", None),\n                to_interface_changes(connected_pair.local),",
     "                getattr(connected_pair.local, \"ifname\", None) and getattr(connected_pair.connected, \"ifname\", None),\n                to_interface_changes(connected_pair.local),"),
]

# ---- round 10 sub-checks ----------------------------------------------------------------------------------
MUTANTS["C02"] += [
    ("acl-text-remembered-by-the-generator-object", "annet/generators/partial.py",
     "        acl_func = self._get_vendor_func(device.hw.vendor, \"acl\")\n        if acl_func:\n            return acl_func(device)\n",
     "        acl_func = self._get_vendor_func(device.hw.vendor, \"acl\")\n        if acl_func:\n            if \"_acl_memo\" not in self.__dict__:\n                self._acl_memo = acl_func(device)\n            return self._acl_memo\n"),
]
MUTANTS["C09"] += [
    ("comment-starts-after-any-blank", "annet/rulebook/__init__.py", 'text = re.sub(r"(?:^|\\n)\\s*#.*", "", text)', 'text = re.sub(r"(?:^|\\n|[ \\t])\\s*#.*", "", text)'),
]
MUTANTS["C08"] += [
    ("pins-only-for-commands-spelled-negated", "annet/annlib/patching.py",
     '            elif rule["attrs"]["order_reverse"] and not cmd_direct and direct_matched:',
     '            elif rule["attrs"]["order_reverse"] and not cmd_direct and direct_matched and row.startswith(registry_connector.get()[self.vendor].reverse + " "):'),
]
MUTANTS["C10"] += [
    ("generator-text-split-at-every-line-boundary-character", "annet/generators/base.py",
     "    if \"\\n\" in text:\n        rows = textwrap.dedent(text).strip().split(\"\\n\")\n    else:\n        rows = [text]",
     "    rows = textwrap.dedent(text).strip().splitlines() or [text]"),
]
MUTANTS["C15"] += [
    ("indirect-peers-deduplicated-by-short-name", "annet/mesh/registry.py",
     "        for other_device in devices:\n            other_device_norm = self._normalize_host(other_device)\n            for rule in self.indirect_rules:",
     "        seen_ = set()\n        for other_device in devices:\n            other_device_norm = self._normalize_host(other_device)\n            if other_device_norm in seen_:\n                continue\n            seen_.add(other_device_norm)\n            for rule in self.indirect_rules:"),
]
MUTANTS["C20"] += [
    ("ordering-rule-remembers-the-last-row-it-matched", "annet/annlib/patching.py",
     "            direct_matched = bool(rule[\"attrs\"][\"direct_regexp\"].match(row))\n",
     "            direct_matched = bool(rule[\"attrs\"][\"direct_regexp\"].match(row))\n            if direct_matched:\n                rule[\"attrs\"][\"last_row\"] = row\n"),
]

# ---- round 11 sub-checks ----------------------------------------------------------------------------------
MUTANTS["C02"] += [
    ("continuation-line-needs-a-shallow-indent", "annet/annlib/rbparser/syntax.py", 'r"\\n(?!\\s*%(?!context))"', 'r"\\n(?! {0,3}%(?!context))"'),
]
MUTANTS["C06"] += [
    ("inactive-mark-cut-wherever-it-stands", "annet/annlib/lib.py", "    if jun_is_inactive(key):\n        key = key[len(jun_inactive_pfx()):]\n    return key",
     "    if jun_inactive_pfx() in key:\n        key = key[key.index(jun_inactive_pfx()) + len(jun_inactive_pfx()):]\n    return key"),
]
MUTANTS["C19"] += [
    ("sonic-after-command-added-to-the-reload-entry", "annet/annlib/rulebook/common.py",
     "        if hw.soft.startswith((\"Cumulus\", \"SwitchDev\")):\n            if os.environ.get(\"ETCKEEPER_CHECK\", False):\n                before.add_cmd(Command(\"etckeeper check\"))\n",
     "        if hw.soft.startswith((\"Cumulus\", \"SwitchDev\")):\n            if os.environ.get(\"ETCKEEPER_CHECK\", False):\n                before.add_cmd(Command(\"etckeeper check\"))\n        elif hw.soft.startswith(\"SONiC\"):\n            after.add_cmd(Command(\"sudo config save -y\"))\n"),
]
MUTANTS["C17"] += [
    ("diff-works-on-shallow-copies", "annet/annlib/patching.py", "    old = copy.deepcopy(old)\n    new = copy.deepcopy(new)\n", "    old = copy.copy(old)\n    new = copy.copy(new)\n"),
]
MUTANTS["C14"] += [
    ("and-of-conditions-extends-the-left-operand", "annet/rpl/condition.py", "        return AndCondition(*self.conditions, other)", "        self.conditions.extend(self._unpack(other))\n        return self"),
]
