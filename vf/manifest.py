"""Generates MANIFEST.json from the table below: `/venv/bin/python -m vf.manifest`."""
import json
import os

VERIF = os.path.dirname(os.path.dirname(os.path.abspath(__file__)))

# id -> (technique, level text, level note, design ref)
CHECKS = {
    "C01": ("reference-model monitor: device simulator executes the emitted command paths; real second diff/patch observed",
            "For generated rulebooks x every block-CLI vendor and the Junos-like vendors (juniper, ribbon, nokia: flattened set/delete statements) x chains of configuration pairs (plus an exhaustive small scope), the real _diff_and_patch output is "
            "flattened by the real formatter and executed command by command on a reference device (one line per rule and key); the resulting state must equal the "
            "desired configuration and the real second diff/patch on that state must be empty, along the whole chain. Held = every observed execution converged.",
            "Trusted: R1/R2 reference rule selection and the R4 device model (vf/ref). The Junos-like device segments statements by the rulebook (fixed-width block rows); the RouterOS formatter is not simulated. Domain restrictions are listed in evidence assumptions.", "4/C01"),
    "C02": ("reference-model monitor: ACL coverage model R3 judges every executed command and every device line (node identity) after the reference device ran the real patch",
            "The real _diff_and_patch runs on a full device configuration (owned + foreign rows at every depth) with the combined ACL of 1-3 generators; the emitted commands are executed "
            "on the reference device, which logs what each command did. Observed: every set/create command and its blocks are ACL-covered; no uncovered line (whose ancestors were never "
            "removed) is removed or altered; no line covered only by not-deletable rules disappears; applying the ACL beforehand as production does yields the same patch.",
            "Trusted: R3 (vf/ref/acl.py), R2/R4 (rule selection, device). ACL patterns are key-granular w.r.t. the rulebook; %ordered lists exempt from clause (c).", "4/C02"),
    "C03": ("law monitors on real diffs (projection/reconstruction, op exactness, self-diff) + reference structural diff + signed-text readers for both operator views",
            "For generated rulebooks with the standard diff logics and generated pairs of trees, the real make_diff output is checked against the laws of the statement "
            "(both inputs reconstructable, exact ops, empty self-diff), against an independent reference diff (MOVED iff the preceding sequence differs, rewrite units, "
            "UNCHANGED marking), and both operator-facing texts (formatter.diff, gen_pre_as_diff) are read back by independent parsers and compared with the diff entries.",
            "Trusted: R2 rule selection, vf/ref/diff.py, the two signed-text readers. Vendor-specific diff logics out of scope (aruba excluded).", "4/C03"),
    "C04": ("round-trip law monitor on the real formatters (no reference model): exhaustive small tree shapes + random trees, per vendor, with vendor-significant row classes",
            "For all 14 registered vendors, trees of the vendor's well-formed domain are rendered with join, parsed back with parse_to_tree and the vendor's split, compared as ordered "
            "trees, re-rendered and compared as text. Exhaustive over all ordered tree shapes with <=4/5 nodes x 3 row forms, then random trees to depth 5; one more process holds all vendors at once: kept formatter objects serve flat and nested texts in turn, and one text is read by several vendors one after another.",
            "Pure law; domain restrictions (delimiters, comment markers, block-end keywords dropped on purpose) are listed in the evidence rule. One known finding (Cisco address-family).", "4/C04"),
    "C05": ("reference-model monitor (independent offside parser) over exhaustive small scope + random texts",
            "Every text in an exhaustively enumerated small scope (all indentation vectors up to 6/7 lines over columns 0..6, "
            "with comment/blank/section-break insertions) and seeded random longer texts is parsed by the real parse_to_tree "
            "and by an independent reference parser; trees and refusals must agree. Held = agreed on every text observed.",
            "Trusted: vf/ref/offside.py as the meaning of the offside rule; errors compared by type.", "4/C05"),
    "C06": ("reference-model monitor (independent ACL coverage model R3) + algebraic laws (ordered subtree, idempotence, merge monotonicity, strict-mode iff) observed on real apply_acl / filter_config",
            "Random universes of rulebooks give trees with covered, uncovered, negated and near-miss rows and pairs of ACLs over the same vocabulary; the real apply_acl result is compared "
            "with the reference filter, and the laws of the statement are evaluated on the real outputs themselves. Two mechanisms that break the statement on the unchanged tree are "
            "recognised by an exact explanatory variant of the reference and listed as known findings; anything else is a violation.",
            "Trusted: vf/ref/acl.py (R3) incl. its restatement of the ranking heuristic; R1 word-level matching. Juniper inactive: rows not generated.", "4/C06"),
    "C07": ("reference-model monitor (word-level and regex-level restatement of the rule language) over exhaustive pattern x row scope and every shipped rule line",
            "The production regexps, removal templates and reverse recognisers of compiled rules are observed on an exhaustive small scope of "
            "patterns x rows, through all five text compilers, and on every rule line of every shipped rule file (rows synthesised from the line "
            "plus near-miss mutations); match result and extracted key must equal the reference semantics. Held = agreed on all observed pairs.",
            "Trusted: vf/ref/rulelang.py (R1) and vf/ref/deploy.py (R7). Shipped-line regex fragments are instantiated by an sre_parse sampler; unsampled lines are counted.", "4/C07"),
    "C13": ("law monitors with an independent RFC 6901 glob resolver on real apply_json_fragment / make_patch+apply_patch / apply_acl_filters / fragment chaining",
            "Documents, fragments and pattern lists are drawn from one random schema (keys containing '/', '~', '|', '*'); the run observes the real functions and checks, with its "
            "own pointer resolver, that selected parts equal the fragment, everything else equals the old document, merging is idempotent, the generated JSON patch reproduces the "
            "target under strict JSON equality, filters return sub-documents containing every selected part, and several generators over one file equal sequential merging.",
            "Trusted: the resolver in vf/props/c13.py. Inputs on which the third-party jsonpatch library itself does not round-trip are counted and skipped. Two known findings (array elements selected by a pattern).", "4/C13"),
    "C14": ("stream monitors on the shipped policy generators: production ACL step, block-path recording at every yield, per-namespace reference/definition readers, recording proxies on statement.match/then for error-before-lines",
            "Random RouteMap programs over type-consistent entity sets drive the shipped huawei/arista generators through _run_partial_generator(use_acl=True) and the cumulus text "
            "generator; the run observes that no own line is refused by the ACL, that the parsed nesting equals the yielded block paths, that every list name a policy line refers "
            "to is defined by the list generators in the same namespace, and - with recording proxies segmenting the stream per condition/action - that no error follows lines of the same construct.",
            "Trusted: the syntax readers of the three vendors in vf/props/c14.py. Misuse of a list of the wrong type is outside the domain.", "4/C14"),
    "C15": ("table-driven reference (handlers are pure tables) + mirror monitor over both ends of every session + registration-order permutation + merge-law monitor",
            "On random fake topologies and registries, MeshExecutor.execute_for runs for every device on fresh copies; the run observes that the address a device peers with is the one "
            "the other end's own run configured on its interface, that remote AS equals the other end's local AS, that families and session options agree, that the interface is the "
            "one the rule table selects (port / LAG / sub-interface incl. unit 0 / SVI), that every permutation of handler registration gives the same outcome or a conflict in all, "
            "and that basemodel.merge obeys each field's declared merger on random instances.",
            "Trusted: the handler tables and template matcher in vf/props/c15.py; fake Device/Storage from tests/annet/test_mesh/fakes.py.", "4/C15"),
    "C16": ("relational (differential) monitor between two real front ends on the same inputs, including the CLI file workers on files in a scratch directory",
            "Every fixture pair, per-vendor cross products and random recombinations of fixture trees, for stub hardware and the hardware families the templates branch on, are run "
            "through _read_old_new_diff_patch / file_patch_worker / file_diff_worker and through _diff_and_patch; ordered command paths and diff entries must be equal.",
            "No reference model needed (two executions of the real code are compared). No ACL, implicit defaults off.", "4/C16"),
    "C17": ("reference-model monitor (R1-based completion) + laws (subtree, idempotence) + invisibility of pure defaults in real diffs/patches, also through the production front end",
            "For every hardware model with implicit rules and random trees mixing matching / nearly matching / default / unrelated rows, the real implicit.config + merge_dicts "
            "result is compared with the reference completion and checked for t being a subtree and idempotence; pairs completed the same way go through the real _diff_and_patch "
            "(shipped rulebooks) and neither diff entries nor leaf commands may concern a line that is a pure default on both sides; the same law is observed through "
            "_old_new_per_device(add_implicit=True), including an empty device text.",
            "Trusted: R1 regex-level reference; rule texts taken from annet.implicit._implicit_tree as data.", "4/C17"),
    "C18": ("invariant monitors on hardware/vendor/rulebook resolution over the whole device database (exhaustive), registration-order permutation, fresh-process differential, fault injection at the provider's reads",
            "For every one of the 168 device-database entries (model strings synthesised from the regex chain) and every vendor's canonical hardware, "
            "the run observes the hardware attribute hierarchy, the vendor chosen by fresh Registry objects under every rotation and the reversal of the "
            "registration order, the loading of the patching/ordering/deploy rulebooks, and structural equality of rulebooks from fresh providers and a "
            "fresh process with another hash seed (also as the first rulebook a fresh interpreter loads); a read or rendering of one of the three texts is made to fail once and the next load on the same provider is compared with a fresh provider's. Exhaustive over the finite database; held = all observations consistent.",
            "Trusted: sre_parse-based model synthesiser (each synthesised string is re-checked against the regex chain); the expected vendor is derived from the vendors' own match() expressions.", "4/C18"),
    "C08": ("invariant hook on PatchTree.sort (permutation), rank oracle R6 on sibling commands of real patches and ordered configs, metamorphic relation on the shipped ordering rulebooks",
            "Every PatchTree.sort call is observed through a hook asserting a pure permutation (children stay with their parent); for generated ordering rulebooks with disjoint "
            "sibling languages the order of sibling commands in real patches and in order_config output is compared pairwise with the reference rank; order_config is checked to be "
            "an idempotent permutation that keeps unmentioned rows in place; on the fixture corpus with the shipped *.order files, deleting an unrelated top-level row must not "
            "change the relative order of the remaining commands, and two lines created in one order are removed in the opposite order when ranked differently (mirror law).",
            "Trusted: R6 (vf/ref/order.py), R1, R2. Removal = row starts with the negation word. Ties inside one rank are not judged. Two known findings listed.", "4/C08"),
    "C09": ("relational monitor between three real views of one patch (shown text, cmd_paths, CommandList sent) + session-wrapper rules + reference deploy-rule chain R7 + production job composition",
            "For PatchTrees produced by the real make_patch, synthetic ones and the fixture corpus, across block-structured vendors, hardware families and the four (commit, finalize) "
            "settings, the run observes formatter.patch, formatter.cmd_paths and apply_deploy_rulebook and requires line-by-line agreement (order, depth, block exits), a contiguous body, "
            "a wrapper obeying the session rules, and per-command timeout/dialogs equal to the matching rule chain of generated deploy rulebooks; CliDeployerJob.parse_result is driven "
            "with a harness driver to check that what it shows is what it sends; with %context sections every command must carry the context of the rulebook section its "
            "governing rule is written in (an exit row: one that a command of its own block carries).",
            "Trusted: R7 (vf/ref/deploy.py), the wrapper rule table. Trees with duplicate sibling rows are outside the stated domain (counted, not judged).", "4/C09"),
    "C10": ("reference interpreter of generator programs + R3 coverage/exclusivity oracle vs real PartialGenerator classes run through the production front end",
            "Generator programs (data) are executed by real dynamically created PartialGenerator subclasses (real block/block_if/multiblock API, tuple and multi-line yields) "
            "through _old_new_per_device, and by a reference interpreter; the outcome class (GeneratorError / AclNotExclusiveError / ok) and, when ok, the resulting tree are "
            "compared with what the reference ACL model predicts; counts per outcome class must all be > 0.",
            "Trusted: reference interpreter and R3. Cases where ideal coverage and the documented winner rule disagree are skipped (C06 findings).", "4/C10"),
    "C11": ("reference-model monitor: independent reader of the emitted VLAN commands folds them over the old set (set simulator) on real patches from the shipped rulebooks",
            "For every ordered pair of subsets of a small universe and every splitting of each set over config lines, the real _diff_and_patch with the shipped huawei/cisco/nexus "
            "rulebooks produces commands that an independent reader interprets as add/remove/remove-all/none; folded over the old set they must yield the new set and never drop a "
            "VLAN common to both, not even transiently; collapse/expand helpers must round-trip (also chunked).",
            "Trusted: the command reader and range parsers in vf/props/c11.py (device semantics listed in assumptions).", "4/C11"),
    "C12": ("offline history checker (conservation / exactly-once / payload identity / termination) over recorded pool histories under a parameter grid and sys.monitoring delay injection",
            "Each pool run executes the real Parallel.irun/run with real forked workers in its own subprocess; submit/start/done/reap/deliver/end events are "
            "logged through an O_APPEND log and checked offline: every submitted id delivered exactly once with the value (or failure) its task produced, "
            "run terminates, tolerate_fails=False re-raises the task's error. Schedules vary by grid (n, pool, max_tasks, durations, consumer and callback "
            "delays, raising sets) and by seeded delays injected at 8 points of annet/parallel.py in parent and workers; evidence reports distinct "
            "interleaving signatures observed. Held = all observed histories satisfy the checker.",
            "No explicit-state model (second clause of the quantifier) - not decidable by this technique; no externally killed workers; wall-clock only as watchdog (inconclusive) "
            "except a 60 s no-progress bound for termination.", "4/C12"),
    "C19": ("decision-table oracle on real run_file_generators / PCDeployerJob.parse_result / pc_diff executions over all listing orders and reload modes",
            "Sets of Entire generators (distinct prios incl. 0 and negative, shared paths, safe flags, reload strings) are run in every listing order; the planned content per "
            "path must come from the highest priority; the deploy job is parsed for entire_reload yes/no/force and its upload set, uploaded bytes, reload attachments and the shown "
            "file diff are compared with the decision table of the statement.",
            "UnifiedFileDiffer set as the device file differ; PC hardware. Two known findings (splitlines-based decision).", "4/C19"),
    "C20": ("fresh-process differential monitor + deep snapshot invariants (inputs, compiled rulebook: structural signature and an image of every key and value) around every call in job sequences",
            "Jobs from the fixture corpus (with the hardware families of the same vendor), hand-written pairs for the rule-mutating logics and ACL variants are executed inside "
            "random sequences in one process (as a pool worker does) and, each, alone in a fresh interpreter; canonical results (diff, command paths, ordered config) must be "
            "equal, old/new trees and the structural signature of the cached compiled rulebook must be identical before and after every call, and a repeated call must agree.",
            "PYTHONHASHSEED fixed on both sides. The structural rulebook signature is the one of C18.", "4/C20"),
}

NOT_BUILT = "check not built yet in this round (runtime-monitoring design exists in DESIGN.md section 4)"


def build():
    props = [json.loads(l)["id"] for l in open(os.path.join(VERIF, "properties.jsonl")) if l.strip()]
    checks = []
    for pid in props:
        if pid not in CHECKS:
            continue
        tech, text, note, ref = CHECKS[pid]
        checks.append({
            "property_id": pid,
            "quick_cmd": "./check %s quick" % pid,
            "thorough_cmd": "./check %s thorough" % pid,
            "evidence_file": "/verif/evidence/%s.json" % pid,
            "replay_cmd_template": "./check %s quick --replay {path}" % pid,
            "engine": "vf",
            "level_claimed": {"category": "exploration", "text": text, "design_ref": "DESIGN.md section " + ref},
            "level_note": note,
            "technique": "runtime monitoring: " + tech,
        })
    hooks_commits = []
    hc = os.path.join(VERIF, "hook_commits.txt")
    if os.path.exists(hc):
        hooks_commits = [l.split()[0] for l in open(hc) if l.strip() and not l.startswith("#")]
    man = {
        "version": 1,
        "setup_cmd": "mkdir -p evidence replays && PYTHONPATH=. PYTHONDONTWRITEBYTECODE=1 /venv/bin/python -c 'import vf.runner, vf.env; vf.env.setup()'",
        "hooks": {
            "guard": "ANNET_VERIF",
            "enable": "none needed: all instrumentation is applied from the harness at run time (monkeypatch wrappers, sys.monitoring); "
                      "checks import annet from /repo's working tree (or $VF_REPO)",
            "baseline_off_cmd": "cd /repo && env -u ANNET_VERIF /venv/bin/python -m pytest -ra -q -p no:cacheprovider --timeout=900 --continue-on-collection-errors",
            "source_commits": hooks_commits,
            "add_only": True,
        },
        "engines": [{"name": "vf", "path": "/verif/vf", "serves_properties": [c["property_id"] for c in checks],
                     "kind_free_text": "runtime monitoring harness: workload generators + reference-model / relational / history oracles "
                                       "observing executions of the real annet code in fresh subprocesses"}],
        "checks": checks,
        "not_applicable": [{"property_id": p, "reason": NOT_BUILT} for p in props if p not in CHECKS],
        "notes": "See DESIGN.md. Verdicts are three-valued (exit 0 held / 1 violated / 2 inconclusive). known_findings.json lists genuine defects by mechanism key.",
    }
    with open(os.path.join(VERIF, "MANIFEST.json"), "w") as f:
        json.dump(man, f, indent=1)
    return man


if __name__ == "__main__":
    m = build()
    print("checks:", [c["property_id"] for c in m["checks"]])
