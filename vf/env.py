"""Process environment for every harness process: import annet from the repository's
current working tree ($VF_REPO, default /repo), set the connectors once."""
import os
import sys

REPO = os.path.realpath(os.environ.get("VF_REPO", "/repo"))
VERIF = os.path.dirname(os.path.dirname(os.path.abspath(__file__)))

_done = False


def setup():
    global _done
    if _done:
        return
    _done = True
    sys.dont_write_bytecode = True
    if os.getcwd().rstrip("/").endswith("/annet"):
        os.chdir(VERIF)  # annet/types.py would shadow stdlib `types`
    for p in (REPO, VERIF):
        while p in sys.path:
            sys.path.remove(p)
    sys.path.insert(0, VERIF)
    sys.path.insert(0, REPO)
    os.environ.setdefault("HOME", "/tmp")
    import annet  # noqa
    f = os.path.realpath(annet.__file__)
    if not f.startswith(REPO + os.sep):
        raise RuntimeError("annet imported from %s, not from %s" % (f, REPO))
    from annet.hardware import hardware_connector, AnnetHardwareProvider
    from annet.rulebook import rulebook_provider_connector, DefaultRulebookProvider
    try:
        hardware_connector.set(AnnetHardwareProvider)
    except Exception:
        pass
    try:
        rulebook_provider_connector.set(DefaultRulebookProvider)
    except Exception:
        pass
    import logging
    logging.disable(logging.CRITICAL)


def vendors():
    from annet.vendors import registry_connector
    return registry_connector.get()
