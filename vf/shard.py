import sys
from vf.runner import shard_main

if __name__ == "__main__":
    shard_main(sys.argv[1:])
