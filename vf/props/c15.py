"""C15 - mesh sessions are mirrored on both ends; handler data merges without loss.

Handlers are generated as pure tables (left match, right match, port set) -> values, so the expected assignment is known.
MeshExecutor(registry, storage).execute_for(device) runs for BOTH ends of every linked pair on fresh copies of a fake
topology. Oracles: peer_A(B).addr is the address B's own run put on B's interface; peer_A(B).remote_as ==
peer_B(A).options.local_as; families and session options equal on both sides; the interface is the one the rule selected
(port / LAG / sub-interface incl. unit 0 / SVI); every permutation of handler registration gives the same result
(Concat tuples as multisets) or ValueError in all; merge(a, b) obeys the law of each field's declared merger.
"""
import itertools
import random
import re
from ipaddress import ip_interface

LEVEL = "exploration"
RULE = ("topologies of 2-5 devices (spine{n}, leaf{m}, tor{k}-{j}, rr{r}) with 0-3 parallel links per pair; registries of direct rules (both mask orders, "
        "name templates {n} and {n:regex}, Left/Right filter expressions, united_ports / separate_ports), indirect rules, virtual rules and device rules; handlers are "
        "pure tables of (left groups, right groups, port set) always assigning both peer addresses, with LAG / sub-interface (incl. unit 0) / SVI selection, per-side AS "
        "numbers, session families and options, compatible and conflicting second handlers; all permutations of handler registration (<=4 handlers, else 24 sampled). "
        "Merge laws on random instances of DirectPeerDTO / MeshSession / GlobalOptionsDTO parts. Non-trivial: >=1 linked pair with >=2 matching handlers. "
        "Distinct: hash of (topology, registry tables).")
ASSUMPTIONS = [
    "fake Device/Storage/Interface classes are the repository's test fakes (tests/annet/test_mesh/fakes.py)",
    "handlers set address families and shared options on the session only (per-peer families would legitimately differ between the two ends)",
]
FLOORS = {"quick": {"topologies": 250, "executions": 3000, "mirrored_pairs": 600, "permutations_compared": 1500, "conflicts_expected": 30, "merge_law_checks": 3000, "shared_handler_constants_checked": 200, "peer_options_checked": 300, "shared_executor_runs": 150, "shared_executor_runs_with_differently_named_link_ends": 80, "linklocal_cases_with_two_neighbours_sharing_an_address": 25, "cases_with_family_only_device_handlers": 60, "family_only_handler_devices": 60, "cases_with_full_names_and_an_included_registry": 20, "indirect_sessions_with_differently_named_ends": 12, "cases_with_as_numbers_given_as_text": 40, "fabrics_with_short_names_shared_between_sites": 150, "indirect_sessions_described_by_two_rules": 15, "sessions_between_sites_checked": 1500},
          "thorough": {"topologies": 9000, "executions": 100000, "mirrored_pairs": 20000, "permutations_compared": 50000, "conflicts_expected": 1000, "merge_law_checks": 100000, "shared_handler_constants_checked": 7000, "peer_options_checked": 10000, "shared_executor_runs": 5000, "shared_executor_runs_with_differently_named_link_ends": 2500, "linklocal_cases_with_two_neighbours_sharing_an_address": 800}}


def plan(tier, seed):
    n = 8 if tier == "quick" else 16
    specs = [{"mode": "random", "tier": tier, "seed": seed, "shard": k, "nshards": n} for k in range(n)]
    specs.append({"mode": "merge", "tier": tier, "seed": seed})
    return specs


# ---- topology --------------------------------------------------------------------------------------------
def gen_topology(rng):
    names = []
    ns = rng.sample(range(1, 9), 2)
    names += ["spine%d" % n for n in ns[: rng.randint(1, 2)]]
    names += ["leaf%d" % m for m in rng.sample(range(1, 9), rng.randint(1, 2))]
    if rng.random() < 0.4:
        names.append("tor%d-%d" % (rng.randint(1, 3), rng.randint(1, 3)))
    if rng.random() < 0.4:
        names.append("rr%d" % rng.randint(1, 3))
    links = []
    for a, b in itertools.combinations(names, 2):
        kinds = {re.sub(r"[\d-]+", "", a), re.sub(r"[\d-]+", "", b)}
        if kinds in ({"spine", "leaf"}, {"leaf", "tor"}):
            for k in range(rng.choice([0, 1, 1, 2, 3])):
                links.append([a, b, k])
    return {"devices": names, "links": links}


def build_topology(topo):
    from tests.annet.test_mesh.fakes import FakeStorage, FakeDevice, FakeInterface
    st = FakeStorage()
    ifs = {n: [] for n in topo["devices"]}
    cnt = {n: 0 for n in topo["devices"]}
    for a, b, k in topo["links"]:
        pa, pb = "eth%d" % cnt[a], "eth%d" % cnt[b]
        cnt[a] += 1
        cnt[b] += 1
        ifs[a].append(FakeInterface(pa, b, pb))
        ifs[b].append(FakeInterface(pb, a, pa))
    devs = {}
    for n in topo["devices"]:
        ifs[n].append(FakeInterface("lo0", None, None))
        ifs[n].append(FakeInterface("lo1", None, None))
        d = FakeDevice(n, ifs[n])
        d.storage = st
        st.add_device(d)
        devs[n] = d
    return st, devs


# ---- rule tables -----------------------------------------------------------------------------------------
ALT_MASKS = {"spine": "sp{x:[a-z]+}{n:\\d+}", "leaf": "le{y:[a-z]+}{m:\\d+}", "tor": "to{z:[a-z]+}{k:\\d+}-{j:\\d+}"}
MASKS = {"spine": ["spine{n}", "spine{n:\\d+}"], "leaf": ["leaf{m}", "leaf{m:\\d+}"], "tor": ["tor{k}-{j}"], "rr": ["rr{r}"]}


def gen_rules(rng, topo):
    kinds = sorted({re.sub(r"[\d-]+", "", d) for d in topo["devices"]})
    rules = []
    pairs = [p for p in (("spine", "leaf"), ("leaf", "tor")) if p[0] in kinds and p[1] in kinds]
    for lk, rk in pairs:
        if rng.random() < 0.5:
            lk, rk = rk, lk  # the rule may be written in either orientation
        base = {"type": "direct", "left": rng.choice(MASKS[lk]), "right": rng.choice(MASKS[rk]), "net": rng.randint(1, 200),
                "ports": rng.choice(["united", "separate"]), "filter": rng.choice([None, None, "lt", "ne"]),
                "asn_l": 64000 + rng.randint(0, 9) * 100, "asn_r": 65000 + rng.randint(0, 9) * 100,
                "families": rng.sample(["ipv4_unicast", "ipv6_unicast", "ipv4_labeled_unicast"], rng.randint(1, 2)),
                "bfd": rng.random() < 0.5, "iface": rng.choice(["port", "port", "lag", "subif", "subif0", "lag+subif", "svi"]),
                "mtu": rng.choice([None, 1500, 9000]), "role": "base", "v6": rng.random() < 0.3,
                # per-peer options, assigned alike on both sides, with values of the declared types
                "peer_opts": dict(rng.sample([("multihop", 3), ("rr_client", True), ("hold_time", 30), ("af_loops", 2), ("af_rib_group", "rg1"),
                                              ("listen_network", ["10.0.0.0/8"]), ("next_hop_self", True), ("remove_private", True), ("passive", True),
                                              ("soft_reconfiguration_inbound", True), ("bmp_monitor", True)], rng.randint(0, 4)))}
        if base["ports"] == "united" and base["iface"] in ("port", "subif", "subif0"):
            base["iface"] = rng.choice(["lag", "svi", "lag+subif"]) if any(sum(1 for l in topo["links"] if {l[0], l[1]} == {a, b}) > 1
                                                                               for a, b in itertools.combinations(topo["devices"], 2)) else base["iface"]
        rules.append(base)
        x = rng.random()
        if x < 0.5:
            extra = dict(base, role="extra", families=rng.sample(["ipv4_unicast", "ipv6_unicast", "l2vpn_evpn"], 1), description="d%d" % rng.randint(1, 9),
                         mtu=base["mtu"] if rng.random() < 0.75 or base["mtu"] is None else base["mtu"] + 1)
            rules.append(extra)
        if x < 0.15:
            rules.append(dict(base, role="extra2", send_community=True, families=["ipv4_unicast"]))
        if rng.random() < 0.4:
            # the same sessions matched once more by a rule written with other templates (other capture groups): its data merges into the same peers
            kl, kr = (lk, rk)
            rules.append(dict(base, role="extra4", left=ALT_MASKS[kl], right=ALT_MASKS[kr], families=list(base["families"]), description=None, peer_opts={}, filter=None))
    if "rr" in kinds and "spine" in kinds and rng.random() < 0.8:
        rules.append({"type": "indirect", "left": "spine{n}", "right": "rr{r}", "net": rng.randint(1, 200), "asn_l": 64500, "asn_r": 64600,
                      "families": ["ipv4_unicast"], "iface": rng.choice(["none", "svi", "lo0", "lo0+subif"]), "role": "base",
                      "session": rng.choice([{}, {"bfd": True}, {"bfd": True, "send_labeled": True}, {"send_community": True}])})
        if "leaf" in kinds and rng.random() < 0.7:
            # a second indirect rule reaching the same route reflectors, whose handler sets other (or no) session-level options
            rules.append({"type": "indirect", "left": "leaf{m}", "right": "rr{r}", "net": rng.randint(201, 250), "asn_l": 64700, "asn_r": 64600,
                          "families": [rng.choice(["ipv4_unicast", "ipv6_unicast"])], "iface": "none", "role": "base",
                          "session": rng.choice([{}, {}, {"multipath": True}])})
    for kind, grp in (("spine", "a"), ("leaf", "b")):
        if sum(1 for d in topo["devices"] if d.startswith(kind)) >= 2 and rng.random() < 0.6:
            # a rule whose two templates match the same pair in both orientations (full mesh inside one tier); the handler is
            # role dependent (the right side gets another address), so every pair has two sessions and each end sees both
            rules.append({"type": "indirect", "left": kind + "{%s}" % grp, "right": kind + "{%s2}" % grp, "net": rng.randint(1, 200), "asn_l": 64800, "asn_r": 64800,
                          "families": [rng.choice(["ipv4_unicast", "ipv6_unicast"])], "iface": "lo0", "role": "base", "session": {}, "mesh2": True})
            break
    if rng.random() < 0.4:
        rules.append({"type": "virtual", "mask": "leaf{m}", "num": [1, 2][: rng.randint(1, 2)], "svi": rng.randint(10, 20), "asn": 64900, "role": "base"})
    if rng.random() < 0.6:
        rules.append({"type": "device", "mask": rng.choice(["leaf{m}", "spine{n}"]), "local_as": 65100, "vrf": "v1", "rt": "1:%d" % rng.randint(1, 9), "role": "base"})
        if rng.random() < 0.5:
            rules.append({"type": "device", "mask": rules[-1]["mask"], "local_as": 65100 if rng.random() < 0.7 else 65101, "vrf": "v1", "rt": "2:%d" % rng.randint(1, 9), "role": "extra"})
    return rules


def first_int(match):
    vals = [v for k, v in sorted(vars(match).items())]
    return int(vals[0]) if vals else 0


def port_index(ports):
    return sum(int(re.sub(r"\D", "", p) or 0) for p in ports) % 50


def addrs_for(rule, li, ri, lports):
    third = (li * 16 + ri) % 250
    k = port_index(lports) if rule.get("ports") == "separate" else 0
    if rule.get("linklocal"):
        return "fe80::1/64", "fe80::2/64"  # per-link identical numbering: every neighbour has the same address on its end
    if rule.get("v6"):
        # valid but not canonical spellings (upper-case hex, leading zeros): the peer address is an address, not a text
        return "2001:DB8:%04X:%X::%X/127" % (rule["net"], third, 0xA0 + 2 * k), "2001:DB8:%04X:%X::%X/127" % (rule["net"], third, 0xA0 + 2 * k + 1)
    return "10.%d.%d.%d/31" % (rule["net"], third, 2 * k), "10.%d.%d.%d/31" % (rule["net"], third, 2 * k + 1)


SHARED_FAMILIES = {}  # (case id, rule index) -> the set object a handler assigns on every invocation (a module-level constant in real handlers)


def shared_families(rules, idx):
    key = (id(rules), idx)
    if key not in SHARED_FAMILIES:
        SHARED_FAMILIES[key] = set(rules[idx]["families"])
    return SHARED_FAMILIES[key]


def make_registry(rules, order, fq=False):
    """fq: devices carry full names (`spine1.dc.example`); the rules live in a registry that a top-level registry includes, both matching short names"""
    from annet.mesh import MeshRulesRegistry, separate_ports, united_ports, Left, Right
    reg = MeshRulesRegistry(match_short_name=True) if fq else MeshRulesRegistry()
    for idx in order:
        r = rules[idx]
        if r["type"] == "direct":
            flt = []
            lg = re.findall(r"{(\w+)", r["left"])[0]
            rg = re.findall(r"{(\w+)", r["right"])[0]
            if r["filter"] == "lt":
                flt = [getattr(Left, lg).cast_(int) < 1000, getattr(Right, rg).cast_(int) >= 0]
            elif r["filter"] == "ne":
                flt = [getattr(Left, lg).cast_(int) != 99]
            elif r["filter"] == "mixed":
                flt = [getattr(Left, lg).cast_(int) < getattr(Right, rg).cast_(str)]  # int < str: the comparison cannot be made

            def handler(left, right, session, r=r, idx=idx):
                li, ri = first_int(left.match), first_int(right.match)
                la, ra = addrs_for(r, li, ri, left.ports)
                left.addr, right.addr = la, ra
                left.asnum, right.asnum = as_spelled(r, r["asn_l"] + li), as_spelled(r, r["asn_r"] + ri)
                # even rule indices hand out one shared constant set (as `V4 = {"ipv4_unicast"}` at module level would), odd ones a fresh set
                session.families = shared_families(rules, idx) if idx % 2 == 0 else set(r["families"])
                if r.get("bfd"):
                    session.bfd = True
                if r.get("send_community"):
                    session.send_community = True
                if r.get("mtu") is not None:
                    left.mtu = right.mtu = r["mtu"]
                for k_, v_ in (r.get("peer_opts") or {}).items():
                    if k_ == "bmp_monitor":
                        session.bmp_monitor = v_
                    else:
                        setattr(left, k_, list(v_) if isinstance(v_, list) else v_)
                        setattr(right, k_, list(v_) if isinstance(v_, list) else v_)
                if r.get("description"):
                    left.description = right.description = r["description"]
                it = r["iface"]
                if "lag" in it:
                    left.lag = right.lag = 7
                if it == "subif0":
                    left.subif = right.subif = 0
                elif "subif" in it:
                    left.subif = right.subif = 100
                if it == "svi":
                    left.svi = right.svi = 55
            handler.__qualname__ = "h%d_%s" % (idx, r["role"])
            reg.direct(r["left"], r["right"], *flt, port_processor=(separate_ports if r["ports"] == "separate" else united_ports))(handler)
        elif r["type"] == "indirect":
            def ihandler(left, right, session, r=r):
                li, ri = first_int(left.match), first_int(right.match)
                left.addr, right.addr = "172.16.%d.%d/32" % (r["net"], li), "172.16.%d.%d/32" % (r["net"], 100 + ri)
                left.asnum, right.asnum = as_spelled(r, r["asn_l"]), as_spelled(r, r["asn_r"])
                session.families = set(r["families"])
                for k_, v_ in r.get("session", {}).items():
                    setattr(session, k_, v_)
                if r["iface"] == "svi":
                    left.svi = right.svi = 77
                elif r["iface"] == "lo0/lo1":
                    left.ifname, right.ifname = "lo0", "lo1"      # each end names its own interface
                elif r["iface"].startswith("lo0"):
                    left.ifname = right.ifname = "lo0"
                    if r["iface"] == "lo0+subif":
                        left.subif = right.subif = 0
            iflt = []
            if r.get("mesh2"):
                g1, g2 = re.findall(r"{(\w+)", r["left"])[0], re.findall(r"{(\w+)", r["right"])[0]
                iflt = [getattr(Left, g1).cast_(int) != getattr(Right, g2).cast_(int)]
            reg.indirect(r["left"], r["right"], *iflt)(ihandler)
        elif r["type"] == "virtual":
            def vhandler(local, virtual, session, r=r):
                local.svi = r["svi"]
                local.addr = "192.168.%d.1/24" % r["svi"]
                local.asnum = r["asn"]
                virtual.addr = "192.168.%d.%d" % (r["svi"], 10 + virtual.num)
                virtual.asnum = r["asn"] + virtual.num
            reg.virtual(r["mask"], r["num"])(vhandler)
        elif r["type"] == "device":
            def dhandler(dev, r=r):
                if r.get("family_only"):
                    dev.ipv4_unicast.multipath = r["multipath"]
                    if r.get("loops") is not None:
                        dev.ipv6_unicast.loops = r["loops"]
                    return
                dev.local_as = r["local_as"]
                dev.vrf[r["vrf"]].rt_import = (r["rt"],)
                dev.vrf[r["vrf"]].groups["G"].mtu = 1400
            reg.device(r["mask"])(dhandler)
    if fq:
        top = MeshRulesRegistry(match_short_name=True)
        top.include(reg)
        return top
    return reg


def as_spelled(r, v):
    """AS numbers as a handler may give them: an int, or a text in decimal or asdot notation (`asnum` takes both)"""
    t = r.get("as_text")
    return v if not t else (str(v) if t == "dec" else "%d.%d" % (v >> 16, v & 0xFFFF))


def as_read(v):
    return str(int(v)) if isinstance(v, int) else "not a number: %r" % (v,)


def canon_peer(p):
    import dataclasses
    opts = dataclasses.asdict(p.options) if p.options is not None else {}
    return {"hostname": p.hostname, "addr": p.addr, "interface": p.interface, "remote_as": as_read(p.remote_as), "families": sorted(p.families),
            "description": p.description, "vrf": p.vrf_name, "group": p.group_name, "import": p.import_policy, "export": p.export_policy,
            "update_source": p.update_source, "options": {k: ((as_read(v) if k == "local_as" else str(v)) if v is not None else None) for k, v in sorted(opts.items())}}


def canon_global(g):
    import dataclasses

    def norm(x):
        if isinstance(x, dict):
            return {k: norm(v) for k, v in sorted(x.items())}
        if isinstance(x, (list, tuple)):
            return sorted((norm(v) for v in x), key=repr)
        return str(x) if not isinstance(x, (int, bool, type(None), str)) else x
    return norm(dataclasses.asdict(g))


def run_all(topo, rules, order):
    """execute_for every device on fresh copies; -> {device: ('ok', peers, global, ifaddrs) | ('error', type)}"""
    from annet.mesh import MeshExecutor
    out = {}
    for name in topo["devices"]:
        st, devs = build_topology(topo)
        reg = make_registry(rules, order, bool(topo.get("fq")))
        try:
            res = MeshExecutor(reg, st).execute_for(devs[name])
            peers = sorted((canon_peer(p) for p in res.peers), key=lambda p: (p["hostname"], p["addr"], p["vrf"]))
            ifaddrs, ifraw = {}, {}
            for i in devs[name].interfaces:  # the fake device appends a new object for every make_lag/add_subif call: collect per name
                ifraw.setdefault(i.name, []).extend(i.addrs)
                if i.addrs:
                    ifaddrs[i.name] = sorted(set(ifaddrs.get(i.name, [])) | set(map(str, i.addrs)))
            out[name] = ("ok", peers, canon_global(res.global_options), ifaddrs, ifraw)
        except ValueError as e:
            out[name] = ("error", "ValueError", str(e)[:200])
        except Exception as e:
            out[name] = ("error", type(e).__name__, str(e)[:200])
    return out


def run_shared(topo, rules, order, dev_order):
    """one storage and ONE executor serving every device in turn (what a generator run over many devices does)"""
    from annet.mesh import MeshExecutor
    st, devs = build_topology(topo)
    ex = MeshExecutor(make_registry(rules, order, bool(topo.get("fq"))), st)
    out = {}
    for name in dev_order:
        try:
            res = ex.execute_for(devs[name])
            peers = sorted((canon_peer(p) for p in res.peers), key=lambda p: (p["hostname"], p["addr"], p["vrf"]))
            out[name] = ("ok", peers, canon_global(res.global_options))
        except Exception as e:
            out[name] = ("error", type(e).__name__, str(e)[:200])
    ifaddrs = {}
    for name in topo["devices"]:
        d = {}
        for i in devs[name].interfaces:
            if i.addrs:
                d[i.name] = sorted(set(d.get(i.name, [])) | set(map(str, i.addrs)))
        ifaddrs[name] = d
    return out, ifaddrs


def tmatch(mask, name):
    """own reading of a peer name template: {g} = digits, {g:regex} = regex"""
    rx = re.sub(r"{(\w+)}", r"(?P<\1>\\d+)", mask)
    rx = re.sub(r"{(\w+):(.*?)}", r"(?P<\1>\2)", rx)
    m = re.fullmatch(rx, name.split(".")[0])  # (full names are matched by their host part)
    return None if m is None else {k: v for k, v in m.groupdict().items()}


def link_names(topo):
    cnt, out = {d: 0 for d in topo["devices"]}, {}
    for a, b, k in topo["links"]:
        out[(a, b, k)] = ("eth%d" % cnt[a], "eth%d" % cnt[b])
        cnt[a] += 1
        cnt[b] += 1
    return out


def expected_iface(rule, ports):
    it = rule["iface"]
    if "lag" in it:
        return "Trunk7" + (".100" if "subif" in it else "")
    if it == "subif0":
        return "%s.0" % ports[0]
    if it == "subif":
        return "%s.100" % ports[0]
    if it == "svi":
        return "Vlan55"
    return ports[0]


def check_case(seed, acc, ll=False, ext=False):
    rng = random.Random(seed)
    topo = gen_topology(rng)
    rules = gen_rules(rng, topo)
    if ext and seed % 2:
        # full device names and an included registry
        ren = {d: d + ".dc.example" for d in topo["devices"]}
        topo["devices"] = [ren[d] for d in topo["devices"]]
        topo["links"] = [[ren[a], ren[b], k] for a, b, k in topo["links"]]
        topo["fq"] = True
        acc.count("cases_with_full_names_and_an_included_registry")
    if ext:
        trng = random.Random(seed ^ 0xA5D)
        t_ = trng.choice([None, "dec", "dot", "dot"])
        if t_:
            for r_ in rules:
                if r_["type"] in ("direct", "indirect"):
                    r_["as_text"] = t_
            acc.count("cases_with_as_numbers_given_as_text")
        irng = random.Random(seed ^ 0x1F0)
        for r_ in rules:
            if r_["type"] == "indirect" and r_["iface"] in ("lo0", "none") and r_["left"].startswith("spine") and not r_.get("mesh2") and irng.random() < 0.9:
                r_["iface"] = "lo0/lo1"
        xrng = random.Random(seed ^ 0x22D)
        for r_ in [r_ for r_ in rules if r_["type"] == "indirect" and not r_.get("mesh2") and r_["role"] == "base"]:
            if xrng.random() < 0.95:
                # the same indirect sessions described by one more rule (same addresses): another family, one more session option
                rules.append(dict(r_, role="extra", families=[xrng.choice(["ipv6_unicast", "l2vpn_evpn"])], session=dict(r_.get("session", {}), send_community=True)))
                acc.count("indirect_sessions_described_by_two_rules")
        erng = random.Random(seed ^ 0xE87)
        drs = [r_ for r_ in rules if r_["type"] == "direct" and r_["role"] == "base"]
        if drs and erng.random() < 0.7:
            # a rule whose filter compares an int group with a str group by order: the comparison cannot be made, the rule does not apply
            # (its handler would hand out other AS numbers, so any application shows)
            b_ = erng.choice(drs)
            rules.append(dict(b_, role="never", filter="mixed", asn_l=b_["asn_l"] + 7, asn_r=b_["asn_r"] + 7, description=None, peer_opts={}, mtu=None))
        masks = sorted({r_["mask"] for r_ in rules if r_["type"] == "device"}) or ["leaf{m}", "spine{n}"]
        m_ = erng.choice(masks)
        v_ = erng.choice([8, 16, 32])
        # device handlers that set nothing but per-family global options
        rules.append({"type": "device", "mask": m_, "role": "family", "family_only": True, "multipath": v_, "loops": erng.choice([None, 2])})
        if erng.random() < 0.4:
            rules.append({"type": "device", "mask": m_, "role": "family", "family_only": True, "multipath": v_ if erng.random() < 0.5 else v_ + 1, "loops": None})
        acc.count("cases_with_family_only_device_handlers")
    if ll:
        # link-local style numbering: all neighbours of a device carry the same address text on their end; sessions stay distinct per neighbour.
        # (one link per device pair: two parallel sessions to one neighbour with one address would be the same session)
        seen_pairs, links = set(), []
        for l_ in topo["links"]:
            if (l_[0], l_[1]) not in seen_pairs:
                seen_pairs.add((l_[0], l_[1]))
                links.append([l_[0], l_[1], 0])
        topo["links"] = links
        for r_ in rules:
            if r_["type"] == "direct":
                r_["linklocal"] = True
        acc.count("linklocal_cases")
        if any(sum(1 for l_ in links if d in l_[:2]) >= 2 for d in topo["devices"]):
            acc.count("linklocal_cases_with_two_neighbours_sharing_an_address")
    try:
        w = _check_case(seed, acc, rng, topo, rules)
        w["ll"], w["ext"] = ll, ext
    finally:
        mine = [k for k in SHARED_FAMILIES if k[0] == id(rules)]
        for k in mine:
            acc.count("shared_handler_constants_checked")
            if SHARED_FAMILIES[k] != set(rules[k[1]]["families"]):
                acc.violation("C15/handler-constant-modified", "a value object a handler assigns (a set shared by all its invocations) was modified by the executor: later sessions see other families",
                              {"seed": seed, "topology": topo, "rules": rules, "rule_index": k[1], "constant_now": sorted(SHARED_FAMILIES[k]), "assigned": rules[k[1]]["families"]})
            del SHARED_FAMILIES[k]
    return w


def _check_case(seed, acc, rng, topo, rules):
    w = {"seed": seed, "topology": topo, "rules": rules}
    n = len(rules)
    base_order = list(range(n))
    acc.count("topologies")
    res0 = run_all(topo, rules, base_order)
    acc.count("executions", len(topo["devices"]))
    multi = any(r["role"] != "base" for r in rules if r["type"] == "direct")
    acc.case([topo, rules], nontrivial=multi and bool(topo["links"]))
    conflict_expected = any(r["type"] == "direct" and r["role"] == "extra" and r["mtu"] is not None and
                            any(b["role"] == "base" and b["left"] == r["left"] and b["mtu"] is not None and b["mtu"] != r["mtu"] for b in rules if b["type"] == "direct")
                            for r in rules)
    conflict_expected = conflict_expected or len({r["local_as"] for r in rules if r["type"] == "device" and not r.get("family_only")}) > 1
    fam = [r for r in rules if r["type"] == "device" and r.get("family_only")]
    fam_conflict = len({r["multipath"] for r in fam}) > 1
    conflict_expected = conflict_expected or fam_conflict
    if conflict_expected:
        acc.count("conflicts_expected")
    # unexpected exception types
    for dname, r in res0.items():
        if r[0] == "error" and r[1] != "ValueError":
            acc.violation("C15/exception-%s" % r[1], "execute_for raised something other than the documented conflict error", dict(w, device=dname, error=r[2]))
            return w
    if not conflict_expected:
        for dname, r in res0.items():
            if r[0] == "error":
                acc.violation("C15/unexpected-conflict-error", "execute_for reports a conflict although the handler tables assign compatible values",
                              dict(w, device=dname, error=r[2]))
                return w
    # ---- order independence ------------------------------------------------------------------------------
    if n <= 4:
        perms = list(itertools.permutations(base_order))
    else:
        perms, seen_p = [tuple(base_order)], {tuple(base_order)}
        while len(perms) < 24:
            p_ = base_order[:]
            rng.shuffle(p_)
            if tuple(p_) not in seen_p:
                seen_p.add(tuple(p_))
                perms.append(tuple(p_))
    for perm in perms[1:]:
        res = run_all(topo, rules, list(perm))
        acc.count("executions", len(topo["devices"]))
        acc.count("permutations_compared")
        for dname in topo["devices"]:
            a, b = res0[dname], res[dname]
            if a[0] != b[0]:
                acc.violation("C15/conflict-depends-on-registration-order", "a handler conflict is reported in one registration order and not in another",
                              dict(w, device=dname, order=list(perm), first=a[:3] if a[0] == "error" else "ok", second=b[:3] if b[0] == "error" else "ok"))
                return w
            if a[0] == "ok" and (a[1] != b[1] or a[2] != b[2] or a[3] != b[3]):
                which = "peers" if a[1] != b[1] else ("global_options" if a[2] != b[2] else "interface_addresses")
                acc.violation("C15/result-depends-on-registration-order", "the outcome of execute_for depends on the order in which handlers were registered",
                              dict(w, device=dname, order=list(perm), differs_in=which))
                return w
    # ---- per-family global options set by device handlers that set nothing else -------------------------------------
    if fam:
        for dname, r_ in res0.items():
            if tmatch(fam[0]["mask"], dname) is None:
                continue
            acc.count("family_only_handler_devices")
            if fam_conflict:
                if r_[0] != "error":
                    acc.violation("C15/conflict-not-reported", "two device handlers give one single-valued option different values and no conflict is reported",
                                  dict(w, device=dname, handlers=fam))
                    return w
                continue
            if r_[0] != "ok":
                continue
            got_mp = r_[2].get("ipv4_unicast", {}).get("multipath")
            want_lp = next((x["loops"] for x in fam if x.get("loops") is not None), None)
            got_lp = r_[2].get("ipv6_unicast", {}).get("loops")
            if got_mp != fam[0]["multipath"] or (want_lp is not None and got_lp != want_lp):
                acc.violation("C15/global-family-option-lost", "an option a device handler set on a per-family global object is missing from the device's global options",
                              dict(w, device=dname, expected_multipath=fam[0]["multipath"], got_multipath=got_mp, expected_loops=want_lp, got_loops=got_lp))
                return w
    # ---- one executor serving all devices gives every device what its own fresh executor gives ---------------------
    if all(r[0] == "ok" for r in res0.values()):
        srng = random.Random(seed ^ 0x5EED)
        dev_order = list(topo["devices"])
        srng.shuffle(dev_order)
        shared, sh_if = run_shared(topo, rules, base_order, dev_order)
        acc.count("shared_executor_runs")
        acc.count("executions", len(dev_order))
        if any(a != b for l_ in topo["links"] for a, b in [(link_names(topo)[(l_[0], l_[1], l_[2])])]):
            acc.count("shared_executor_runs_with_differently_named_link_ends")
        for dname in dev_order:
            a, b = res0[dname], shared[dname]
            if b[0] != "ok" or a[1] != b[1] or a[2] != b[2]:
                acc.violation("C15/result-depends-on-executor-history", "an executor that already served another device gives this device other peers/options than a fresh executor",
                              dict(w, device=dname, device_order=dev_order, fresh=a[1] if b[0] == "ok" else "ok", shared=b[1] if b[0] == "ok" else b))
                return w
            if a[3] != sh_if[dname]:
                acc.violation("C15/interface-addresses-depend-on-executor-history", "after one executor served all devices a device's interfaces carry other addresses than after its own fresh run",
                              dict(w, device=dname, device_order=dev_order, fresh=a[3], shared=sh_if[dname]))
                return w
    # ---- mirror and table checks on the base order -----------------------------------------------------------
    link_ports = {}
    cnt = {d: 0 for d in topo["devices"]}
    for a, b, k in topo["links"]:
        link_ports.setdefault((a, b), []).append("eth%d" % cnt[a])
        link_ports.setdefault((b, a), []).append("eth%d" % cnt[b])
        cnt[a] += 1
        cnt[b] += 1
    for A in topo["devices"]:
        ra = res0[A]
        if ra[0] != "ok":
            continue
        for p in ra[1]:
            B = p["hostname"]
            if not B or B not in res0 or res0[B][0] != "ok":
                continue
            rb = res0[B]
            # the address A peers with must be configured on B by B's own run
            back = [q for q in rb[1] if q["hostname"] == A]
            mates = []
            for q in back:
                if q["interface"] is None:
                    mates.append(q)  # an indirect session without an interface: nothing is configured on the device, the rule table check below covers the address
                    continue
                addrs_on_b = [ip_interface(a_[0]).ip for a_ in rb[4].get(q["interface"], [])]
                if any(str(x) == p["addr"] for x in addrs_on_b):
                    mates.append(q)
            acc.count("mirrored_pairs")
            if not mates:
                acc.violation("C15/peer-address-not-configured-on-the-other-end", "the address a device peers with is not an address the other end's own run put on its interface",
                              dict(w, device=A, peer=p, other_end_peers=back))
                return w
            q = mates[0]
            if p["remote_as"] != q["options"].get("local_as"):
                acc.violation("C15/remote-as-differs-from-other-ends-local-as", "the remote AS configured on one end is not the local AS the same handlers gave the other end",
                              dict(w, device=A, peer=p, mirror=q))
                return w
            if p["families"] != q["families"]:
                acc.violation("C15/families-differ-between-ends", "the two ends of one session carry different address families", dict(w, device=A, peer=p, mirror=q))
                return w
            for opt in ("bfd", "send_community", "add_path", "multipath", "send_labeled", "advertise_irb", "bfd_timers"):
                if p["options"].get(opt) != q["options"].get(opt):
                    acc.violation("C15/session-option-differs-between-ends", "a session-level option differs between the two ends", dict(w, device=A, option=opt, peer=p, mirror=q))
                    return w
    # indirect sessions whose two ends name different interfaces: each end's address sits on the interface ITS side of the handler named
    for r in [r for r in rules if r["type"] == "indirect" and r["iface"] == "lo0/lo1"]:
        if r["role"] != "base" or sum(1 for r2 in rules if r2["type"] == "indirect" and r2["role"] == "base" and r2["net"] == r["net"]) > 1:
            continue
        for A in topo["devices"]:
            ra = res0[A]
            if ra[0] != "ok":
                continue
            for p in ra[1]:
                if not p["addr"].startswith("172.16.%d." % r["net"]):
                    continue
                want_if = "lo0" if int(p["addr"].split(".")[3]) >= 100 else "lo1"     # the peer is the right end <=> this device is the left end
                acc.count("indirect_sessions_with_differently_named_ends")
                if p["interface"] != want_if:
                    acc.violation("C15/indirect-session-on-the-other-ends-interface", "an indirect session is attached to the interface the handler named for the other end",
                                  dict(w, device=A, peer=p, expected_interface=want_if))
                    return w
    # expected table for direct rules (base order)
    for A in topo["devices"]:
        ra = res0[A]
        if ra[0] != "ok":
            continue
        for r in [r for r in rules if r["type"] == "direct" and r["role"] == "base"]:
            for B in topo["devices"]:
                ports = link_ports.get((A, B))
                if not ports:
                    continue
                for a_left in (True, False):
                    L, Rr = (A, B) if a_left else (B, A)
                    ml, mr = tmatch(r["left"], L), tmatch(r["right"], Rr)
                    if ml is None or mr is None:
                        continue
                    li, ri = int(sorted(ml.items())[0][1]), int(sorted(mr.items())[0][1])
                    groups = [ports] if r["ports"] == "united" else [[p_] for p_ in ports]
                    for g in groups:
                        lports = g if a_left else [link_ports[(B, A)][ports.index(x)] for x in g]
                        la, ra_ = addrs_for(r, li, ri, lports)
                        mine, theirs = (la, ra_) if a_left else (ra_, la)
                        exp_addr = str(ip_interface(theirs).ip)
                        exp_as = str((r["asn_r"] + ri) if a_left else (r["asn_l"] + li))
                        found = [p for p in ra[1] if p["hostname"] == B and p["addr"] == exp_addr]
                        if not found:
                            acc.violation("C15/expected-peer-missing", "a peer the rule table assigns to this device is missing from the result (wrong orientation or match groups?)",
                                          dict(w, device=A, neighbor=B, rule=r, expected_addr=exp_addr, got=[p for p in ra[1] if p["hostname"] == B]))
                            return w
                        p = found[0]
                        if p["remote_as"] != exp_as:
                            acc.violation("C15/wrong-remote-as", "remote AS is not the one the handler table gives the other side", dict(w, device=A, peer=p, expected_as=exp_as))
                            return w
                        same = [x for x in rules if x["type"] == "direct" and x["left"] == r["left"] and x["right"] == r["right"]]
                        exp_bfd = any(x.get("bfd") for x in same)
                        exp_sc = any(x.get("send_community") for x in same)
                        if (p["options"].get("bfd") == "True") != exp_bfd or (p["options"].get("send_community") == "True") != exp_sc:
                            acc.violation("C15/session-option-lost", "an option the handlers set on the session is missing from (or invented on) this end's peer",
                                          dict(w, device=A, peer=p, expected_bfd=exp_bfd, expected_send_community=exp_sc))
                            return w
                        for k_, v_ in (r.get("peer_opts") or {}).items():
                            acc.count("peer_options_checked")
                            if p["options"].get(k_) != str(v_):
                                acc.violation("C15/peer-option-lost", "a per-peer option the handler assigned on this side is missing from (or altered in) the peer",
                                              dict(w, device=A, peer=p, option=k_, expected=str(v_)))
                                return w
                        exp_fams = sorted({f for x in same for f in x["families"]})
                        if p["families"] != exp_fams:
                            acc.violation("C15/families-not-united", "the peer's address families are not the union of what the matching handlers set", dict(w, device=A, peer=p, expected=exp_fams))
                            return w
                        ei = expected_iface(r, g)
                        if p["interface"] != ei:
                            acc.violation("C15/wrong-interface", "the session is not on the interface (port / LAG / sub-interface / SVI) the rule selected",
                                          dict(w, device=A, peer=p, expected_interface=ei, rule=r))
                            return w
    return w


# ---- merge laws ------------------------------------------------------------------------------------------
def run_merge(spec, acc):
    from annet.mesh import basemodel as BM
    from annet.mesh.peer_models import DirectPeerDTO, MeshSession, MeshPeerGroup
    from annet.mesh.device_models import Aggregate, FamilyOptions
    rng = random.Random("C15/merge/%s" % spec["seed"])
    n = 1200 if spec["tier"] == "quick" else 40000
    classes = [DirectPeerDTO, MeshSession, MeshPeerGroup, Aggregate]

    def rand_value(name, merger):
        if isinstance(merger, BM.Unite):
            return set(rng.sample(["ipv4_unicast", "ipv6_unicast", "l2vpn_evpn"], rng.randint(1, 2)))
        if isinstance(merger, BM.Concat):
            return tuple(rng.sample(["a", "b", "c"], rng.randint(1, 2)))
        return rng.choice([1, 2, "x", True, None, None])  # an explicit None is a value like any other (it is not "unset")

    def rand_inst(cls):
        kw = {}
        for name, merger in cls._field_mergers.items():
            if isinstance(merger, (BM.Merge, BM.DictMerge)):
                continue
            if rng.random() < 0.35:
                kw[name] = rand_value(name, merger)
        return cls(**kw)
    for j in range(n):
        cls = rng.choice(classes)
        a, b, c = rand_inst(cls), rand_inst(cls), rand_inst(cls)
        acc.case(["merge", cls.__name__, repr(a), repr(b)], nontrivial=bool(vars(a)) and bool(vars(b)))
        exp, conflict = {}, False
        for name, merger in cls._field_mergers.items():
            va, vb = getattr(a, name, BM.Special.NOT_SET), getattr(b, name, BM.Special.NOT_SET)
            if va is BM.Special.NOT_SET and vb is BM.Special.NOT_SET:
                continue
            acc.count("merge_law_checks")
            if va is BM.Special.NOT_SET:
                exp[name] = vb
            elif vb is BM.Special.NOT_SET:
                exp[name] = va
            elif isinstance(merger, BM.Unite):
                exp[name] = va | vb
            elif isinstance(merger, BM.Concat):
                exp[name] = va + vb
            elif isinstance(merger, BM.ForbidChange):
                if va == vb and type(va) == type(vb) or va == vb:
                    exp[name] = va
                else:
                    conflict = True
        w = {"merge": True, "cls": cls.__name__, "a": repr(a), "b": repr(b)}
        try:
            m = BM.merge(a, b)
            got = dict(vars(m))
            err = None
        except BM.MergeForbiddenError:
            got, err = None, "MergeForbiddenError"
        except Exception as e:
            got, err = None, type(e).__name__
        if conflict != (err == "MergeForbiddenError") or (err and err != "MergeForbiddenError"):
            acc.violation("C15/merge/conflict-rule", "two different values of a single-valued field must raise a conflict error; equal or one-sided values must not",
                          dict(w, expected_conflict=conflict, got_error=err))
            continue
        if not conflict and got != exp:
            acc.violation("C15/merge/field-law", "merge(a, b) does not follow the declared merger of a field (Unite = union, Concat = concatenation, unset never overrides set)",
                          dict(w, expected=repr(exp), got=repr(got)))
            continue
        if repr(a) != w["a"] or repr(b) != w["b"]:
            acc.violation("C15/merge/argument-modified", "merge(a, b) modified one of its arguments (the values handlers assigned)", dict(w, a_after=repr(a), b_after=repr(b)))
            continue
        # associativity when defined
        try:
            l = BM.merge(BM.merge(a, b), c)
            r = BM.merge(a, BM.merge(b, c))
            if repr(a) != w["a"] or repr(b) != w["b"]:
                acc.violation("C15/merge/argument-modified", "merge modified one of its arguments (the values handlers assigned)", dict(w, a_after=repr(a), b_after=repr(b)))
            elif vars(l) != vars(r):
                acc.violation("C15/merge/not-associative", "merge is not associative on instances where it is defined", dict(w, c=repr(c)))
        except BM.MergeForbiddenError:
            pass


def check_twins(seed, acc):
    """several sites in one fabric: devices of different domains share their short host name (`spine1.dc1.example` / `spine1.dc2.example`) and
    the registry matches short names; a device cabled to (or peering indirectly with) both twins has a session with each, mirrored on each"""
    from ipaddress import ip_interface
    from annet.mesh import MeshExecutor, MeshRulesRegistry, separate_ports
    from tests.annet.test_mesh.fakes import FakeStorage, FakeDevice, FakeInterface
    rng = random.Random(seed)
    ndc = rng.randint(2, 3)
    spines = ["spine%d.dc%d.example" % (s_, d_) for d_ in range(1, ndc + 1) for s_ in range(1, rng.randint(1, 2) + 1)]
    tors = ["tor%d.dc%d.example" % (t_, d_) for d_ in range(1, ndc + 1) for t_ in range(1, rng.randint(1, 2) + 1)]
    rrs = ["rr1.dc%d.example" % d_ for d_ in range(1, ndc + 1)] if rng.random() < 0.7 else []
    aggs = ["agg%d.dc1.example" % a_ for a_ in range(1, rng.randint(1, 2) + 1)] if rng.random() < 0.7 else []
    devices = spines + tors + rrs + aggs
    asn = {d_: 64000 + i for i, d_ in enumerate(devices)}
    links, cnt = [], {d_: 0 for d_ in devices}
    for t_ in tors + aggs:
        for s_ in rng.sample(spines, rng.randint(2, len(spines))):
            for _ in range(rng.choice([1, 1, 2])):          # (parallel links: the neighbour is listed once per link)
                links.append((t_, "e%d" % cnt[t_], s_, "e%d" % cnt[s_]))
                cnt[t_] += 1
                cnt[s_] += 1
    ifs = {d_: [] for d_ in devices}
    for n_, (a, pa, b, pb) in enumerate(links):
        ifs[a].append(FakeInterface(pa, b, pb))
        ifs[b].append(FakeInterface(pb, a, pa))
    st, devs = FakeStorage(), {}
    for d_ in devices:
        ifs[d_].append(FakeInterface("lo0", None, None))
        devs[d_] = FakeDevice(d_, ifs[d_])
        devs[d_].storage = st
        st.add_device(devs[d_])
    link_no = {(a, pa): n_ for n_, (a, pa, b, pb) in enumerate(links)}
    reg = MeshRulesRegistry(match_short_name=True)

    def on_direct(tor, spine, session):
        n_ = link_no[(tor.device.fqdn, tor.ports[0])]
        tor.addr, spine.addr = "10.9.%d.0/31" % n_, "10.9.%d.1/31" % n_
        tor.asnum, spine.asnum = asn[tor.device.fqdn], asn[spine.device.fqdn]
        session.families = {"ipv4_unicast"}
    reg.direct("tor{t}", "spine{s}", port_processor=separate_ports)(on_direct)
    if aggs:
        reg.direct("agg{a}", "spine{s}", port_processor=separate_ports)(on_direct)     # the same handler function serves a second rule
    # two rules of virtual peers on the tors whose order numbers overlap: each rule's peers exist (other interfaces, other addresses)

    def on_virtual4(local, virtual, session):
        local.svi, local.addr, local.asnum = 10, "192.168.10.1/24", 65000
        virtual.addr, virtual.asnum = "192.168.10.%d" % (10 + virtual.num), 65100 + virtual.num
        session.families = {"ipv4_unicast"}

    def on_virtual6(local, virtual, session):
        local.svi, local.addr, local.asnum = 20, "2001:db8:20::1/64", 65000
        virtual.addr, virtual.asnum = "2001:db8:20::%d" % (10 + virtual.num), 65200 + virtual.num
        session.families = {"ipv6_unicast"}
    reg.virtual("tor{t}", [1, 2, 3])(on_virtual4)
    reg.virtual("tor{t}", [2, 3, 4])(on_virtual6)

    def on_indirect(spine, rr, session):
        spine.addr, rr.addr = "172.20.%d.%d/32" % (devices.index(spine.device.fqdn), devices.index(rr.device.fqdn)), "172.21.%d.%d/32" % (devices.index(rr.device.fqdn), devices.index(spine.device.fqdn))
        spine.asnum, rr.asnum = asn[spine.device.fqdn], asn[rr.device.fqdn]
        spine.ifname = rr.ifname = "lo0"
        session.families = {"ipv4_unicast"}
    reg.indirect("spine{s}", "rr{r}")(on_indirect)
    w = {"twins": True, "seed": seed, "devices": devices, "links": [list(l_) for l_ in links]}
    ex = MeshExecutor(reg, st)
    order = list(devices)
    rng.shuffle(order)
    res = {}
    for d_ in order:
        try:
            res[d_] = ex.execute_for(devs[d_]).peers
        except Exception as e:
            acc.violation("C15/twins/exception-%s" % type(e).__name__, "the executor raised on a fabric whose sites re-use short host names", dict(w, device=d_, error=repr(e)[:300]))
            return
    acc.count("fabrics_with_short_names_shared_between_sites")
    acc.count("executions", len(order))
    acc.case(["twins", devices, links], nontrivial=True)
    want = []       # (device, peer host, own interface, peer address)
    for n_, (a, pa, b, pb) in enumerate(links):
        want.append((a, b, pa, "10.9.%d.1" % n_, asn[b]))
        want.append((b, a, pb, "10.9.%d.0" % n_, asn[a]))
    for s_ in spines:
        for r_ in rrs:
            want.append((s_, r_, "lo0", "172.21.%d.%d" % (devices.index(r_), devices.index(s_)), asn[r_]))
            want.append((r_, s_, "lo0", "172.20.%d.%d" % (devices.index(s_), devices.index(r_)), asn[s_]))
    for t_ in tors:
        for n_ in (1, 2, 3):
            want.append((t_, "", "Vlan10", "192.168.10.%d" % (10 + n_), 65100 + n_))
        for n_ in (2, 3, 4):
            want.append((t_, "", "Vlan20", "2001:db8:20::%d" % (10 + n_), 65200 + n_))
    got = sorted((d_, p.hostname or "", p.interface, str(p.addr), int(p.remote_as)) for d_, ps in res.items() for p in ps)
    acc.count("sessions_between_sites_checked", len(want))
    if got != sorted(want):
        missing = [x for x in sorted(want) if x not in got]
        extra = [x for x in got if x not in want]
        acc.violation("C15/twins/sessions-differ-from-the-cabling", "with short-name matching, a fabric whose sites re-use host names does not get exactly one session per link (and per indirect pair) on each end",
                      dict(w, missing=missing[:6], unexpected=extra[:6]))
        return
    for d_ in devices:
        for p in res[d_]:
            if not p.hostname:
                continue
            q = [x for x in res[p.hostname] if x.hostname == d_ and any(str(ip_interface(a_[0]).ip) == str(p.addr) for a_ in devs[p.hostname].find_interface(x.interface).addrs)]
            if not q:
                acc.violation("C15/twins/peer-address-not-configured-on-the-other-end", "the address a device peers with is not on the interface of the other end's session", dict(w, device=d_, peer=[p.hostname, str(p.addr)]))
                return


def run_shard(spec, acc):
    if spec["mode"] == "replay":
        w = spec["witness"]
        if w.get("merge"):
            return run_merge({"tier": "quick", "seed": 0}, acc)
        if w.get("twins"):
            return check_twins(w["seed"], acc)
        check_case(w["seed"], acc, ll=bool(w.get("ll")), ext=bool(w.get("ext")))
        return
    if spec["mode"] == "merge":
        return run_merge(spec, acc)
    tier, k, n = spec["tier"], spec["shard"], spec["nshards"]
    total = 320 if tier == "quick" else 10000
    rng = random.Random("C15/%s/%s" % (spec["seed"], k))
    twrng = random.Random("C15/twins/%s/%s" % (spec["seed"], k))
    for j in range(total // n):
        w = check_case(rng.randrange(1 << 48), acc)
        if j < 2 and w:
            acc.sample({"topology": w["topology"], "rules": w["rules"][:3]})
        if j % 4 == 1:
            check_case(rng.randrange(1 << 48), acc, ll=True)
        if j % 4 == 3:
            check_case(rng.randrange(1 << 48), acc, ext=True)
        if j % 2 == 0:
            check_twins(twrng.randrange(1 << 48), acc)
