"""C10 - generators are confined to their ACL, own lines exclusively, and merge by union.

Generator programs are data (yields, tuple yields, multi-line yields, block / block_if / multiblock contexts). Each
program is interpreted twice: by a real, dynamically created PartialGenerator subclass driving the real context-manager
API through the production front end `_old_new_per_device`, and by a small reference interpreter giving the expected
list of paths. Oracle (R3 coverage): GeneratorError iff some yielded path is not covered by that generator's own ACL;
AclNotExclusiveError iff >=2 generators have a deletable rule matching one generated row; otherwise result.new ==
the union of all yielded paths (each once, first-seen order per level).
"""
import random
import re
import textwrap

from vf.ref import acl as A
from vf.util import plain, unplain

LEVEL = "exploration"
RULE = ("1-4 generators, programs of <=12 statements nested <=3 (Yield, TupleYield with nested tuples/ints, MultilineYield with inner indentation, Block, BlockIf with "
        "default and explicit conditions and None tokens, Multiblock with tuple tokens); per generator an ACL text derived from its paths: covering all, all-but-one path, "
        "generalised (*, ~), with `~ %global` tails, explicit %cant_delete, interface default, and rows shared with another generator (deletable in both / in one); ACL texts "
        "carry different leading indentation per generator; vendors huawei/cisco/arista/nexus. Non-trivial: >=2 generators or >=1 nested block. Distinct: hash of the case.")
ASSUMPTIONS = [
    "coverage and exclusivity by R3 (vf/ref/acl.py); cases where the ideal coverage and the implementation's documented winner rule disagree (known findings of C06) are skipped and counted",
    "programs yield rows in negated form only in the dedicated scenario (a negated line owned literally by one generator and through its positive rule by another)",
]
FLOORS = {"quick": {"runs": 1200, "outcome_ok": 300, "outcome_generator_error": 150, "outcome_not_exclusive": 60, "block_contexts_entered": 2000, "annotated_runs": 80, "annotated_rows": 200, "cases_with_a_silent_generator": 300, "cases_with_three_differently_written_rules": 300, "comment_rows_yielded_inside_blocks": 200, "acl_comment_lines": 3000, "rules_mentioning_interface_not_at_start": 4000, "multi_line_yields_all_inside_the_first_line": 500, "cases_with_device_rows_claimed_by_several_generators": 800, "cases_with_a_negated_line_owned_literally_and_through_its_positive_rule": 300, "reused_generator_object_runs": 150, "tuple_yields_with_an_inline_list": 300, "tuple_yields_with_a_lazy_iterable": 300, "cases_with_a_global_and_a_nested_local_rule_of_one_text": 300, "cases_with_a_line_holding_an_unusual_separator_character": 300, "cases_on_brace_syntax_vendors": 300, "acl_texts_indented_with_tabs": 300, "cases_with_a_generator_that_has_no_acl_method": 150, "reused_generator_objects_whose_earlier_run_ended_inside_a_block": 60},
          "thorough": {"runs": 50000, "outcome_ok": 12000, "outcome_generator_error": 6000, "outcome_not_exclusive": 2500, "block_contexts_entered": 80000, "annotated_runs": 3000, "annotated_rows": 8000, "cases_with_a_silent_generator": 12000, "cases_with_three_differently_written_rules": 12000, "comment_rows_yielded_inside_blocks": 4000, "acl_comment_lines": 60000, "rules_mentioning_interface_not_at_start": 80000}}
VENDORS = ["huawei", "cisco", "arista", "nexus"]
HEADS = ["a", "b", "c", "interface", "router", "x", "ntp source-interface", "c passive-interface"]  # the word `interface` only makes a rule not deletable by default at its start
KEYS = ["k1", "k2", "e1", "10"]


def plan(tier, seed):
    n = 8 if tier == "quick" else 16
    return [{"mode": "random", "tier": tier, "seed": seed, "shard": k, "nshards": n} for k in range(n)]


# ---- programs -----------------------------------------------------------------------------------------
def gen_row(rng):
    return "%s %s" % (rng.choice(HEADS), rng.choice(KEYS)) if rng.random() < 0.8 else rng.choice(HEADS)


def gen_program(rng, depth=0, budget=None):
    budget = budget if budget is not None else [rng.randint(3, 12)]
    out = []
    while budget[0] > 0 and (len(out) < 4 or rng.random() < 0.3):
        budget[0] -= 1
        r = rng.random()
        if r < 0.4 or depth >= 3:
            out.append(["y", gen_row(rng)])
        elif r < 0.5:
            h, k = rng.choice(HEADS), rng.choice(KEYS)
            x_ = rng.random()
            if x_ < 0.2:
                out.append(["tg", h, rng.sample(KEYS, 2), rng.choice(["genexp", "map", "range", "keys"])])  # a tuple holding a lazy iterable of words
            elif x_ < 0.45:
                out.append(["tl", h, rng.sample(KEYS, 2)])  # a tuple holding an inline list: `h [ k1 k2 ]`
            else:
                out.append(["t", [h, [k, rng.choice([1, 20, "z"])]]])
        elif r < 0.58:
            a, b, c = gen_row(rng), gen_row(rng), gen_row(rng)
            shape = rng.choice([[[0, a], [1, b], [1, c + " m"], [0, b + " top"]],
                                [[0, a], [1, b], [1, c + " m"]],              # every later line inside the first one's block
                                [[0, a], [1, b], [2, c + " m"]],
                                [[0, a], [1, b], [2, c + " m"], [1, b + " top"]]])
            # written tight ("hdr\n  row") or the triple-quoted way (leading newline, common margin, trailing blanks)
            out.append(["m", shape, rng.choice(["tight", "tight", "quoted"])])
        elif r < 0.8:
            out.append(["b", gen_row(rng).split(), gen_program(rng, depth + 1, budget)])
        elif r < 0.9:
            toks = [rng.choice(HEADS), rng.choice(KEYS + [None, "", 0, False, 0.0])]  # 0 / False are values, only None and "" mean "absent"
            cond = rng.choice([None, None, True, False])
            if cond is True and toks[1] in (None, ""):
                toks[1] = rng.choice(KEYS)  # a forced block with an empty token is a programming error of the generator, not a case of interest
            out.append(["bi", toks, gen_program(rng, depth + 1, budget), cond])
        else:
            blocks = [gen_row(rng), [rng.choice(HEADS), rng.choice(KEYS)]][: rng.randint(1, 2)]
            out.append(["mb", blocks, gen_program(rng, depth + 1, budget)])
        if len(out) >= 5:
            break
    return out


def iter_stmts(program):
    for st in program:
        yield st
        if st[0] in ("b", "bi", "mb"):
            yield from iter_stmts(st[2])


def flat(x):
    for i in x:
        if isinstance(i, (list, tuple)):
            yield from flat(i)
        else:
            yield i


def ref_paths(program, prefix=()):
    """reference interpreter: ordered list of paths the program yields"""
    out = []
    for st in program:
        k = st[0]
        if k == "y":
            out.append(prefix + (st[1],))
        elif k == "t":
            out.append(prefix + (" ".join(str(w) for w in flat(st[1])),))
        elif k == "tl":
            out.append(prefix + ("%s [ %s ]" % (st[1], " ".join(st[2])),))
        elif k == "tg":
            words = ["3", "4", "5"] if st[3] == "range" else list(st[2])
            out.append(prefix + ("%s %s" % (st[1], " ".join(words)),))
        elif k == "m":
            stack = []
            for d, row in st[1]:
                stack = stack[:d] + [row]
                out.append(prefix + tuple(stack))
        elif k == "b":
            row = " ".join(str(t) for t in st[1])
            out.append(prefix + (row,))
            out += ref_paths(st[2], prefix + (row,))
        elif k == "bi":
            toks, body, cond = st[1], st[2], st[3]
            c = cond if cond is not None else (None not in toks and "" not in toks)
            if c:
                row = " ".join(str(t) for t in toks)
                out.append(prefix + (row,))
                out += ref_paths(body, prefix + (row,))
            else:
                out += ref_paths(body, prefix)
        elif k == "c":
            pass  # a vendor comment row is not a line of configuration
        elif k == "mb":
            p = prefix
            for blk in st[1]:
                row = " ".join(str(t) for t in (blk if isinstance(blk, list) else [blk]))
                p = p + (row,)
                out.append(p)
            out += ref_paths(st[2], p)
    return out


def make_run(program, counter):
    def tup(x):
        return tuple(tup(i) if isinstance(i, list) else i for i in x)

    def run(self, device):
        def ex(stmts):
            for st in stmts:
                k = st[0]
                if k == "y":
                    yield st[1]
                elif k == "t":
                    yield tup(st[1])
                elif k == "tl":
                    from annet.generators import ParamsList
                    yield st[1], ParamsList(st[2])
                elif k == "tg":
                    lazy = {"genexp": (lambda: (str(x_) for x_ in st[2])), "map": (lambda: map(str, st[2])), "range": (lambda: range(3, 6)),
                            "keys": (lambda: dict.fromkeys(st[2]).keys())}[st[3]]()
                    yield st[1], lazy
                elif k == "m":
                    body = "\n".join("  " * d + row for d, row in st[1])
                    if len(st) > 2 and st[2] == "quoted":
                        body = "\n" + "\n".join("        " + ln for ln in body.split("\n")) + "\n    "
                    yield body
                elif k == "c":
                    yield "#"
                elif k == "b":
                    counter[0] += 1
                    with self.block(*st[1]):
                        yield from ex(st[2])
                elif k == "bi":
                    counter[0] += 1
                    kw = {} if st[3] is None else {"condition": st[3]}
                    with self.block_if(*st[1], **kw):
                        yield from ex(st[2])
                elif k == "mb":
                    counter[0] += 1
                    with self.multiblock(*[tuple(b) if isinstance(b, list) else b for b in st[1]]):
                        yield from ex(st[2])
        yield from ex(program)
    return run


def union_tree(paths_lists):
    root = []

    def ins(nodes, path):
        for n in nodes:
            if n[0] == path[0]:
                if len(path) > 1:
                    ins(n[1], path[1:])
                return
        nodes.append([path[0], []])
        if len(path) > 1:
            ins(nodes[-1][1], path[1:])
    for pl in paths_lists:
        for p in pl:
            ins(root, p)
    return root


# ---- ACLs ------------------------------------------------------------------------------------------------
def acl_for(rng, paths, mode, shared_rows=()):
    """AclRule tree covering `paths` (mode: all | minus-one | loose)"""
    ps = list(dict.fromkeys(paths))
    drop = None
    leaves = [p for p in ps if not any(q[:len(p)] == p and len(q) > len(p) for q in ps)]
    if mode == "minus-one" and leaves:
        drop = rng.choice(leaves)
    root = []

    def pat_of(row, leaf):
        w = row.split()
        if "[" in row:
            return w[0] + " ~"  # (brackets are regex syntax in a rule text: such rows are covered by a prefix rule)
        r = rng.random()
        if len(w) > 1 and r < 0.3:
            return " ".join(w[:-1] + ["*"])
        if leaf and len(w) > 1 and r < 0.45:
            return w[0] + " ~"
        return row

    def ins(nodes, path, leaf_path):
        pat = None
        for n in nodes:
            if A.R.match(n.pat, path[0]) is not None and not n.glob:
                pat = n
                break
        if pat is None:
            pat = A.AclRule(pat_of(path[0], len(path) == 1))
            x = rng.random()
            if x < 0.1:
                pat.explicit_cd, pat.cant_delete = [True], [True]
            elif x < 0.15:
                pat.explicit_cd, pat.cant_delete = [False], [False]
            nodes.append(pat)
        if len(path) > 1:
            ins(pat.children, path[1:], leaf_path)
    for p in ps:
        if p == drop:
            continue
        if mode == "loose" and len(p) > 1 and rng.random() < 0.3:
            # cover the whole subtree of the parent with a %global catch-all
            ins(root, p[:-1], p)
            node = root
            cur = None
            for row in p[:-1]:
                cur = next(n for n in node if A.R.match(n.pat, row) is not None and not n.glob)
                node = cur.children
            if not any(n.pat == "~" for n in node):
                node.append(A.AclRule("~", glob=True))
            continue
        ins(root, p, p)
    return root, drop


def render_indented(level, rng):
    text = A.render(level)
    ind = " " * rng.choice([0, 0, 4, 8, 12])
    lines = []
    for ln in text.split("\n"):
        if rng.random() < 0.12 and ln.strip():
            # a `# ...` comment line inside the ACL text, written at the indentation of the rule it precedes
            lines.append(" " * (len(ln) - len(ln.lstrip(" "))) + rng.choice(["# note", "#", "#interface *", "# a ~ %global"]))
        lines.append(ln)
    return "\n" + "\n".join(ind + ln for ln in lines) + "\n" + ind


def add_comment_yields(rng, program, depth=0):
    """huawei: a generator may yield the separator/comment row `#` inside a block; it is not a line of configuration and the rows after it stay in their block"""
    n = 0
    for st in program:
        if st[0] in ("b", "bi", "mb") and st[2]:
            n += add_comment_yields(rng, st[2], depth + 1)
    if depth >= 1 and program and rng.random() < 0.5:
        program.insert(rng.randrange(len(program) + 1), ["c"])
        n += 1
    return n


def expected_outcome(gens, prefix):
    """-> ('generator_error', i) | ('not_exclusive', path) | ('ok', tree) | ('skip', why)"""
    for i, g in enumerate(gens):
        tree = union_tree([g["paths"]])
        res = {}
        for ideal, mode in ((True, "property"), (False, "winner")):
            unc = []
            l, gl = A.compile_level(g["acl"], ideal)
            A.filter_tree(tree, l, gl, prefix, mode, unc)
            res[mode] = bool(unc)
        if res["property"] != res["winner"]:
            return ("skip", "coverage depends on the winner rule")
        if res["winner"]:
            return ("generator_error", i)
    combined = []
    for g in gens:
        combined += tag(g["acl"], g["name"])
    tree = union_tree([g["paths"] for g in gens])
    l_i, g_i = A.compile_level(combined, True)
    l_w, g_w = A.compile_level(combined, False)
    f_i = A.filter_tree(tree, l_i, g_i, prefix, "property")
    f_w = A.filter_tree(tree, l_w, g_w, prefix, "winner")
    if f_i != f_w:
        return ("skip", "merged coverage depends on the winner rule")
    bad = exclusive_walk(tree, l_w, g_w, prefix)
    if bad is not None:
        return ("not_exclusive", bad)
    return ("ok", f_w)


def tag(level, name):
    out = []
    for r in level:
        n = A.AclRule(r.pat, tag(r.children, name), r.glob, None, r.prio, [name])
        n.cant_delete = list(r.cant_delete)
        n.explicit_cd = r.explicit_cd
        out.append(n)
    return out


def exclusive_walk(tree, locals_, globals_, prefix, path=()):
    for row, ch in tree:
        ms = A.ranked(row, locals_, globals_, prefix)
        if not ms:
            continue
        per = {}
        for rule, is_global, rev in ms:
            for name, flag in zip(rule.gens, rule.cant_delete):
                per[name] = per.get(name, True) and flag
        if sum(1 for v in per.values() if not v) > 1:
            return list(path + (row,))
        rule, is_global, rev = ms[0]
        if rev and all(rule.cant_delete):
            continue
        cl, cg = A.children_rules(ms, globals_, "winner")
        bad = exclusive_walk(ch, cl, cg, prefix, path + (row,))
        if bad is not None:
            return bad
    return None


def make_case(seed, silent=False, ranked=False, negx=False, globx=False, oddx=False, bracev=False, noacl=False):
    rng = random.Random(seed)
    vname = rng.choice(VENDORS)
    if bracev:
        vname = random.Random(seed ^ 0xB2ACE).choice(["nokia", "juniper", "ribbon"])   # (their device dumps use braces; generators write indented blocks for them all the same)
    ngen = rng.choice([1, 2, 2, 3, 4])
    gens = []
    for i in range(ngen):
        prog = gen_program(rng)
        paths = ref_paths(prog)
        mode = rng.choice(["all", "all", "all", "minus-one", "loose"])
        acl, drop = acl_for(rng, paths, mode)
        gens.append({"name": "Gen%d" % i, "program": prog, "paths": [list(p) for p in paths], "acl": acl, "mode": mode})
    # make two generators own one row (overlap): copy a rule of one generator into another's ACL and let it yield the row
    if ngen >= 2 and rng.random() < 0.45:
        a, b = rng.sample(range(ngen), 2)
        if gens[a]["paths"]:
            p = tuple(rng.choice(gens[a]["paths"]))
            gens[b]["program"].append(["y", p[0]] if len(p) == 1 else ["b", p[0].split(), [["y", p[1]]] if len(p) == 2 else []])
            gens[b]["paths"] = [list(x) for x in ref_paths(gens[b]["program"])]
            gens[b]["acl"], _ = acl_for(rng, [tuple(x) for x in gens[b]["paths"]], "all")
    x = rng.random()
    if ngen >= 3 and x < 0.3:
        # several generators contribute different children to one not-deletable block (the usual `interface X` case)
        for i, g in enumerate(gens):
            g["program"].append(["b", ["interface", "e1"], [["y", "own%d k%d" % (i, i)], ["y", "own%d x" % i]]])
            g["paths"] = [list(x_) for x_ in ref_paths(g["program"])]
            g["acl"], _ = acl_for(rng, [tuple(x_) for x_ in g["paths"]], "all")
    elif ngen >= 2 and x < 0.45:
        # one generator covers a row twice (specific rule not deletable, broad rule deletable); another one may delete it too
        a, b = rng.sample(range(ngen), 2)
        for i in (a, b):
            gens[i]["program"].append(["y", "ntp k1"])
            gens[i]["paths"] = [list(x_) for x_ in ref_paths(gens[i]["program"])]
            gens[i]["acl"], _ = acl_for(rng, [tuple(x_) for x_ in gens[i]["paths"] if x_ != ["ntp k1"]], "all")
        spec = A.AclRule("ntp k1", cant_delete=[True])
        gens[a]["acl"] += [spec, A.AclRule("ntp ~")] if rng.random() < 0.7 else [spec]
        gens[b]["acl"] += [A.AclRule("ntp *")]
    if ranked:
        # one block row matched by three differently written rules of three generators: a specific local one, a %global one that
        # ranks between, and a broad local one; the block's children come from both local rules
        rrng = random.Random(seed ^ 0x7A)
        row = "interface e%d.%d" % (rrng.randint(1, 3), rrng.randint(100, 102))
        specs = [("GenSub", "interface */e\\d+\\.\\d+/", "vlan-type dot1q %d" % rrng.randint(1, 9), "vlan-type ~"),
                 ("GenDescr", "interface *", "description d%d" % rrng.randint(1, 9), "description ~")]
        rrng.shuffle(specs)
        extra = []
        for name, ppat, child, cpat in specs:
            extra.append({"name": name, "program": [["b", row.split(), [["y", child]]]], "paths": [[row], [row, child]],
                          "acl": [A.AclRule(ppat, children=[A.AclRule(cpat)])], "mode": "all"})
        extra.append({"name": "GenFlow", "program": [["y", "flow k1"]], "paths": [["flow k1"]],
                      "acl": [A.AclRule("flow *"), A.AclRule("interface ~", glob=True)], "mode": "all"})
        rrng.shuffle(extra)
        gens = [g for g in gens if not any(p and p[0].split()[0] in ("interface", "flow") for p in g["paths"])][:1] + extra
    if silent and gens and gens[0]["paths"]:
        # a generator that yields nothing on this device but whose ACL claims (deletably) rows another generator yields
        srng = random.Random(seed ^ 0x51)
        donor = srng.choice([g for g in gens if g["paths"]])
        acl, _ = acl_for(srng, [tuple(x_) for x_ in donor["paths"]], "all")
        gens.insert(srng.randrange(len(gens) + 1), {"name": "GenSilent", "program": [], "paths": [], "acl": acl, "mode": "all"})
    if globx and len(gens) >= 2:
        # one generator owns a line family everywhere through a %global rule, another owns the same family inside its block through a local rule
        # of the same text: a line of the family generated inside that block has two owners
        xrng = random.Random(seed ^ 0x61B)
        a, b = xrng.sample(range(len(gens)), 2)
        fam_ = xrng.choice(["descr", "remark"])
        ra = A.AclRule("%s ~" % fam_, glob=True)
        if xrng.random() < 0.3:
            ra.explicit_cd, ra.cant_delete = [True], [True]
        gens[a]["acl"] = list(gens[a]["acl"]) + [ra]
        blk_ = ["zone", xrng.choice(KEYS)]
        gens[b]["program"].append(["b", blk_, [["y", "%s %s" % (fam_, xrng.choice(KEYS))]]])
        gens[b]["paths"] = [list(x_) for x_ in ref_paths(gens[b]["program"])]
        gens[b]["acl"] = list(gens[b]["acl"]) + [A.AclRule("zone *", children=[A.AclRule("%s ~" % fam_)])]
    if noacl and gens:
        # a generator that writes lines for the vendor and declares no ACL for it (the method is missing): nothing it yields is covered
        arng = random.Random(seed ^ 0x40AC)
        g_ = arng.choice(gens)
        g_["acl"], g_["no_acl_method"], g_["mode"] = [], True, "none"
        if not g_["paths"]:
            g_["program"].append(["y", "x k1"])
            g_["paths"] = [list(x_) for x_ in ref_paths(g_["program"])]
    if oddx and gens:
        # a line holding a character some libraries take for a line boundary (form feed, vertical tab, NEL, U+2028 - pasted into a description
        # by an inventory system): the generator yielded ONE line, the only row separator of a generator's text is the newline
        orng = random.Random(seed ^ 0x0DD)
        a = orng.randrange(len(gens))
        ch = orng.choice(["\u2028", "\x0c", "\x0b", "\x85", "\u2029", "\x1d"])
        row = "note rack%s12 %s" % (ch, orng.choice(KEYS))
        at = orng.choice(["top", "block"])
        if at == "top":
            gens[a]["program"].append(["y", row])
            gens[a]["acl"] = list(gens[a]["acl"]) + [A.AclRule("note ~")]
        else:
            gens[a]["program"].append(["b", ["zone", "odd"], [["y", row], ["y", "tail k1"]]])
            gens[a]["acl"] = list(gens[a]["acl"]) + [A.AclRule("zone odd", children=[A.AclRule("note ~"), A.AclRule("tail *")])]
        gens[a]["paths"] = [list(x_) for x_ in ref_paths(gens[a]["program"])]
    nrng = random.Random(seed ^ 0x9E6)
    if negx and len(gens) >= 2:
        # a generator owns the negated command itself (`undo lldp enable` as a line of configuration, named literally in its ACL) while
        # another one owns the positive command, whose negated form is the same line: two generators may delete one generated line
        from annet.vendors import registry_connector
        pfx = registry_connector.get()[vname].reverse
        a, b = nrng.sample(range(len(gens)), 2)
        word, key = nrng.choice(["lldp", "stp", "nd", "ntp-x", "dhcp", "ospf", "dns", "undoable"]), nrng.choice(KEYS)  # (first letters from the negation words: character stripping instead of word stripping shows there)
        row = "%s %s %s" % (pfx, word, key)
        gens[a]["program"].append(["y", row])
        gens[a]["paths"] = [list(x_) for x_ in ref_paths(gens[a]["program"])]
        gens[a]["acl"] = list(gens[a]["acl"]) + [A.AclRule(nrng.choice([row, "%s %s *" % (pfx, word)]))]
        rb_ = A.AclRule(nrng.choice(["%s %s" % (word, key), "%s *" % word, "%s ~" % word]))
        if nrng.random() < 0.3:
            rb_.explicit_cd, rb_.cant_delete = [True], [True]
        gens[b]["acl"] = list(gens[b]["acl"]) + [rb_]
    if negx and len(gens) >= 1:
        # a generator whose ACL names a command in its negated form only (`undo dhcp enable`) and which yields the positive command: the line
        # is covered through the rule's other form (own family `pv`, no other generator names it)
        prng_ = random.Random(seed ^ 0x9051F)
        from annet.vendors import registry_connector as _rc2
        pfx2 = _rc2.get()[vname].reverse
        c_ = prng_.randrange(len(gens))
        w2 = prng_.choice(["dhcp-pv", "ntp-pv", "ospf-pv", "nd-pv", "uplink-pv", "pv"])
        k2 = prng_.choice(KEYS)
        gens[c_]["program"].append(["y", "%s %s" % (w2, k2)])
        gens[c_]["paths"] = [list(x_) for x_ in ref_paths(gens[c_]["program"])]
        gens[c_]["acl"] = list(gens[c_]["acl"]) + [A.AclRule(prng_.choice(["%s %s %s" % (pfx2, w2, k2), "%s %s *" % (pfx2, w2)]))]
    if vname == "huawei" and rng.random() < 0.3:
        crng = random.Random(seed ^ 0xC0)
        for g in gens:
            g["comments"] = add_comment_yields(crng, g["program"])
    for g in gens:
        g["paths"] = [tuple(p) for p in g["paths"]]
    return vname, gens, rng


def add_legacy(seed, gens):
    """rows that only the device has: rules (deletable) for them in the ACLs of two or more generators, nobody yields them.
    Exclusivity is about generated lines; what is found on the device is simply within everybody's reach. -> device text"""
    lrng = random.Random(seed ^ 0x1E6)
    if lrng.random() < 0.5:
        return ""
    who = lrng.sample(range(len(gens)), min(len(gens), lrng.randint(2, 3))) if len(gens) >= 2 else [0]
    for i in who:
        gens[i]["acl"] = list(gens[i]["acl"]) + [A.AclRule(lrng.choice(["legacy *", "legacy ~", "legacy k1"]))]
    return "legacy k1\nlegacy k2 x\n" if lrng.random() < 0.7 else "legacy k1\n"


def check_case(seed, acc, silent=False, ranked=False, negx=False, globx=False, oddx=False, bracev=False, noacl=False):
    from annet.generators import GeneratorError
    from annet.annlib.patching import AclNotExclusiveError, AclError
    from annet.vendors import registry_connector
    from vf import harness_gen as H
    vname, gens, rng = make_case(seed, silent, ranked, negx, globx, oddx, bracev, noacl)
    if noacl:
        acc.count("cases_with_a_generator_that_has_no_acl_method")
    if bracev:
        acc.count("cases_on_brace_syntax_vendors")
    if oddx:
        acc.count("cases_with_a_line_holding_an_unusual_separator_character")
    if globx:
        acc.count("cases_with_a_global_and_a_nested_local_rule_of_one_text")
    if negx:
        acc.count("cases_with_a_negated_line_owned_literally_and_through_its_positive_rule")
    if silent:
        acc.count("cases_with_a_silent_generator")
    if ranked:
        acc.count("cases_with_three_differently_written_rules")
    dev_text = add_legacy(seed, gens)
    if dev_text:
        acc.count("cases_with_device_rows_claimed_by_several_generators" if sum(1 for g in gens if any(r.pat.startswith("legacy") for r in g["acl"])) >= 2 else "cases_with_device_rows")
    v = registry_connector.get()[vname]
    prefix = v.reverse
    dev = H.FakeDevice(v.hardware)
    counter = [0]
    real = []
    texts = []
    for gi_, g in enumerate(gens):
        text = render_indented(g["acl"], rng)
        if (seed + gi_) % 5 == 0:
            # this generator's author indents with tabs, one per level
            text = re.sub(r"(?m)^((?:    )+)", lambda m_: "\t" * (len(m_.group(1)) // 4), text)
            acc.count("acl_texts_indented_with_tabs", 1 if "\n\t" in text else 0)
        texts.append(text)
        if g.get("no_acl_method"):
            text = None      # the class has run_<vendor> and no acl_<vendor> at all
        real.append(H.make_partial(g["name"], vname, text, make_run(g["program"], counter)))
    w = {"seed": seed, "silent": silent, "ranked": ranked, "negx": negx, "globx": globx, "oddx": oddx, "bracev": bracev, "noacl": noacl, "vendor": vname, "generators": [{"name": g["name"], "program": g["program"], "acl": A.render(g["acl"]), "acl_mode": g["mode"]} for g in gens]}
    exp = expected_outcome(gens, prefix)
    if exp[0] == "skip":
        acc.count("skipped_known_acl_mechanism")
        return None
    got = None
    try:
        res = H.old_new(dev, real, dev_text, no_acl_exclusive=False)
        if res.err is not None:
            raise res.err
        got = ("ok", plain(res.new))
    except GeneratorError as e:
        got = ("generator_error", repr(e.__cause__)[:200])
    except AclNotExclusiveError as e:
        got = ("not_exclusive", str(e)[:200])
    except Exception as e:
        got = ("exception", "%s: %s" % (type(e).__name__, str(e)[:200]))
    acc.count("runs")
    acc.count("tuple_yields_with_an_inline_list", sum(1 for g in gens for st in iter_stmts(g["program"]) if st[0] == "tl"))
    acc.count("tuple_yields_with_a_lazy_iterable", sum(1 for g in gens for st in iter_stmts(g["program"]) if st[0] == "tg"))
    acc.count("multi_line_yields_all_inside_the_first_line", sum(1 for g in gens for st in iter_stmts(g["program"]) if st[0] == "m" and all(d > 0 for d, _ in st[1][1:])))
    acc.count("comment_rows_yielded_inside_blocks", sum(g.get("comments", 0) for g in gens))
    acc.count("acl_comment_lines", sum(1 for t in texts for ln in t.split("\n") if ln.strip().startswith("#")))
    acc.count("rules_mentioning_interface_not_at_start", sum(1 for t in texts for ln in t.split("\n") if "-interface" in ln and not ln.strip().startswith("#")))
    acc.count("block_contexts_entered", counter[0])
    acc.count("outcome_" + exp[0])
    nested = any(len(p) > 1 for g in gens for p in g["paths"])
    acc.case([vname, w["generators"]], nontrivial=(len(gens) >= 2 or nested))
    w["expected"], w["got"] = list(exp)[:2], list(got)
    if got[0] != exp[0]:
        key = {("generator_error", "ok"): "C10/uncovered-line-not-refused", ("ok", "generator_error"): "C10/covered-line-refused",
               ("not_exclusive", "ok"): "C10/shared-deletable-line-not-reported", ("ok", "not_exclusive"): "C10/spurious-exclusivity-error"}.get((exp[0], got[0]),
              "C10/wrong-outcome-%s-instead-of-%s" % (got[0], exp[0]))
        acc.violation(key, "the run of a set of generators does not end the way the ACL containment / exclusivity rules say", w)
        return w
    if exp[0] == "ok" and got[1] != exp[1]:
        acc.violation("C10/new-is-not-the-union", "the desired configuration is not the union of the generators' outputs (each yielded line once, under the block path it was yielded in)",
                      dict(w, expected_tree=exp[1]))
        return w
    if exp[0] == "ok" and seed % 4 == 1:
        # generator objects live as long as the process and serve one device after the other: objects that first ran ANOTHER program (the
        # neighbouring generator's, possibly refused by their ACL) must give this device exactly what fresh objects give
        phase = {"n": 0}

        def switching(i):
            first = make_run(gens[(i + 1) % len(gens)]["program"] or [["y", "other k1"]], [0])
            second = make_run(gens[i]["program"], [0])

            def run(self, device):
                if phase["n"] == 0 and (seed // 4) % 2:
                    # the earlier run ends in the middle of a block: the generator finds out that the device is not one of its own
                    from annet.generators import NotSupportedDevice
                    with self.block("aborted", "run"):
                        yield "x 1"
                        with self.block("deeper"):
                            raise NotSupportedDevice("not this one")
                yield from (first if phase["n"] == 0 else second)(self, device)
            return run
        real3 = [H.make_partial(g["name"], vname, t, switching(i)) for i, (g, t) in enumerate(zip(gens, texts))]
        try:
            r0 = H.old_new(dev, real3, dev_text, no_acl_exclusive=True)
        except Exception:
            pass
        phase["n"] = 1
        try:
            res3 = H.old_new(dev, real3, dev_text, no_acl_exclusive=False)
            if res3.err is not None:
                raise res3.err
            got3 = ("ok", plain(res3.new))
        except Exception as e:
            got3 = ("exception", "%s: %s" % (type(e).__name__, str(e)[:200]))
        acc.count("reused_generator_object_runs")
        if (seed // 4) % 2:
            acc.count("reused_generator_objects_whose_earlier_run_ended_inside_a_block")
        if got3[0] != "ok" or got3[1] != exp[1]:
            acc.violation("C10/generator-objects-remember-an-earlier-run", "generator objects that served another device before do not give this device the union of what they yield now",
                          dict(w, reused=list(got3), expected_tree=exp[1]))
            return w
    if exp[0] == "ok" and seed % 3 == 0:
        # the same run with --annotate: every line carries where it was yielded; without the annotations it is the same configuration
        from annet.annlib.lib import strip_annotation
        real2 = [H.make_partial(g["name"], vname, t, make_run(g["program"], [0])) for g, t in zip(gens, texts)]

        def strip(tree):
            return [[strip_annotation(r), strip(c)] for r, c in tree]
        try:
            res2 = H.old_new(dev, real2, dev_text, no_acl_exclusive=False, add_annotations=True)
            if res2.err is not None:
                raise res2.err
            got2 = plain(res2.new)
        except Exception as e:
            acc.violation("C10/annotated-run-fails", "the run that succeeds plainly fails when annotations are requested", dict(w, error="%s: %s" % (type(e).__name__, str(e)[:200])))
            return w
        acc.count("annotated_runs")
        n_ann = sum(1 for r in c10_rows(got2) if strip_annotation(r) != r)
        acc.count("annotated_rows", n_ann)
        if strip(got2) != exp[1]:
            acc.violation("C10/annotated-run-differs", "with annotations requested the desired configuration (annotations removed) is not the union of the generators' outputs",
                          dict(w, expected_tree=exp[1], annotated_tree=got2))
    return w


def c10_rows(tree):
    for r, c in tree:
        yield r
        yield from c10_rows(c)


def run_shard(spec, acc):
    if spec["mode"] == "replay":
        check_case(spec["witness"]["seed"], acc, silent=bool(spec["witness"].get("silent")), ranked=bool(spec["witness"].get("ranked")), negx=bool(spec["witness"].get("negx")), globx=bool(spec["witness"].get("globx")), oddx=bool(spec["witness"].get("oddx")), bracev=bool(spec["witness"].get("bracev")), noacl=bool(spec["witness"].get("noacl")))
        return
    tier, k, n = spec["tier"], spec["shard"], spec["nshards"]
    total = 4000 if tier == "quick" else 80000
    rng = random.Random("C10/%s/%s" % (spec["seed"], k))
    for j in range(total // n):
        w = check_case(rng.randrange(1 << 48), acc)
        if j < 3 and w:
            acc.sample({k2: w[k2] for k2 in ("vendor", "generators", "expected")})
        if j % 5 == 1:
            check_case(rng.randrange(1 << 48), acc, silent=True)
        if j % 5 == 3:
            check_case(rng.randrange(1 << 48), acc, ranked=True)
        if j % 5 == 2:
            check_case(rng.randrange(1 << 48), acc, negx=True)
        if j % 5 == 0:
            check_case(rng.randrange(1 << 48), acc, globx=True)
        if j % 5 == 1:
            check_case(rng.randrange(1 << 48), acc, oddx=True)
        if j % 5 == 3:
            check_case(rng.randrange(1 << 48), acc, bracev=True)
        if j % 10 == 4:
            check_case(rng.randrange(1 << 48), acc, noacl=True)
