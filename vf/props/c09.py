"""C09 - the command stream sent at deploy is exactly the patch that was shown.

Relational monitors on real executions: lines of formatter.patch(pt) == (depth, last element) of formatter.cmd_paths(pt)
== (level, cmd) of the body of apply_deploy_rulebook's CommandList, body contiguous, wrapper obeys the session rules
(enter configuration mode first; no commit when committing is off; no save/write/copy when finalising is off);
per-command timeout/dialogs == those of the deploy rule chain matching the command path (R7) for generated deploy
rulebooks; and the production composition CliDeployerJob.parse_result sends what it shows.
"""
import os
import random
import re
from collections import OrderedDict as odict

from vf.gen import rb as G
from vf.ref import deploy as RDP
from vf.ref import rulebook as RB
from vf.util import plain
from vf.props import c01

LEVEL = "exploration"
RULE = ("PatchTrees from the real make_patch over generated rulebooks/tree pairs, synthetic PatchTrees (distinct sibling rows, depth<=4, repeated identical block "
        "headers under different parents, empty child blocks) and the fixture corpus with the shipped rulebooks; all block-structured vendors x hardware families "
        "(Huawei plain/CE/NE/Quidway, Cisco Catalyst/ASR/XRv/Nexus, Arista, Aruba, B4com incl. CS2148P, H3C, OptiXtrans) x (do_commit, do_finalize) in {0,1}^2; "
        "generated deploy rulebooks with disjoint sibling rules (nested and flat, %timeout, dialogs). Non-trivial: depth>=2 and >=1 block exit. "
        "Distinct: hash of (model, flags, patch text, deploy rulebook).")
ASSUMPTIONS = [
    "domain: sibling rows of a PatchTree are distinct and no row equals its block's exit word (cmd_paths is keyed by path); other trees are counted as skipped_duplicate_siblings, not judged",
    "wrapper rules: the first command of a non-empty prefix enters configuration mode; 'commit*' only with do_commit; save/write/copy only with do_finalize",
    "R7 (vf/ref/deploy.py) for rule chains; sibling deploy rules have disjoint languages; no %ifcontext in generated rulebooks",
]
FLOORS = {"quick": {"streams_compared": 3000, "commands_compared": 20000, "exits_seen": 3000, "rule_params_checked": 5000, "nondefault_params": 500, "production_jobs": 200, "cases_with_two_apply_logics": 100, "xpl_patches": 500, "xpl_endif_lines_shown": 500, "production_real_jobs": 12, "regexp_dialogs_checked": 200, "context_rulebooks": 400, "ifcontext_rules_matched": 300, "command_contexts_checked": 8000, "exit_contexts_checked": 2000, "commands_governed_by_one_of_two_same_row_rules": 300, "commands_with_a_prompt_listed_in_two_spellings": 300, "commands_with_a_fractional_timeout": 1000, "commands_with_a_multi_word_answer": 1000, "wrapper_command_params_checked": 3000, "provider_instances_served": 8},
          "thorough": {"streams_compared": 90000, "commands_compared": 600000, "exits_seen": 90000, "rule_params_checked": 150000, "nondefault_params": 15000, "production_jobs": 6000, "xpl_patches": 12000, "xpl_endif_lines_shown": 12000, "production_real_jobs": 12}}
MODELS = {
    "huawei": ["Huawei", "Huawei CE6870", "Huawei NE40E-X8", "Huawei Quidway S5300"],
    "h3c": ["H3C S6800"], "optixtrans": ["Huawei OptiXtrans DC908"],
    "cisco": ["Cisco Catalyst 2960"], "iosxr": ["Cisco ASR 9010", "Cisco XRv"], "nexus": ["Cisco Nexus 9316"],
    "arista": ["Arista DCS-7050"], "aruba": ["Aruba AP-505"], "b4com": ["B4com", "B4com B4T-CS2148P x"],
}
ENTER = {"system-view", "conf s", "configure exclusive", "conf t", "configure private"}


def plan(tier, seed):
    n = 8 if tier == "quick" else 16
    specs = [{"mode": "random", "tier": tier, "seed": seed, "shard": k, "nshards": n} for k in range(n)]
    specs.append({"mode": "corpus", "tier": tier, "seed": seed})
    return specs


def hw_of(model):
    from annet.annlib.netdev.views.hardware import HardwareView
    return HardwareView(model, "")


def synthetic_patch(rng, depth=0, maxdepth=4, used_headers=None):
    from annet.annlib.patching import PatchTree
    used_headers = used_headers if used_headers is not None else ["blk k1", "blk k2"]
    pt = PatchTree()
    seen = set()
    for _ in range(rng.randint(1, 4)):
        kind = rng.random()
        row = "%s %s" % (rng.choice(["w", "x", "y", "undo w", "no x"]), rng.choice(G.KEYS + G.EXTRA))
        if kind < 0.4 and depth < maxdepth:
            row = rng.choice(used_headers + ["hdr%d %s" % (depth, rng.choice(G.KEYS))])
        if row in seen:
            continue
        seen.add(row)
        if kind < 0.4 and depth < maxdepth:
            sub = synthetic_patch(rng, depth + 1, maxdepth, used_headers) if rng.random() < 0.85 else PatchTree()
            pt.add_block(row, sub)
        else:
            pt.add(row, {})
    return pt


EXIT_VENDORS = {"huawei": "quit", "h3c": "quit", "cisco": "exit", "nexus": "exit", "iosxr": "exit", "arista": "exit", "aruba": "exit", "b4com": "exit"}
WRAP = ENTER | {"commit", "q", "save", "write memory", "exit", "abort", "copy running-config startup-config", "end", "commit apply", "write", "save force"}


def own_walk(pt, vname, depth=0):
    """what the statement says the stream is: every command once, in order, at its depth, each block closed by the vendor's exit word"""
    out = []
    for it in pt.itms:
        out.append((depth, str(it.row)))
        if it.child is not None:
            out += own_walk(it.child, vname, depth + 1)
            if vname in EXIT_VENDORS:
                out.append((depth + 1, EXIT_VENDORS[vname]))
    return out


def has_dup(pt, exits):
    rows = [str(i.row) for i in pt.itms]
    if len(rows) != len(set(rows)):
        return True
    for i in pt.itms:
        if i.child is not None:
            if any(str(c.row) in exits for c in i.child.itms) or has_dup(i.child, exits):
                return True
    return False


def gen_deploy_rules(rng, rules, prefix, flat_pool, depth=0, ctx=False):
    """deploy rules [(pattern, attrs, children)] over the patching vocabulary; some child patterns are hoisted to the top level (flat style)"""
    out = []
    for r in rules:
        if r.pat == "~" or r.ignore or rng.random() < 0.4:
            continue
        for pat in ([r.pat] + ([prefix + " " + r.pat] if rng.random() < 0.6 else [])):
            attrs = {"apply": (rng.random() < 0.25), "timeout": float(rng.randint(31, 99)) + rng.choice([0, 0, 0.5, 0.25]),  # (%timeout is a float >= 1)
                     # plain-text prompts and /regexp/ prompts (the latter are matched as regular expressions by the driver)
                     # (prompts may hold a literal percent sign, as IOS error prompts do: it is not a parameter unless `%name` follows a blank)
                     "dialogs": [(rng.choice(["/Q%d %s.*/", "/Q%d %s.*/", "Q%d %s?", "Q%d %s?", "Q%d %s?", "%% Q%d do you %s? [yes/no]:", "Q%d 100%% %s?"]) % (rng.randint(1, 99), w), rng.choice(["Y", "Y", "yes", "Authorized access only", "y n"]))
                                 for w in rng.sample(["sure", "really", "continue"], rng.randint(0, 2))]}
            plain_d = [d_ for d_ in attrs["dialogs"] if not d_[0].startswith("/")]
            if plain_d and rng.random() < 0.25:
                # the same prompt once more in another spelling (blanks, letter case) with an answer of its own, as the shipped huawei `save` rule
                # lists `...continue?[Y/N]` and `...continue? [Y/N]`: every listed dialog stays with the command
                q_, a_ = rng.choice(plain_d)
                q2 = rng.choice([q_.upper(), q_.replace("?", " ?"), q_.title()])  # (runs of blanks are one blank to the rule reader: not a different line)
                if q2 != q_ and all(q2 != d_[0] for d_ in attrs["dialogs"]):
                    attrs["dialogs"].append((q2, "N"))
                    attrs["respelled"] = True
            twin = None
            if ctx and rng.random() < 0.5:
                attrs["ifcontext"] = rng.sample(["block:cA", "block:cB", "block:cC"], rng.randint(1, 2))
                if rng.random() < 0.5:
                    # a sibling rule with the same row text for the other contexts (as one would extend aruba.deploy): other timeout and dialogs
                    rest = [c for c in ["block:cA", "block:cB", "block:cC", "block:cD"] if c not in attrs["ifcontext"]]
                    twin = (pat, {"apply": False, "timeout": float(rng.randint(100, 140)), "dialogs": [("Q%d twin?" % rng.randint(1, 99), "N")],
                                  "ifcontext": rng.sample(rest, rng.randint(1, len(rest))), "twin": True}, [])
            children = []
            if r.children and not pat.startswith(prefix + " "):
                if rng.random() < 0.5:
                    children = gen_deploy_rules(rng, r.children, prefix, flat_pool, depth + 1, ctx)
                else:
                    flat_pool.extend(gen_deploy_rules(rng, r.children, prefix, flat_pool, depth + 1, ctx))
            if twin is not None and rng.random() < 0.5:
                out.append(twin)  # before or after the rule it accompanies
                twin = None
            out.append((pat, attrs, children))
            if twin is not None:
                out.append(twin)
    return out


def render_deploy(rules, ind=0):
    out = []
    for pat, attrs, ch in rules:
        out.append(" " * ind + pat + "  %%timeout=%g" % attrs["timeout"] + ("  %apply_logic=aruba.ap_env.apply" if attrs.get("apply") else "")
                   + ("  %%ifcontext=%s" % ",".join(attrs["ifcontext"]) if attrs.get("ifcontext") else ""))
        for q, a in attrs["dialogs"]:
            out.append(" " * (ind + 4) + "dialog: %s ::: %s" % (q, a))
        out.extend(render_deploy(ch, ind + 4))
    return out


def dedupe_first_words(rules):
    """keep sibling languages disjoint: one rule per distinct pattern"""
    seen, out = {}, []
    for pat, attrs, ch in rules:
        if pat in seen:
            # the only admitted repetition: two rules of one row text with disjoint %ifcontext lists
            first = seen[pat]
            if not (len(first) == 1 and first[0].get("ifcontext") and attrs.get("ifcontext") and not set(first[0]["ifcontext"]) & set(attrs["ifcontext"])
                    and (attrs.get("twin") or first[0].get("twin"))):
                continue
        seen.setdefault(pat, []).append(attrs)
        out.append((pat, attrs, dedupe_first_words(ch)))
    return out


def check_stream(pt, model, vname, flags, acc, w, deploy_rules=None, deploy_compiled=None):
    """the three views of one PatchTree must agree; returns False if judged violating"""
    import annet.deploy as AD
    from annet.vendors import registry_connector
    hw = hw_of(model)
    v = registry_connector.get()[vname]
    fmt = v.make_formatter()
    exits = {v.exit} | c01.EXIT_EXTRA
    if has_dup(pt, exits):
        acc.count("skipped_duplicate_siblings")
        return True
    do_commit, do_finalize = flags
    try:
        text = fmt.patch(pt)
        paths = fmt.cmd_paths(pt)
    except Exception as e:
        acc.violation("C09/formatter-exception/%s" % type(e).__name__, "rendering / flattening the patch raised", dict(w, error=repr(e)[:300]))
        return False
    shown = []
    for ln in text.split("\n") if text else []:
        ind = len(ln) - len(ln.lstrip(" "))
        shown.append((ind // len(fmt._indent), ln.strip()))
    flat = [(len(p) - 1, p[-1]) for p in paths]
    ctx_of = w.get("_ctx_of")
    twins = w.get("_twins", ())
    w = dict({k_: v_ for k_, v_ in w.items() if not k_.startswith("_")}, model=model, flags=list(flags), shown=[list(x) for x in shown][:80])
    acc.count("streams_compared")
    acc.count("commands_compared", len(flat))
    acc.count("exits_seen", sum(1 for d, c in flat if c in exits))
    if w.get("generated") and flat != own_walk(pt, vname):
        acc.violation("C09/stream-is-not-the-patch-tree", "the flattened stream is not: every command of the patch once, in order, at its depth, each block closed by the exit word",
                      dict(w, cmd_paths=[list(x) for x in flat][:80], expected=[list(x) for x in own_walk(pt, vname)][:80]))
        return False
    if shown != flat:
        acc.violation("C09/cmd_paths-differ-from-shown-patch", "the flattened command paths are not the lines of the displayed patch (order, depth or block exits)",
                      dict(w, cmd_paths=[list(x) for x in flat][:80]))
        return False
    orig = AD.get_rulebook
    if deploy_compiled is not None:
        AD.get_rulebook = lambda _hw: {"deploying": deploy_compiled}
    try:
        cl = AD.apply_deploy_rulebook(hw, paths, do_finalize=do_finalize, do_commit=do_commit)
    except Exception as e:
        acc.violation("C09/apply_deploy_rulebook-exception/%s" % type(e).__name__, "apply_deploy_rulebook raised", dict(w, error=repr(e)[:300]))
        return False
    finally:
        AD.get_rulebook = orig
    cmds = list(cl)
    stream = [(getattr(c, "level", None), c.cmd) for c in cmds]
    # the body: the displayed commands appear in the sent stream in the same order at the same depth; everything else is session wrapper
    custom_apply = bool(w.get("custom_apply")) or vname == "aruba"
    n = len(flat)
    ptr, body_idx, extra = 0, [], []
    for i, item in enumerate(stream):
        if ptr < n and item == flat[ptr]:
            ptr += 1
            body_idx.append(i)
        else:
            extra.append(item)
    if ptr != n:
        acc.violation("C09/sent-stream-differs-from-patch", "the commands handed to the deploy driver do not contain the displayed patch in the same order and depth",
                      dict(w, sent=[list(x) for x in stream][:80], first_missing=list(flat[ptr])))
        return False
    bad_extra = [x for x in extra if x[0] != 0 or x[1] not in WRAP]
    if bad_extra:
        acc.violation("C09/unknown-extra-command-sent", "a command that is neither part of the displayed patch nor a session wrapper command is sent",
                      dict(w, extra=[list(x) for x in bad_extra][:10], sent=[list(x) for x in stream][:80]))
        return False
    start = body_idx[0] if body_idx else 0
    if not custom_apply and n and body_idx[-1] - body_idx[0] != n - 1:
        acc.violation("C09/body-not-contiguous", "wrapper commands are sent in the middle of the patch although all commands share one session wrapper",
                      dict(w, sent=[list(x) for x in stream][:80]))
        return False
    before = stream[:start]
    wrap = [c for lvl, c in extra]
    if n and before and before[0][1] not in ENTER and not before[0][1].startswith("etckeeper"):
        acc.violation("C09/wrapper-does-not-enter-config-mode", "the first command sent does not enter configuration mode", dict(w, before=before))
        return False
    if not do_commit and any(re.match(r"commit\b", c) for c in wrap):
        acc.violation("C09/commit-sent-although-disabled", "committing is disabled but a commit command is sent", dict(w, wrapper=wrap))
        return False
    if not custom_apply and not do_finalize and any(re.match(r"(save|write|copy running-config)\b", c) for c in wrap):
        acc.violation("C09/save-sent-although-disabled", "finalising is disabled but a save/write command is sent", dict(w, wrapper=wrap))
        return False
    if not custom_apply and do_commit and vname in ("arista", "iosxr") and n and not any(re.match(r"commit\b", c) for c in wrap):
        acc.violation("C09/commit-missing", "committing is enabled on a commit-based platform but no commit is sent", dict(w, wrapper=wrap))
        return False
    cmds_body = [cmds[i] for i in body_idx]
    # per command parameters
    if deploy_rules is not None:
        for p, c in zip(paths, cmds_body):
            real_ctx = dict(paths[p] or {})
            if ctx_of is not None:
                if p[-1] in exits and len(p) >= 2:
                    # the exit of a block: its context must be one carried by a command of the block it closes (header included)
                    own = [dict(paths[q] or {}) for q in paths if q[:len(p) - 1] == p[:-1] and q is not p]
                    acc.count("exit_contexts_checked")
                    if real_ctx not in own:
                        acc.violation("C09/exit-context-from-another-block", "the exit command of a block carries a %context that no command of that block carries",
                                      dict(w, path=list(p), got=real_ctx, block_contexts=own[:10]))
                        return False
                else:
                    want = ctx_of(p)
                    if want is not None:
                        acc.count("command_contexts_checked")
                        if real_ctx not in want:
                            acc.violation("C09/command-context-differs", "a command does not carry the %context of the rulebook section its rule is written in",
                                          dict(w, path=list(p), expected=want, got=real_ctx))
                            return False
            exp = RDP.find(deploy_rules, p, real_ctx)
            if exp and exp[1].get("ifcontext"):
                acc.count("ifcontext_rules_matched")
                if exp[0] in twins:
                    acc.count("commands_governed_by_one_of_two_same_row_rules")
            et = exp[1]["timeout"] if exp else 30
            eq = [((q[1:-1], a, True) if (q.startswith("/") and q.endswith("/")) else (q, a, False)) for q, a in exp[1]["dialogs"]] if exp else []
            gq = [(q.question, q.answer, bool(q.is_regexp)) for q in (c.questions or [])]
            acc.count("regexp_dialogs_checked", sum(1 for x in eq if x[2]))
            acc.count("rule_params_checked")
            if exp:
                acc.count("nondefault_params")
                if exp[1].get("respelled"):
                    acc.count("commands_with_a_prompt_listed_in_two_spellings")
                if float(et) != int(et):
                    acc.count("commands_with_a_fractional_timeout")
                if any(" " in a_ for _, a_, _ in eq):
                    acc.count("commands_with_a_multi_word_answer")
            if float(c.timeout) != float(et) or gq != eq:
                acc.violation("C09/wrong-deploy-rule-parameters", "a command does not carry the timeout/dialog answers of the deploy rule chain matching its block path (or the defaults)",
                              dict(w, path=list(p), expected=[et, eq], got=[c.timeout, gq], deploy_rulebook=w.get("deploy_rulebook")))
                return False
        # the session wrapper commands (save, commit ...) are commands too: the rule matching them, or the defaults
        body_set = set(body_idx)
        for i, c in enumerate(cmds):
            if i in body_set:
                continue
            exp = RDP.find(deploy_rules, (c.cmd,), {})
            et = exp[1]["timeout"] if exp else 30
            eq = [((q[1:-1], a, True) if (q.startswith("/") and q.endswith("/")) else (q, a, False)) for q, a in exp[1]["dialogs"]] if exp else []
            gq = [(q.question, q.answer, bool(q.is_regexp)) for q in (c.questions or [])]
            acc.count("wrapper_command_params_checked")
            if c.timeout is None or float(c.timeout) != float(et) or gq != eq:
                acc.violation("C09/wrong-deploy-rule-parameters", "a command does not carry the timeout/dialog answers of the deploy rule chain matching its block path (or the defaults)",
                              dict(w, wrapper_command=c.cmd, expected=[et, eq], got=[c.timeout, gq], deploy_rulebook=w.get("deploy_rulebook")))
                return False
    return True


def check_case(seed, acc, ctx=False):
    from annet.api import _diff_and_patch
    from annet.rulebook.deploying import compile_deploying_text
    rng = random.Random(seed)
    vname = rng.choice(list(MODELS))
    model = rng.choice(MODELS[vname])
    v, prefix, exitw, hw, fmt = c01.vendor_env(vname)
    w = {"seed": seed, "ctx": ctx, "vendor": vname, "generated": True}
    kind = rng.random()
    if ctx:
        kind = 0.0
    deploy_rules = compiled = None
    if kind < 0.7:
        rules = G.gen_rulebook(rng, depth=3, prefix=prefix, allow=("global", "catchall", "ordered"))
        text = RB.render(rules)
        if ctx:
            # %context sections of the patching rulebook: every command carries the context of the rule that produced it, and
            # deploy rules may be restricted to several contexts at once (%ifcontext=block:a,block:b)
            lines, crng = [], random.Random(seed ^ 0xC7)
            cur, top_i, ctx_by_rule = {}, 0, {}
            pool_ctx = ["cA", "cB", "cC", "cD"]
            for ln in text.split("\n"):
                if ln and not ln.startswith(" "):
                    if crng.random() < 0.6 and pool_ctx:
                        # each directive value once per rulebook, as in the shipped rulebooks: the rulebook reader keys rows by their text,
                        # so a repeated identical directive line is taken at the place of its first occurrence (outside C09, see DESIGN §8)
                        cur = {"block": pool_ctx.pop(crng.randrange(len(pool_ctx)))}
                        lines.append("%%context=block:%s" % cur["block"])
                    ctx_by_rule[id(rules[top_i])] = dict(cur)  # the section a top-level rule (and everything below it) is written in
                    top_i += 1
                lines.append(ln)
            text = "\n".join(lines)
            all_rules = []

            def spread(r, c):
                ctx_by_rule[id(r)] = c
                all_rules.append(r)
                for ch in r.children:
                    spread(ch, c)
            for r in rules:
                spread(r, ctx_by_rule[id(r)])
            l0, g0 = RB.split_level(rules)

            def ctx_of(path):
                """contexts the rule governing the last row of `path` may be written in: a set (the last row may be the removal of a
                row or a row that itself starts with the negation word), or None when the reference cannot tell"""
                l, g = l0, g0
                for row in path[:-1]:
                    s_ = RB.select(row, l, g)
                    if s_ is None:
                        return None
                    l, g = s_[2], s_[3]
                last, cands = path[-1], []
                for row in ([last[len(prefix) + 1:]] if last.startswith(prefix + " ") else []) + [last]:
                    s_ = RB.select(row, l, g)
                    if s_ is not None:
                        cands.append(ctx_by_rule[id(s_[0])])
                        if s_[0].glob:  # the same %global rule text written in several sections: which copy is in force below is not C09's business
                            cands.extend(ctx_by_rule[id(r)] for r in all_rules if r.glob and r.raw() == s_[0].raw())
                return cands or None
            w["_ctx_of"] = ctx_of
            acc.count("context_rulebooks")
        old = G.gen_tree(rng, rules)
        new = G.mutate_tree(rng, old, rules, rate=0.6) if rng.random() < 0.7 else G.gen_tree(rng, rules)
        try:
            rb = c01.compile_rb(text, vname)
            _, pt = _diff_and_patch(c01.Dev(hw_of(model)), old, new, None, None, False, rb=rb)
        except Exception as e:
            acc.violation("C09/exception/%s" % type(e).__name__, "patch computation raised", dict(w, error=repr(e)[:300]))
            return None
        flat_pool = []
        dr = gen_deploy_rules(rng, rules, prefix, flat_pool, 0, ctx)
        deploy_rules = dedupe_first_words(dr + flat_pool)

        def twin_pats(level):
            pats = [p_ for p_, _, _ in level]
            return {p_ for p_ in pats if pats.count(p_) > 1} | {x for _, _, ch_ in level for x in twin_pats(ch_)}
        w["_twins"] = twin_pats(deploy_rules)
        dtext = "\n".join(render_deploy(deploy_rules))
        w["deploy_rulebook"] = dtext
        w["custom_apply"] = "apply_logic" in dtext
        if w["custom_apply"]:
            acc.count("cases_with_two_apply_logics")
        compiled = compile_deploying_text(dtext, vname)
    else:
        pt = synthetic_patch(rng)
    shown = fmt.patch(pt)
    depth2 = any(len(p) >= 2 for p in fmt.cmd_paths(pt))
    acc.case([model, shown, w.get("deploy_rulebook")], nontrivial=depth2)
    for flags in [(True, True), (True, False), (False, True), (False, False)]:
        if not check_stream(pt, model, vname, flags, acc, w, deploy_rules, compiled):
            break
    if rng.random() < 0.12:
        check_production(rng, pt, model, vname, acc, w)
    w["patch"] = shown.split("\n")[:40]
    return w


FORCE_COMMIT_PAIRS = [
    # the shipped huawei bgp logic marks the removal of the BGP process as needing its own commit
    ("Huawei CE6870", "bgp 65000\n peer 1.1.1.1 as-number 1\n", "bgp 65001\n peer 2.2.2.2 as-number 2\n"),
    ("Huawei CE6870", "bgp 65000\n peer 1.1.1.1 as-number 1\nsysname a\n", "sysname b\n"),
    ("Huawei NE40E-X8", "bgp 100\n peer 1.1.1.1 as-number 1\n", "bgp 200\n peer 2.2.2.2 as-number 2\n"),
    ("Huawei Quidway S5300", "bgp 100\n peer 1.1.1.1 as-number 1\n", ""),
    ("Huawei CE6870", "sysname a\n", "sysname b\n"),
    ("Cisco ASR 9010", "hostname a\n", "hostname b\n"),
    ("Arista DCS-7050", "hostname a\n", "hostname b\n"),
]


def check_production_real(acc):
    """CliDeployerJob.parse_result with the real _diff_and_patch and the shipped rulebooks, committing enabled and disabled"""
    import types
    import annet.deploy as AD
    import annet.api as API
    from annet import tabparser
    from annet.types import OldNewResult
    from annet.vendors import registry_connector
    from vf import harness_gen as H
    for model, old_t, new_t in FORCE_COMMIT_PAIRS:
        hw = hw_of(model)
        fmt = registry_connector.get().match(hw).make_formatter()
        for dont_commit in (False, True):
            device = H.FakeDevice(hw)
            old, new = tabparser.parse_to_tree(old_t, fmt.split), tabparser.parse_to_tree(new_t, fmt.split)
            w = {"production_real": True, "model": model, "old": old_t, "new": new_t, "dont_commit": dont_commit}
            orig_gd = AD.get_deployer
            AD.get_deployer = lambda: _Driver()
            try:
                job = API.CliDeployerJob(device, types.SimpleNamespace(acl_safe=False, dont_commit=dont_commit))
                job.parse_result(OldNewResult(device=device, old=old, new=new))
            except Exception as e:
                acc.violation("C09/production-exception/%s" % type(e).__name__, "CliDeployerJob.parse_result raised", dict(w, error=repr(e)[:300]))
                continue
            finally:
                AD.get_deployer = orig_gd
            acc.count("production_real_jobs")
            shown = [ln for ln in job.cmd_lines[2:] if ln != ""]
            sent = [c.cmd for c in job.deploy_cmds.get(device, [])]
            acc.case(["production-real", model, old_t, new_t, dont_commit], nontrivial=len(shown) >= 2)
            k = len(shown)
            if k and not any(sent[s:s + k] == shown for s in range(len(sent) - k + 1)):
                acc.violation("C09/production-sends-other-commands", "the deploy job hands the driver a command list that does not contain the shown patch as one run", dict(w, sent=sent[:80], shown=shown[:60]))
                continue
            if dont_commit and any(re.match(r"commit\b", c) for c in sent):
                acc.violation("C09/commit-sent-although-disabled", "committing is disabled (dont_commit) but the deploy job sends a commit command", dict(w, sent=sent[:80]))


KNOWN_ENDIF = "C09/huawei-xpl/second-endif-of-a-route-filter-shown-but-not-sent"
WHAT_ENDIF = ("cmd_paths is a mapping keyed by command path: a Huawei XPL route-filter whose `else` block is followed by a last if/elseif chain is "
              "displayed with two `endif` lines, but both have the path (xpl route-filter X, endif) and only the first is sent")


def gen_route_filter(rng, name):
    """rows of one `xpl route-filter`: 1-3 if-chains; at most one `else` per filter (sibling rows are distinct)"""
    rows = []
    conds = rng.sample(["community matches-any C%d" % i for i in range(1, 9)], 6)
    else_used = False
    for c in range(rng.randint(1, 3)):
        rows.append(["if %s then" % conds.pop(), [["apply local-preference %d" % rng.randint(1, 400), []]]])
        for _ in range(rng.randint(0, 1)):
            rows.append(["elseif %s then" % conds.pop(), [[rng.choice(["approve", "refuse", "apply med 5"]), []]]])
        if not else_used and rng.random() < 0.4:
            rows.append(["else", [[rng.choice(["approve", "refuse"]), []]]])
            else_used = True
    return ["xpl route-filter %s" % name, rows]


def check_xpl(seed, acc):
    """Huawei XPL route-filters (end-filter / endif are produced by the formatter's block exits, several of them under one parent)"""
    from annet.api import _diff_and_patch
    from vf.util import unplain
    rng = random.Random(seed)
    vname = rng.choice(["huawei", "huawei", "h3c"])
    model = rng.choice(MODELS[vname])
    v, prefix, exitw, hw, fmt = c01.vendor_env(vname)
    filters = [gen_route_filter(rng, "RF%d" % i) for i in range(rng.randint(1, 3))]
    new = filters + [["xpl community-list CL1", [["100:1", []]]]] * (rng.random() < 0.4)
    old = [] if rng.random() < 0.6 else [gen_route_filter(rng, "RF0")] + filters[:1]
    w = {"seed": seed, "xpl": True, "vendor": vname, "model": model, "old": old, "new": new}
    try:
        _, pt = _diff_and_patch(c01.Dev(hw_of(model)), unplain(old), unplain(new), None, None, False)
        text = fmt.patch(pt)
        paths = list(fmt.cmd_paths(pt))
    except Exception as e:
        acc.violation("C09/exception/%s" % type(e).__name__, "patch computation raised", dict(w, error=repr(e)[:300]))
        return None
    acc.count("xpl_patches")
    shown, stack = [], []
    for ln in text.split("\n") if text else []:
        d = (len(ln) - len(ln.lstrip(" "))) // len(fmt._indent)
        stack[d:] = [ln.strip()]
        shown.append(tuple(stack))
    acc.count("xpl_endif_lines_shown", sum(1 for p in shown if p[-1] == "endif"))
    acc.case(["xpl", model, text], nontrivial=len(shown) >= 4)
    w["shown"] = [list(p) for p in shown][:80]
    if shown == [tuple(p) for p in paths]:
        for flags in [(True, True), (False, False)]:
            if not check_stream(pt, model, vname, flags, acc, dict(w, xpl_checked=True)):
                break
        return w
    # which filters lose a line?
    dedup = []
    for p in shown:
        if p not in dedup:
            dedup.append(p)
    lost = [p for i, p in enumerate(shown) if p in shown[:i]]
    known = dedup == [tuple(p) for p in paths] and all(p[-1] == "endif" for p in lost)
    if known:
        for p in lost:
            rows = next((ch for r, ch in new if r == p[0]), None)
            n_shown = sum(1 for q in shown if q == p)
            in_class = (rows is not None and any(r == "else" for r, _ in rows) and rows[-1][0] != "else" and rows[-1][0].endswith("then") and n_shown == 2)
            if not in_class:
                known = False
    if known:
        acc.violation(KNOWN_ENDIF, WHAT_ENDIF, dict(w, cmd_paths=[list(p) for p in paths][:80]))
    else:
        acc.violation("C09/cmd_paths-differ-from-shown-patch", "the flattened command paths are not the lines of the displayed patch (order, depth or block exits)",
                      dict(w, cmd_paths=[list(p) for p in paths][:80]))
    return w


class _Driver:
    def apply_deploy_rulebook(self, hw, cmd_paths, do_finalize=True, do_commit=True):
        import annet.deploy as AD
        return AD.apply_deploy_rulebook(hw, cmd_paths, do_finalize=do_finalize, do_commit=do_commit)

    def build_exit_cmdlist(self, hw):
        from annet.annlib.command import CommandList
        return CommandList()

    def build_configuration_cmdlist(self, hw, do_finalize=True, do_commit=True):
        from annet.annlib.command import CommandList
        return CommandList(), CommandList()


def check_production(rng, pt, model, vname, acc, w):
    """CliDeployerJob.parse_result: the commands it shows (cmd_lines) vs the commands it hands to the driver"""
    import types
    import annet.deploy as AD
    import annet.api as API
    from annet.types import OldNewResult
    from vf import harness_gen as H
    v, prefix, exitw, hw, fmt = c01.vendor_env(vname)
    exits = {exitw} | c01.EXIT_EXTRA
    if has_dup(pt, exits):
        return
    dont_commit = rng.random() < 0.5
    device = H.FakeDevice(hw_of(model))
    orig_dp, orig_gd = API._diff_and_patch, AD.get_deployer
    API._diff_and_patch = lambda *a, **k: ([("x", "x", [], None)], pt)
    AD.get_deployer = lambda: _Driver()
    try:
        job = API.CliDeployerJob(device, types.SimpleNamespace(acl_safe=False, dont_commit=dont_commit))
        job.parse_result(OldNewResult(device=device, old=odict(), new=odict()))
    except Exception as e:
        acc.violation("C09/production-exception/%s" % type(e).__name__, "CliDeployerJob.parse_result raised", dict(w, error=repr(e)[:300]))
        return
    finally:
        API._diff_and_patch, AD.get_deployer = orig_dp, orig_gd
    acc.count("production_jobs")
    shown = [ln for ln in job.cmd_lines[2:] if ln != ""]
    sent = [c.cmd for c in job.deploy_cmds.get(device, [])]
    flat = [p[-1] for p in fmt.cmd_paths(pt)]
    if shown != flat:
        acc.violation("C09/production-shows-other-commands", "the command list shown by the deploy job is not the patch", dict(w, shown=shown[:60], patch=flat[:60]))
        return
    k = len(flat)
    if k and not any(sent[s:s + k] == flat for s in range(len(sent) - k + 1)):
        acc.violation("C09/production-sends-other-commands", "the deploy job hands the driver a command list that does not contain the shown patch as one run", dict(w, sent=sent[:80], patch=flat[:60]))
        return
    if dont_commit and any(re.match(r"commit\b", c) for c in sent if c not in flat):
        acc.violation("C09/commit-sent-although-disabled", "committing is disabled (dont_commit) but the deploy job sends a commit command", dict(w, model=model, sent=sent[:80]))


def check_two_providers(acc):
    """several rulebook providers in one process (another directory list each, as after a connector reset): each serves the deploy rules of its own
    directories, also for a hardware model another provider has served before"""
    import shutil
    import tempfile
    import annet.deploy as AD
    from annet.rulebook import DefaultRulebookProvider
    from annet.annlib.patching import PatchTree
    stock = DefaultRulebookProvider.root_dir[0]
    d = tempfile.mkdtemp(prefix="vf_c09p_")
    orig = AD.get_rulebook
    try:
        texts = []
        for i, (t1, t2) in enumerate([(41, 42), (51, 52), (61, 62)]):
            di = os.path.join(d, "site%d" % i, "texts")
            os.makedirs(di)
            txt = ("# site %d\nsysname *  %%timeout=%d\n    dialog: Q%d sure? ::: Y\n    # (a comment line)\n    dialog: Port #%d is busy, go on? ::: N\ninterface *  %%timeout=%d\n    description ~  %%timeout=%d\n"
                   % (i, t1, i, i, t2, t2 + 100))
            if i == 1:
                txt = txt.replace("\n    ", "\n\t")       # this site indents its rule texts with tabs
            open(os.path.join(di, "huawei.deploy"), "w").write(txt)
            roots = (os.path.dirname(di), stock)
            if i == 2:
                # a self-sufficient site directory: its own copy of the patching rules, its deploy rules, and no ordering text at all
                shutil.copy(os.path.join(stock, "texts", "huawei.rul"), os.path.join(di, "huawei.rul"))
                roots = (os.path.dirname(di),)
            texts.append((roots, t1, t2, i))
        pt = PatchTree()
        pt.add("sysname a", {})
        blk = PatchTree()
        blk.add("description x", {})
        pt.add_block("interface 10GE1/0/1", blk, {})
        for model in ("Huawei CE6870", "Huawei NE40E-X8"):
            hw = hw_of(model)
            from annet.vendors import registry_connector
            paths = registry_connector.get().match(hw).make_formatter().cmd_paths(pt)
            for site, t1, t2, i in texts + texts[:1]:
                prov = DefaultRulebookProvider(root_dir=site)
                AD.get_rulebook = prov.get_rulebook
                cl = list(AD.apply_deploy_rulebook(hw, paths, do_finalize=False, do_commit=False))
                got = {c.cmd: (float(c.timeout), [q.question for q in (c.questions or [])]) for c in cl}
                want = {"sysname a": (float(t1), ["Q%d sure?" % i, "Port #%d is busy, go on?" % i]), "interface 10GE1/0/1": (float(t2), []), "description x": (float(t2 + 100), [])}
                acc.count("provider_instances_served")
                acc.case(["providers", model, i], nontrivial=True)
                if any(got.get(k) != v_ for k, v_ in want.items()):
                    acc.violation("C09/deploy-rules-not-those-of-the-providers-directories", "a provider does not hand out the deploy rules (timeouts, dialogs) written in its own rulebook directories",
                                  {"providers": True, "model": model, "site": i, "expected": {k: list(v_) for k, v_ in want.items()}, "got": {k: list(got.get(k) or []) for k in want}})
                    return
    finally:
        AD.get_rulebook = orig
        shutil.rmtree(d, ignore_errors=True)


def run_corpus(spec, acc):
    from vf import corpus
    check_production_real(acc)
    check_two_providers(acc)
    from annet.api import _diff_and_patch
    from annet.vendors import registry_connector
    for s in corpus.patch_samples():
        try:
            hw, old, new = corpus.sample_configs(s)
            _, pt = _diff_and_patch(c01.Dev(hw), old, new, None, None, False)
        except Exception:
            acc.count("corpus_skipped_exception")
            continue
        vname = registry_connector.get().match(hw).NAME
        if vname not in MODELS:
            continue
        acc.count("corpus_patches")
        for flags in [(True, True), (False, False)]:
            if not check_stream(pt, hw.model, vname, flags, acc, {"sample": s[0], "vendor": vname, "corpus": True}):
                break
        acc.case(["corpus", s[0]], nontrivial=True)


def run_shard(spec, acc):
    if spec["mode"] == "replay":
        w = spec["witness"]
        if w.get("corpus") or w.get("production_real") or w.get("providers"):
            run_corpus(spec, acc)
        elif w.get("xpl"):
            check_xpl(w["seed"], acc)
        else:
            check_case(w["seed"], acc, ctx=bool(w.get("ctx")))
        return
    if spec["mode"] == "corpus":
        return run_corpus(spec, acc)
    tier, k, n = spec["tier"], spec["shard"], spec["nshards"]
    total = 4800 if tier == "quick" else 60000
    rng = random.Random("C09/%s/%s" % (spec["seed"], k))
    for j in range(total // n):
        w = check_case(rng.randrange(1 << 48), acc)
        if j < 2 and w:
            acc.sample({k2: w.get(k2) for k2 in ("vendor", "patch", "deploy_rulebook")})
        if j % 4 == 3:
            check_xpl(rng.randrange(1 << 48), acc)
        if j % 4 == 1:
            check_case(rng.randrange(1 << 48), acc, ctx=True)
