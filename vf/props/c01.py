"""C01 - deploying the patch makes the diff empty (convergence).

The real `_diff_and_patch` produces the patch; `formatter.cmd_paths` flattens it; the command paths are executed, in
order, by the reference device simulator (R4, vf/ref/device.py, driven by the reference rule selection R2) started at
`old`. Oracles: the simulator state equals the desired configuration (per (rule,key), ordered where the rulebook says
so, with the two documented freezing logics), and the real code's second diff and second patch on that state are empty;
repeated along chains of desired configurations.
"""
import itertools
import random
import re
from collections import OrderedDict as odict

from vf.gen import rb as G
from vf.ref import device as D
from vf.ref import rulebook as RB
from vf.ref import rulelang as R
from vf.util import plain, unplain

LEVEL = "exploration"
RULE = ("random rulebooks (literal words, *, ~, nesting<=3, %global incl. catch-all, %ordered, %rewrite-children blocks, "
        "undo_redo/permanent/ignore_changes, rules written in negated form) x every block-CLI vendor's negation/exit words, and flat rulebooks (fixed-width block rows, no catch-alls/%rewrite/negated-form) x the Junos-like vendors juniper, ribbon, nokia (flattened set/delete statements) x "
        "chains new_1..new_k (k<=4 quick, <=8 thorough) of trees instantiating the rules with <=1 row per (rule,key), new trees both "
        "derived from the device state by random edits and generated independently; plus an exhaustive scope: one fixed rulebook "
        "(block rule with two child rules + a leaf rule), all 117 trees with <=1 row per key, all ordered pairs. Non-trivial: "
        "old != new and the patch has >=1 command. Distinct: hash of (vendor, rulebook text, old, new).")
ASSUMPTIONS = [
    "device model R4: one line per (rule,key); set replaces in place or appends; negated command removes the subtree; re-entering a block whose children are %rewrite drops them; exit words are no-ops",
    "rows of block rules, of %ordered rules and of permanent rules instantiate the rule exactly (no trailing words: same key => same text), other leaf rows may carry trailing words (same key, new text)",
    "at most one %ordered rule per level (the relative order of two different ordered lists is not defined by the rulebook)",
    "permanent rows absent from new stay; under ignore_changes a changed row keeps its old text (the logics' documented purpose); for those the fixpoint is still required",
    "Junos-like vendors (juniper, ribbon, nokia): flattened set/delete statements are segmented into rows by the rulebook (block rows have a fixed word count, no catch-alls, no %rewrite, no negated-form rules there); `set` creates missing blocks, `delete` inside a missing block is a no-op",
    "the RouterOS formatter is not simulated here",
]
FLOORS = {"quick": {"patches_executed": 3000, "commands_executed": 5000, "removals_executed": 500, "second_diffs_empty": 3000, "flat_patches_executed": 800, "flat_commands_executed": 2000, "overlapping_rule_cases": 50, "undo_redo_block_cases": 50, "model_chain_patches_executed": 45, "ignore_changes_block_cases": 50, "ordered_rewrite_body_cases": 25, "rulebooks_with_an_ignore_case_rule_beside_case_sensitive_ones": 150, "rulebooks_with_global_rules_on_two_levels": 60, "ordered_rules_that_also_name_a_logic": 100, "rulebooks_with_two_block_kinds_sharing_child_rule_texts": 250, "rulebooks_with_ordered_entries_holding_nested_blocks": 250},
          "thorough": {"patches_executed": 100000, "commands_executed": 200000, "removals_executed": 20000, "second_diffs_empty": 100000, "flat_patches_executed": 30000, "flat_commands_executed": 80000, "overlapping_rule_cases": 2000, "undo_redo_block_cases": 2000, "model_chain_patches_executed": 300, "ignore_changes_block_cases": 2000, "ordered_rewrite_body_cases": 1000}}
BLOCK_VENDORS = ["huawei", "h3c", "optixtrans", "cisco", "nexus", "iosxr", "arista", "aruba", "b4com", "pc"]
FLAT_VENDORS = {"juniper": {"set"}, "ribbon": {"set"}, "nokia": {"/configure"}}
FLAT_ALLOW = ("global", "ordered", "logic", "flat")
EXIT_EXTRA = {"exit-address-family", "end-set", "endif", "end-policy", "end-filter", "end-list"}


class Dev:
    def __init__(self, hw):
        self.hw = hw
        self.hostname = "dev1"
        self.fqdn = "dev1.example"


def plan(tier, seed):
    n = 8 if tier == "quick" else 16
    specs = [{"mode": "random", "tier": tier, "seed": seed, "shard": k, "nshards": n} for k in range(n)]
    for k in range(2 if tier == "quick" else 8):
        specs.append({"mode": "exhaustive", "tier": tier, "seed": seed, "shard": k, "nshards": 2 if tier == "quick" else 8})
    specs.append({"mode": "models", "tier": tier, "seed": seed})
    return specs


def vendor_env(vname):
    from annet.vendors import registry_connector
    v = registry_connector.get()[vname]
    return v, v.reverse, v.exit, v.hardware, v.make_formatter()


def compile_rb(text, vname):
    from annet.rulebook.patching import compile_patching_text
    from annet.annlib.rbparser.ordering import compile_ordering_text
    from annet.rulebook.deploying import compile_deploying_text
    from annet.annlib.rbparser.platform import VENDOR_ALIASES
    return {"patching": compile_patching_text(text, VENDOR_ALIASES.get(vname, vname)),
            "ordering": compile_ordering_text("", vname), "deploying": compile_deploying_text("", vname)}


def known(rows, locals_, globals_):
    """[(ident, row, children, sel)] for rows the rulebook knows, in order"""
    out = []
    for row, ch in rows:
        s = RB.select(row, locals_, globals_)
        if s is not None:
            out.append(((id(s[0]), s[1]), row, ch, s))
    return out


def compare(dev, new, old, locals_, globals_, path=()):
    """dev/new/old: plain lists [[row, children], ...]. Returns list of (kind, detail)."""
    probs = []
    dk, nk, ok = known(dev, locals_, globals_), known(new, locals_, globals_), known(old, locals_, globals_)
    dmap, nmap, omap = {}, {}, {}
    for ident, row, ch, s in dk:
        if ident in dmap:
            probs.append(("duplicate-key-on-device", path + (row,)))
        dmap[ident] = (row, ch, s)
    for ident, row, ch, s in nk:
        nmap.setdefault(ident, (row, ch, s))
    for ident, row, ch, s in ok:
        omap.setdefault(ident, (row, ch, s))
    # rows the rulebook does not know stay as they were
    d_unknown = [[r, c] for r, c in dev if RB.select(r, locals_, globals_) is None]
    o_unknown = [[r, c] for r, c in old if RB.select(r, locals_, globals_) is None]
    if d_unknown != o_unknown:
        probs.append(("unknown-rows-touched", path))
    frozen_extra = set()
    for ident, (nrow, nch, s) in nmap.items():
        if ident not in dmap:
            probs.append(("row-missing-on-device", path + (nrow,)))
            continue
        drow, dch, _ = dmap[ident]
        if drow != nrow:
            if s[0].logic == "common.ignore_changes" and ident in omap and omap[ident][0] == drow:
                continue  # deliberately frozen
            probs.append(("row-has-old-or-wrong-text", path + (nrow, drow)))
            continue
        och = omap[ident][1] if ident in omap else []
        probs += compare(dch, nch, och, s[2], s[3], path + (nrow,))
    for ident, (drow, dch, s) in dmap.items():
        if ident in nmap:
            continue
        if s[0].logic == "common.permanent" and ident in omap:
            frozen_extra.add(ident)
            probs += compare(dch, [], omap[ident][1], s[2], s[3], path + (drow,))
            continue
        probs.append(("row-not-removed", path + (drow,)))
    # order among the rows of one %ordered / %rewrite rule
    for rid in {ident[0] for ident, row, ch, s in nk if (s[0].ordered or s[0].rewrite)}:
        dseq = [ident for ident, row, ch, s in dk if ident[0] == rid and ident not in frozen_extra]
        nseq = [ident for ident, row, ch, s in nk if ident[0] == rid]
        if dseq != nseq and set(dseq) == set(nseq):
            probs.append(("ordered-rows-in-wrong-order", path))
    return probs


def only_frozen(diff, allowed_paths, path=()):
    """True when a residual diff mentions only rows frozen by permanent / ignore_changes (rule taken from the diff's own
    match) and the blocks leading to them; collects those block paths (the only entries a second patch may contain)."""
    from annet.annlib.rulebook import common
    from annet.types import Op
    ok = True
    for op, row, children, match in diff:
        logic = match["attrs"].get("logic") if match else None
        if logic in (common.permanent, common.ignore_changes) and op in (Op.REMOVED, Op.ADDED):
            for i in range(1, len(path) + 1):
                allowed_paths.add(path[:i])
            if logic is common.permanent and children:
                # a frozen block whose own frozen children remain: the patch may still enter it (and find nothing to do)
                sub = set()
                if only_frozen([c for c in children], sub, path + (row,)) or True:
                    allowed_paths.add(path + (row,))
                    allowed_paths.update(sub)
            continue
        if op == Op.AFFECTED and children and only_frozen(children, allowed_paths, path + (row,)):
            continue
        ok = False
    return ok


def step(vname, rules, text, rb, old, new, acc, ctx):
    """one patch execution old -> new; returns the device tree afterwards (odict) or None on violation"""
    from annet.api import _diff_and_patch
    from annet.types import Op
    v, prefix, exitw, hw, fmt = vendor_env(vname)
    w = dict(ctx, vendor=vname, rulebook=text, old=plain(old), new=plain(new))
    try:
        diff, patch = _diff_and_patch(Dev(hw), old, new, None, None, False, rb=rb)
        paths = [tuple(p) for p in fmt.cmd_paths(patch)]
    except Exception as e:
        acc.violation("C01/exception/%s" % type(e).__name__, "diff/patch computation raised on an in-domain input", dict(w, error=repr(e)[:300]))
        return None
    acc.case([vname, text, w["old"], w["new"]], nontrivial=(w["old"] != w["new"] and len(paths) > 0))
    acc.count("patches_executed")
    acc.count("commands_executed", len(paths))
    if vname in FLAT_VENDORS:
        acc.count("flat_patches_executed")
        acc.count("flat_commands_executed", len(paths))
        acc.count("removals_executed", sum(1 for p in paths if p[-1].startswith("delete ") or p[-1].startswith("/configure delete ")))
        dev = D.FlatDevice(D.from_tree(old), rules, FLAT_VENDORS[vname])
    else:
        acc.count("removals_executed", sum(1 for p in paths if p[-1].startswith(prefix + " ")))
        dev = D.BlockDevice(D.from_tree(old), rules, prefix, {exitw} | EXIT_EXTRA)
    w["commands"] = [list(p) for p in paths]
    try:
        dev.run(paths)
    except D.DeviceError as e:
        acc.violation("C01/device-rejects-command", "a patch command does not address a line of its block / is issued outside its block",
                      dict(w, error=str(e)))
        return None
    state = D.to_plain(dev.root)
    locals_, globals_ = RB.split_level(rules)
    probs = compare(state, plain(new), plain(old), locals_, globals_)
    if probs:
        kinds = sorted({k for k, _ in probs})
        acc.violation("C01/not-converged/%s" % kinds[0], "executing the patch on the device does not yield the desired configuration",
                      dict(w, device_after=state, problems=[[k, list(d)] for k, d in probs[:6]]))
        return None
    dev_tree = unplain(state)
    try:
        diff2, patch2 = _diff_and_patch(Dev(hw), dev_tree, new, None, None, False, rb=rb)
        paths2 = [tuple(p) for p in fmt.cmd_paths(patch2)]
    except Exception as e:
        acc.violation("C01/exception-second-run/%s" % type(e).__name__, "second diff/patch raised", dict(w, error=repr(e)[:300]))
        return None
    allowed = set()
    frozen_only = only_frozen(diff2, allowed)
    exits = {exitw} | EXIT_EXTRA
    if vname in FLAT_VENDORS:
        def as_path(p):
            words = p[0].split()
            if words and words[0] in FLAT_VENDORS[vname]:
                words = words[1:]
            if not words or words[0] == "delete":
                return p
            return tuple(D.segment(words, rules))
        residual = [p for p in paths2 if as_path(p) not in allowed]
    else:
        residual = [p for p in paths2 if not (p in allowed or (p[-1] in exits and p[:-1] in allowed))]
    if residual:
        acc.violation("C01/second-patch-not-empty", "a second patch taken after deploying the first still contains commands",
                      dict(w, device_after=state, second_commands=[list(p) for p in paths2][:10]))
        return None
    if diff2 and not frozen_only:
        acc.violation("C01/second-diff-not-empty", "a second diff taken after deploying the patch is not empty",
                      dict(w, device_after=state, second_diff=repr([(str(d[0]), d[1]) for d in diff2])[:400]))
        return None
    acc.count("second_diffs_empty")
    return dev_tree


def RB_walk(level):
    for r in level:
        yield r
        yield from RB_walk(r.children)


def unsow(tree):
    out = odict()
    for row, ch in tree.items():
        if row.startswith("gd "):
            continue
        out[row] = unsow(ch) if ch else odict()
    return out


def reorder_only(rng, tree):
    out = odict()
    items = list(tree.items())
    qs = [i for i, (r, _) in enumerate(items) if r.split()[0].startswith("q")]
    if len(qs) >= 2:
        perm = qs[:]
        rng.shuffle(perm)
        moved = [items[i] for i in perm]
        for i, it in zip(qs, moved):
            items[i] = it
    for r, ch in items:
        out[r] = reorder_only(rng, ch) if ch else odict()
    return out


def run_case(case, acc):
    """case: {vendor, rb_seed | rules?, seed, chain}"""
    rng = random.Random(case["seed"])
    vname = case["vendor"]
    v, prefix, exitw, hw, fmt = vendor_env(vname)
    extra = tuple(f for f in ("overlap", "urblocks", "ordrw", "icblocks") if case.get(f))
    if vname in FLAT_VENDORS:
        rules = G.gen_rulebook(rng, depth=3, prefix=prefix, allow=FLAT_ALLOW + extra)
    else:
        rules = G.gen_rulebook(rng, depth=3, prefix=prefix, allow=G.DEFAULT_ALLOW + extra)
    if case.get("twins") and vname not in FLAT_VENDORS:
        # two kinds of block whose child rules are spelled alike (`tf *`) and differ one level further down only; the same `tf kN` line
        # stands under blocks of both kinds
        trng = random.Random(case["seed"] ^ 0x7215)
        leaf_a, leaf_b = trng.sample(["tg *", "th *", "ti * *", "tj ~"], 2)
        rules[0:0] = [RB.Rule("ta *", children=[RB.Rule("tf *", children=[RB.Rule(leaf_a)])]),
                      RB.Rule("tb *", children=[RB.Rule("tf *", children=[RB.Rule(leaf_b)] + ([RB.Rule(leaf_a, logic="common.undo_redo")] if trng.random() < 0.3 else []))])]
        acc.count("rulebooks_with_two_block_kinds_sharing_child_rule_texts")
    if case.get("ordnest"):
        # entries of an ordered list that hold a nested block of an ordinary rule (two levels below the entry): when an entry moves, it is
        # deleted and re-created with everything the desired configuration holds below it, nested blocks included
        # (inside a block of its own: one ordered list per level, the order between two lists is not defined)
        rules.insert(0, RB.Rule("tn *", children=[RB.Rule("qn *", ordered=True, children=[RB.Rule("sn *", children=[RB.Rule("ln *"), RB.Rule("lw *"), RB.Rule("lv *", logic="common.ignore_changes")]), RB.Rule("ld *")])]))
        acc.count("rulebooks_with_ordered_entries_holding_nested_blocks")
    gn_host = None
    if case.get("gnest") and vname not in FLAT_VENDORS:
        # %global rules on two nesting levels: an outer `gd ~ %global` at the top and, inside a block rule, an inner `gs * %global` of its own;
        # rows of the outer family live inside that block (and below): the inner definition does not end the outer one
        grng = random.Random(case["seed"] ^ 0x6E57)
        hosts = [r for r in rules if r.children and not r.glob and not r.ignore and not r.ordered and not r.rewrite and r.logic is None]
        if hosts:
            gn_host = grng.choice(hosts)
            rules.append(RB.Rule("gd ~", glob=True))
            gn_host.children.append(RB.Rule("gs *", glob=True))
            acc.count("rulebooks_with_global_rules_on_two_levels")

    def sow(tree, top=True):
        if gn_host is None:
            return tree
        out = odict()
        for row, ch in tree.items():
            ch = sow(ch, False) if ch else odict()
            if (not top or R.match(gn_host.pat, row) is not None) and not row.startswith(("gd ", "gs ")) and (ch or top) and sow_rng.random() < 0.7:
                ch = odict(ch)
                ch["gd k%d x%d" % (sow_rng.randint(1, 3), sow_rng.randint(1, 2))] = odict()
            out[row] = ch
        return out
    sow_rng = random.Random(case["seed"] ^ 0x50E)
    if case.get("ordlogic"):
        # an %ordered rule that also names a %logic: the list is still an ordered list (removal and re-creation in order), whatever the logic says
        orng = random.Random(case["seed"] ^ 0x0D10)
        n_ = 0
        for r in RB_walk(rules):
            if r.ordered and not r.rewrite and "%logic" not in r.extra and orng.random() < 0.8:
                r.extra = (r.extra + " %logic=" + orng.choice(["common.undo_redo", "common.permanent"])).strip()
                n_ += 1
        if n_:
            acc.count("ordered_rules_that_also_name_a_logic", n_)
    ic_words = set()
    if case.get("mixcase"):
        # one leaf rule per level may be %ignore_case (its own rows stay lower-case on both sides); the rows of its case-sensitive
        # siblings carry upper-case letters, which the patch must reproduce exactly
        crng = random.Random(case["seed"] ^ 0x1CA5E)

        def mark(level):
            leaves = [r for r in level if not r.children and not r.glob and not r.ignore and r.pat != "~" and not r.ordered and not r.rewrite and r.logic is None]
            if len(level) >= 2 and leaves and crng.random() < 0.8:
                r = crng.choice(leaves)
                r.extra = (r.extra + " %ignore_case").strip()
                pw = r.pat.split()
                ic_words.add(pw[1] if pw[0] == prefix and len(pw) > 1 else pw[0])
            for r in level:
                if r.children and not r.glob:
                    mark(r.children)
        mark(rules)
        if ic_words:
            acc.count("rulebooks_with_an_ignore_case_rule_beside_case_sensitive_ones")

    def mixcase(tree):
        if not ic_words:
            return tree
        out = odict()
        for row, ch in tree.items():
            ws = row.split()
            first = ws[1] if ws[0] == prefix and len(ws) > 1 else ws[0]
            if first not in ic_words:
                row = " ".join(w_.upper() if re.fullmatch(r"[kx]\d", w_) else w_ for w_ in ws)
            out[row] = mixcase(ch)
        return out
    def lowcase(tree):
        if not ic_words:
            return tree
        out = odict()
        for row, ch in tree.items():
            out[" ".join(w_.lower() if re.fullmatch(r"[KX]\d", w_) else w_ for w_ in row.split())] = lowcase(ch)
        return out
    text = RB.render(rules)
    try:
        rb = compile_rb(text, vname)
    except Exception as e:
        acc.violation("C01/rulebook-does-not-compile", "generated rulebook rejected by the compiler", {"vendor": vname, "rulebook": text, "case": case, "error": repr(e)[:200]})
        return
    if case.get("ordrw") and vname not in FLAT_VENDORS and not G.has_feature(rules, FEATURES["ordered_entries_with_rewrite_body"]):
        host = next((r for r in rules if r.children and not r.glob and not any(c.ordered or c.rewrite for c in r.children)), None)
        if host is not None:
            host.children.append(RB.Rule("q1 *", ordered=True, children=[RB.Rule("~", glob=True, rewrite=True)]))
            text = RB.render(rules)
            rb = compile_rb(text, vname)
    old = sow(mixcase(G.gen_tree(rng, rules)))
    if G.has_feature(rules, FEATURES["overlap"]):
        acc.count("overlapping_rule_cases")
    if G.has_feature(rules, FEATURES["undo_redo_block"]):
        acc.count("undo_redo_block_cases")
    if G.has_feature(rules, FEATURES["ignore_changes_block"]):
        acc.count("ignore_changes_block_cases")
    if G.has_feature(rules, FEATURES["ordered_entries_with_rewrite_body"]):
        acc.count("ordered_rewrite_body_cases")
    acc.distinct("rulebook_features", "|".join(sorted(f for f, p in FEATURES.items() if G.has_feature(rules, p))))
    for i in range(case["chain"]):
        if case.get("ordnest") and rng.random() < 0.6:
            new = G.mutate_tree(rng, lowcase(reorder_only(rng, old)), rules, rate=0.5)  # entries permuted, and some lines below them changed
        elif case.get("ordrw") and rng.random() < 0.4:
            new = reorder_only(rng, old)  # the same lines, ordered lists permuted, bodies untouched
        elif rng.random() < 0.65:
            new = G.mutate_tree(rng, lowcase(old), rules)  # (keys are compared in the generator's own lower-case spelling)
        else:
            new = G.gen_tree(rng, rules)
        new = sow(unsow(mixcase(new)))
        after = step(vname, rules, text, rb, old, new, acc, {"case": case, "step": i})
        if after is None:
            return
        old = after
    if rng.random() < 0.002:
        acc.sample({"vendor": vname, "rulebook": text, "last_new": plain(new)})


FEATURES = {
    "global": lambda r: r.glob, "ordered": lambda r: r.ordered, "rewrite": lambda r: r.rewrite,
    "undo_redo": lambda r: r.logic == "common.undo_redo", "permanent": lambda r: r.logic == "common.permanent",
    "ignore_changes": lambda r: r.logic == "common.ignore_changes", "negform": lambda r: len(r.pat.split()) > 1 and r.pat.split()[0] in ("undo", "no", "-"),
    "catchall": lambda r: r.pat == "~", "nested": lambda r: bool(r.children), "overlap": lambda r: "*/k[12]/" in r.pat,
    "undo_redo_block": lambda r: bool(r.children) and r.logic == "common.undo_redo",
    "ignore_changes_block": lambda r: bool(r.children) and r.logic == "common.ignore_changes",
    "ordered_entries_with_rewrite_body": lambda r: r.ordered and any(c.rewrite for c in r.children),
}


def exhaustive_trees():
    b1 = [None, "b k1", "b k1 x1"]
    b2 = [None, "b k2"]
    c = [None, "c"]
    childsets = []
    for x, y, z in itertools.product(b1, b2, c):
        childsets.append([r for r in (x, y, z) if r])
    a1 = [None] + childsets
    a2 = [None, [], ["c"]]
    d1 = [None, "d k1", "d k1 x1"]
    trees = []
    for x, y, z in itertools.product(a1, a2, d1):
        t = odict()
        if x is not None:
            t["a k1"] = odict((r, odict()) for r in x)
        if y is not None:
            t["a k2"] = odict((r, odict()) for r in y)
        if z is not None:
            t[z] = odict()
        trees.append(t)
    return trees


def run_exhaustive(spec, acc):
    rules = [RB.Rule("a *", children=[RB.Rule("b *"), RB.Rule("c")]), RB.Rule("d *")]
    text = RB.render(rules)
    trees = exhaustive_trees()
    vendors = ["huawei", "cisco"] if spec["tier"] == "quick" else BLOCK_VENDORS
    i = 0
    for vname in vendors:
        rb = compile_rb(text, vname)
        for a in trees:
            for b in trees:
                i += 1
                if i % spec["nshards"] != spec["shard"]:
                    continue
                if spec["tier"] == "quick" and vname != "huawei" and i % 7:
                    continue
                step(vname, rules, text, rb, a, b, acc, {"exhaustive": True})
                acc.count("exhaustive_pairs")
    acc.sample({"exhaustive_rulebook": text, "trees": len(trees)})


# ---- shipped rulebooks, several hardware models handled by one process ------------------------------------------
MODEL_CHAINS = [
    # (model, old text, new text): lines whose rule depends on the hardware family the rule templates branch on
    ("Huawei Quidway S5700", "interface GE1/0/1\n trust dscp\n stp edged-port enable\n", "interface GE1/0/1\n trust 8021p\n"),
    ("Huawei CE6870", "interface 10GE1/0/1\n trust 8021p\n stp edged-port enable\n", "interface 10GE1/0/1\n trust dscp\n"),
    ("Huawei NE40E-X8", "interface GE1/0/1\n trust dscp\n stp edged-port default\n", "interface GE1/0/1\n trust 8021p\n stp edged-port enable\n"),
    ("Huawei CE6870", "interface 10GE1/0/2\n trust dscp\n", "interface 10GE1/0/2\n trust 8021p\n description x\n"),
    ("Huawei Quidway S5300", "interface GE1/0/2\n trust 8021p\n", "interface GE1/0/2\n trust dscp\n"),
    ("Huawei", "interface GE1/0/3\n trust 8021p\n jumboframe enable 9000\n", "interface GE1/0/3\n trust dscp\n"),
    # value changes of lines whose shipped rule replaces the line by removal + re-creation (undo_redo): the removal must come first
    ("Huawei CE6870", "interface 10GE1/0/3\n mtu 9000\n description a\n", "interface 10GE1/0/3\n mtu 1500\n description a\n"),
    ("Huawei NE40E-X8", "interface GE1/0/4\n mtu 9000\n ipv6 enable\n", "interface GE1/0/4\n mtu 4000\n ipv6 enable\n description b\n"),
    ("Huawei Quidway S5700", "interface GE1/0/5\n eth-trunk 1\n", "interface GE1/0/5\n eth-trunk 2\n"),
    ("Huawei CE6870", "ftp client source -i LoopBack0\nsnmp-agent protocol source-interface LoopBack0\n", "ftp client source -i LoopBack1\nsnmp-agent protocol source-interface LoopBack1\n"),
    ("Huawei CE6870", "acl number 3000\n rule 5 permit ip\n rule 10 deny ip\n", "acl number 3000\n rule 5 deny ip\n rule 10 deny ip\n"),
    ("Huawei", "ospf 1\n stub-router on-startup 100\n", "ospf 1\n stub-router on-startup 200\n"),
    ("Arista DCS-7050", "ip prefix-list PL seq 10 permit 10.0.0.0/8\nip prefix-list PL seq 20 permit 12.0.0.0/8\n", "ip prefix-list PL seq 10 permit 11.0.0.0/8\nip prefix-list PL seq 20 permit 12.0.0.0/8\n"),
]


class RuleDevice:
    """a device that holds one line per (rule, key) of a SHIPPED rulebook: which rule and key a line has is read off a rulebook
    compiled by a fresh provider for the device's own model (annet's rule matching is used as the measuring device here)"""

    def __init__(self, tree, rb, prefix, exits):
        self.root = D.from_tree(tree)
        self.rules = rb["patching"]
        self.prefix = prefix
        self.exits = set(x for x in exits if x)

    @staticmethod
    def ident(row, rules):
        from annet.annlib.patching import _match_row_to_rules
        m, ch = _match_row_to_rules(row, rules)
        if m is None:
            return None, None
        return (m["raw_rule"], tuple(m["key"])), ch

    def execute(self, path):
        nodes, rules = self.root, self.rules
        for b in path[:-1]:
            idb, ch = self.ident(b, rules)
            hit = next((n for n in nodes if n[0] == b), None)
            if hit is None:
                raise D.DeviceError("command %r issued inside block %r which does not exist on the device" % (path, b))
            nodes, rules = hit[1], (ch if ch is not None else {"local": {}, "global": {}})
        cmd = path[-1]
        if cmd in self.exits:
            return
        neg = cmd.startswith(self.prefix + " ")
        idc, _ = self.ident(cmd[len(self.prefix) + 1:] if neg else cmd, rules)
        if idc is None:
            raise D.DeviceError("command %r addresses nothing the model's rulebook knows" % (path,))
        i = next((k for k, n in enumerate(nodes) if self.ident(n[0], rules)[0] == idc), None)
        if neg:
            if i is not None:
                del nodes[i]
        elif i is None:
            nodes.append([cmd, []])
        else:
            nodes[i][0] = cmd


def run_model_chains(spec, acc):
    """one process (one shared rulebook provider) serves several models of a vendor one after another, in every order"""
    from annet import tabparser
    from annet.api import _diff_and_patch
    from annet.annlib.netdev.views.hardware import HardwareView
    from annet.rulebook import DefaultRulebookProvider
    from annet.vendors import registry_connector
    orders = list(itertools.permutations(range(len(MODEL_CHAINS)), 3))
    rng = random.Random("C01/models/%s" % spec["seed"])
    rng.shuffle(orders)
    first = list(range(len(MODEL_CHAINS)))
    rng.shuffle(first)  # every pair at least once (one long chain), then triples in sampled orders
    for order in [tuple(first)] + orders[: (12 if spec["tier"] == "quick" else 400)]:
        for idx in order:
            model, ot, nt = MODEL_CHAINS[idx]
            hw = HardwareView(model, "")
            v = registry_connector.get().match(hw)
            fmt = v.make_formatter()
            old, new = tabparser.parse_to_tree(ot, fmt.split), tabparser.parse_to_tree(nt, fmt.split)
            w = {"model_chain": True, "order": [MODEL_CHAINS[i][0] for i in order], "model": model, "old": plain(old), "new": plain(new)}
            try:
                _, patch = _diff_and_patch(Dev(hw), old, new, None, None, False)   # the process-wide provider
                paths = [tuple(p) for p in fmt.cmd_paths(patch)]
                fresh = DefaultRulebookProvider().get_rulebook(hw)              # what this model's rulebook is
                dev = RuleDevice(old, fresh, v.reverse, {v.exit} | EXIT_EXTRA)
                for p in paths:
                    dev.execute(p)
                state = unplain(D.to_plain(dev.root))
                diff2, patch2 = _diff_and_patch(Dev(hw), state, new, None, None, False, rb=fresh)
                paths2 = [tuple(p) for p in fmt.cmd_paths(patch2)]
            except D.DeviceError as e:
                acc.violation("C01/device-rejects-command", "a patch command does not address a line of its block / is issued outside its block", dict(w, error=str(e)))
                return
            except Exception as e:
                acc.violation("C01/exception/%s" % type(e).__name__, "diff/patch computation raised on an in-domain input", dict(w, error=repr(e)[:300]))
                return
            acc.count("model_chain_patches_executed")
            acc.count("patches_executed")
            acc.case(["model-chain", [MODEL_CHAINS[i][0] for i in order], model], nontrivial=bool(paths))
            if diff2 or paths2:
                acc.violation("C01/second-diff-not-empty", "a second diff taken after deploying the patch is not empty",
                              dict(w, commands=[list(p) for p in paths], device_after=D.to_plain(dev.root), second_commands=[list(p) for p in paths2]))
                return
            acc.count("second_diffs_empty")


def run_shard(spec, acc):
    if spec["mode"] == "models" or (spec["mode"] == "replay" and spec["witness"].get("model_chain")):
        return run_model_chains({"tier": spec.get("tier", "quick"), "seed": spec.get("seed", 0)}, acc)
    if spec["mode"] == "replay":
        w = spec["witness"]
        if w.get("exhaustive") or "case" not in w:
            rules = [RB.Rule("a *", children=[RB.Rule("b *"), RB.Rule("c")]), RB.Rule("d *")]
            text = RB.render(rules)
            step(w["vendor"], rules, text, compile_rb(text, w["vendor"]), unplain(w["old"]), unplain(w["new"]), acc, {"exhaustive": True})
        else:
            run_case(w["case"], acc)
        return
    if spec["mode"] == "exhaustive":
        return run_exhaustive(spec, acc)
    tier, k, n = spec["tier"], spec["shard"], spec["nshards"]
    total = 1600 if tier == "quick" else 60000
    rng = random.Random("C01/%s/%s" % (spec["seed"], k))
    for j in range(total // n):
        case = {"vendor": BLOCK_VENDORS[(j + k) % len(BLOCK_VENDORS)], "seed": rng.randrange(1 << 48),
                "chain": rng.randint(1, 4 if tier == "quick" else 8)}
        if j % 4 == 3:
            case["overlap"] = True
        if j % 4 == 1:
            case["urblocks"] = True
        if j % 4 == 2:
            case["ordrw"] = case["icblocks"] = True
        if j % 4 == 0:
            case["mixcase"] = True
        if j % 8 == 5:
            case["gnest"] = True
        if j % 8 == 6 or j % 8 == 2:
            case["ordlogic"] = True
        if j % 8 in (3, 4):
            case["twins"] = True
        if j % 8 in (0, 7):
            case["ordnest"] = True
        run_case(case, acc)
    flat = sorted(FLAT_VENDORS)
    for j in range((total // 3) // n):
        case = {"vendor": flat[(j + k) % len(flat)], "seed": rng.randrange(1 << 48), "chain": rng.randint(1, 4 if tier == "quick" else 8)}
        if j % 3 == 1:
            case["ordnest"] = True
        run_case(case, acc)
