"""C06 - ACL filtering selects exactly the covered lines and nothing else.

Oracles on every (ACL A, ACL B, tree t, vendor): reference filter R3 (vf/ref/acl.py) == apply_acl; result is an
order-preserving subtree; idempotence; merged ACL passes everything either passes alone; strict mode raises exactly
when the reference finds an uncovered row under a covered parent; the text entry point filter_config agrees.
"""
import random
from collections import OrderedDict as odict

from vf.gen import rb as G
from vf.gen import acl as GA
from vf.ref import acl as A
from vf.ref import rulebook as RB
from vf.ref import rulelang as R
from vf.util import plain, unplain, paths

LEVEL = "exploration"
RULE = ("universe rulebook U (random, nesting<=3) -> trees from U (rows in plain and negated form, foreign rows, near misses) and two ACLs "
        "A, B drawn over U's vocabulary (subset of rules, generalised tokens *, ~, one-key narrowing, %global incl. catch-all, "
        "%cant_delete=0/1 and the interface default, %prio, competing rules with other children); vendors huawei/cisco/pc/routeros/juniper/arista. "
        "Non-trivial: merged ACL has >=2 rules and the tree has >=1 covered and >=1 uncovered row. Distinct: hash of (vendor, A, B, tree).")
ASSUMPTIONS = [
    "R3 (vf/ref/acl.py): coverage = some local or inherited-%global rule matches directly or negated; children judged by the union of children of all local direct matches + globals",
    "ranking (prio, shared-character share) is restated in the reference only to decide whose cant_delete governs a negated row and to recognise the known mechanism 'best match is global/negated => local children rules not used'",
    "monotonicity law evaluated on trees without negated rows (a negated row is meant to be dropped under cant_delete)",
    "juniper 'inactive:' rows are not generated",
]
FLOORS = {"quick": {"run_filter_acls_built": 300, "generators_with_an_empty_acl_run_strictly": 300, "filter_acl_texts_behind_a_common_margin": 300, "filters_compared": 3000, "strict_raises_agreed": 300, "strict_passes_agreed": 100, "monotone_checked": 1000, "idempotent_checked": 3000, "explicit_negated_rule_cases": 400, "production_merges_checked": 1500, "diff_texts_filtered": 600, "ignore_rule_filters": 300, "slash_regex_filters": 300, "rows_under_an_inherited_global_rule_two_or_more_levels_down": 300, "acl_lines_with_tab_before_params": 2000, "acl_comment_lines_inside_blocks": 500, "inactive_row_filters": 600, "filters_of_partly_annotated_trees": 1500, "acl_rules_with_params_on_a_continuation_line": 300, "moved_rows_in_filtered_diff_texts": 500},
          "thorough": {"filters_compared": 100000, "strict_raises_agreed": 10000, "strict_passes_agreed": 3000, "monotone_checked": 30000, "idempotent_checked": 100000, "explicit_negated_rule_cases": 12000, "production_merges_checked": 50000, "diff_texts_filtered": 20000, "ignore_rule_filters": 10000, "slash_regex_filters": 5000}}
VENDORS = ["huawei", "cisco", "pc", "routeros", "juniper", "arista"]
KNOWN_WINNER = "C06/children-rules-lost-when-global-or-negated-match-outranks-local"
KNOWN_GLOBAL_MERGE = "C06/children-rules-lost-when-same-row-is-global-in-another-acl"
WHAT = {
    KNOWN_WINNER: "rows covered by a local rule's children are dropped because a %global or negated-form match of the parent row ranks above the local rule",
    KNOWN_GLOBAL_MERGE: "rows covered by a rule's children are dropped once another ACL lists the same row as %global (the united rule is global and loses its children)",
}


def plan(tier, seed):
    n = 8 if tier == "quick" else 16
    return [{"mode": "random", "tier": tier, "seed": seed, "shard": k, "nshards": n} for k in range(n)]


def is_subtree_in_order(sub, sup):
    """sub, sup plain lists; every row of sub appears in sup in the same relative order, recursively"""
    i = 0
    for row, ch in sub:
        while i < len(sup) and sup[i][0] != row:
            i += 1
        if i == len(sup):
            return False
        if not is_subtree_in_order(ch, sup[i][1]):
            return False
        i += 1
    return True


def add_negated(rng, tree, prefix, rate):
    out = odict()
    for row, ch in tree.items():
        out[row] = add_negated(rng, ch, prefix, rate) if ch else odict()
        if rng.random() < rate and not row.startswith(prefix + " "):
            out[prefix + " " + " ".join(row.split()[:rng.randint(1, len(row.split()))])] = odict()
    return out


def union(a, b):
    """union of two plain subtrees of one tree (order of a, then new rows of b)"""
    out = [[r, list(c)] for r, c in a]
    idx = {r: i for i, (r, c) in enumerate(out)}
    for r, c in b:
        if r in idx:
            out[idx[r]][1] = union(out[idx[r]][1], c)
        else:
            out.append([r, c])
    return out


def contains(sup, sub):
    m = {r: c for r, c in sup}
    return all(r in m and contains(m[r], c) for r, c in sub)


def add_negpairs(rng, level, prefix, count):
    """beside a rule P marked not deletable, list the explicit negated form `<negation word> P` as a rule of its own (what an
    ACL does to say: the negated line is mine, but do not remove the positive one): a negated row then matches P in reverse and
    the explicit rule directly, with the same specificity"""
    for r in list(level):
        if r.children and not r.glob:
            add_negpairs(rng, r.children, prefix, count)
        if r.glob or r.pat.split()[0] in ("~", prefix) or r.pat == "~" or rng.random() > 0.35:
            continue
        r.explicit_cd = [True]
        r.cant_delete = [True]
        neg = A.AclRule(prefix + " " + r.pat)
        if r.children and rng.random() < 0.5:
            neg.children = [A.AclRule("~")]
        pos = level.index(r)
        level.insert(pos + 1 if rng.random() < 0.7 else pos, neg)
        count[0] += 1


def add_shared_child_flags(rng, level, U, prefix):
    """a generic rule (higher prio) and a specific rule for key k1 both match the k1 block; each carries the same child rule with another
    %cant_delete flag: the united flags hold for the k1 block only, other blocks see the generic rule's flag alone"""
    cands = [ur for ur in U if ur.children and ur.pat.split()[-1] == "*" and not ur.glob and not ur.pat.startswith(prefix + " ")
             and any(not c.children and c.pat != "~" for c in ur.children)]
    if not cands:
        return False
    ur = rng.choice(cands)
    c = rng.choice([c for c in ur.children if not c.children and c.pat != "~"])
    words = ur.pat.split()
    generic = A.AclRule(ur.pat, children=[A.AclRule(c.pat, cant_delete=[True])], prio=1)
    specific = A.AclRule(" ".join(words[:-1] + ["k1"]), children=[A.AclRule(c.pat, cant_delete=[False])])
    level[0:0] = [generic, specific]
    return True


def add_deep_global(rng, level, tree, prefix):
    """a non-catch-all %global rule written inside a block rule that also has nested block rules, and rows it covers placed one, two and three
    levels below matching blocks: an inherited %global rule stays in force all the way down"""
    hosts = [r for r in level if r.children and not r.glob and any(c.children for c in r.children)]
    if not hosts:
        return 0
    host = rng.choice(hosts)
    host.children.append(A.AclRule("gdesc ~", glob=True, cant_delete=([True] if rng.random() < 0.3 else None)))
    placed = [0]

    def sow(t, depth):
        for row, ch in list(t.items()):
            if depth >= 1 and rng.random() < 0.6 and not row.startswith("gdesc"):
                t["gdesc k%d x%d" % (rng.randint(1, 3), depth)] = type(t)()
                placed[0] += depth >= 2
            if ch:
                sow(ch, depth + 1)
    for row, ch in tree.items():
        if ch and A.R.match(host.pat, row) is not None:
            sow(ch, 1)
    return placed[0]


def commented(text, rng):
    """`# ...` comment lines (and bare `!` separator lines, as in a Cisco listing) inside the ACL text, at the indentation of the rule they precede"""
    out = []
    for ln in text.split("\n"):
        if ln.strip() and rng.random() < 0.15:
            out.append(" " * (len(ln) - len(ln.lstrip(" "))) + rng.choice(["# note", "#", "# interface * %cant_delete=1", "!", "!"]))
        out.append(ln)
    return "\n".join(out)


def continued(text, rng):
    """the parameters of some rules on a line of their own below the rule (`rule` / `    %global`), sometimes after an empty line: the rule reader
    joins such a line to the row above it"""
    out = []
    for ln in text.split("\n"):
        i = ln.find(" %")
        if i > 0 and "\t" not in ln and not ln.strip().startswith(("#", "!")) and rng.random() < 0.2:
            ind = " " * (len(ln) - len(ln.lstrip(" ")))
            out.append(ln[:i].rstrip())
            if rng.random() < 0.5:
                out.append("")
            out.append(ind + "    " + ln[i:].strip())
        else:
            out.append(ln)
    return "\n".join(out)


def make_case(seed, negpair=False, deep=False):
    rng = random.Random(seed)
    vname = VENDORS[rng.randrange(len(VENDORS))]
    from annet.vendors import registry_connector
    prefix = registry_connector.get()[vname].reverse
    U = G.gen_rulebook(rng, depth=3, prefix=prefix, allow=("catchall",))
    if rng.random() < 0.35:
        tgt = rng.choice(U)
        if tgt.pat != "~":
            tgt.pat = " ".join(["interface"] + tgt.pat.split()[1:])
    t = G.gen_tree(rng, U, foreign=0.3, fill=0.7)
    neg = rng.random() < 0.4
    if neg:
        t = add_negated(rng, t, prefix, 0.2)
    a = GA.gen_acl(rng, U)
    b = GA.gen_acl(rng, U, p_include=0.5)
    if negpair:
        cnt = [0]
        add_negpairs(rng, a, prefix, cnt)
        add_negpairs(rng, b, prefix, cnt)
        if rng.random() < 0.6:
            add_shared_child_flags(rng, a, U, prefix)
        t = add_negated(rng, t, prefix, 0.35)
        neg = True
    if deep:
        drng = random.Random(seed ^ 0xDEE9)
        DEEP_PLACED[seed] = add_deep_global(drng, a, t, prefix)
    return vname, prefix, U, t, a, b, neg


DEEP_PLACED = {}


def tabbed(text, rng):
    """the same ACL text with TABs (or a blank and TABs) in front of the first parameter of some lines, as column-aligned rule files are written"""
    out = []
    for ln in text.split("\n"):
        i = ln.find(" %")
        if i > 0 and rng.random() < 0.6:
            ln = ln[:i].rstrip() + rng.choice(["\t", "\t\t", " \t"]) + ln[i:].lstrip()
        out.append(ln)
    return "\n".join(out)


def real_filter(text, vname, tree, fatal=False):
    from annet.annlib.rbparser.acl import compile_acl_text
    from annet.annlib.patching import apply_acl
    return apply_acl(tree, compile_acl_text(text, vname), fatal_acl=fatal)


def ref_filter(level, ptree, prefix, mode, uncovered=None, ideal=True):
    l, g = A.compile_level(level, ideal)
    return A.filter_tree(ptree, l, g, prefix, mode, uncovered)


def classify(level, pt, prefix, got):
    """which documented-in-code behaviour explains a deviation from the ideal filter (None = none of them)"""
    if got == ref_filter(level, pt, prefix, "property", None, ideal=False):
        return KNOWN_GLOBAL_MERGE
    if got == ref_filter(level, pt, prefix, "winner", None, ideal=False):
        return KNOWN_WINNER
    return None


def check_case(seed, acc, negpair=False, deep=False):
    from annet.annlib.patching import AclError
    vname, prefix, U, t, a, b, neg = make_case(seed, negpair, deep)
    pt = plain(t)
    w = {"seed": seed, "negpair": negpair, "deep": deep, "vendor": vname, "tree": pt}
    if deep:
        acc.count("rows_under_an_inherited_global_rule_two_or_more_levels_down", DEEP_PLACED.pop(seed, 0))
    if negpair:
        acc.count("explicit_negated_rule_cases")
    acls = {"A": a, "B": b, "A+B": a + b}
    texts = {k: A.render(v) for k, v in acls.items()}
    if deep:
        trng = random.Random(seed ^ 0x7AB)
        texts = {k: continued(commented(tabbed(v, trng), trng), trng) for k, v in texts.items()}
        acc.count("acl_rules_with_params_on_a_continuation_line", sum(1 for v in texts.values() for ln in v.split("\n") if ln.strip().startswith("%")))
        acc.count("acl_comment_lines_inside_blocks", sum(1 for v in texts.values() for ln in v.split("\n") if ln.startswith(" ") and ln.strip().startswith("#")))
        acc.count("acl_lines_with_tab_before_params", sum(1 for v in texts.values() for ln in v.split("\n") if "\t%" in ln))
    texts["A+B"] = texts["A"] + "\n" + texts["B"]
    w["acl_A"], w["acl_B"] = texts["A"], texts["B"]
    res = {}
    for name, level in acls.items():
        text = texts[name]
        if not text.strip():
            continue
        try:
            got = plain(real_filter(text, vname, t))
        except Exception as e:
            acc.violation("C06/exception/%s" % type(e).__name__, "apply_acl raised on an in-domain input", dict(w, which=name, error=repr(e)[:300]))
            return
        res[name] = got
        # filtering is a function of (tree, ACL text): the same call again gives the same answer
        try:
            got_again = plain(real_filter(text, vname, t))
        except Exception as e:
            got_again = "EXC %s" % type(e).__name__
        if got_again != got:
            acc.violation("C06/repeated-filter-differs", "filtering the same tree by the same ACL a second time in one process gives another result",
                          dict(w, which=name, first=got, second=got_again))
            continue
        if deep:
            # `annet gen --annotate`: some rows carry "\t# where they were yielded" (rows completed from the implicit defaults do not); the filter
            # looks at the row itself and returns the same lines
            from annet.annlib.lib import add_annotation, strip_annotation
            from annet.annlib.rbparser.acl import compile_acl_text
            from annet.annlib.patching import apply_acl
            arng = random.Random(seed ^ 0xA770)

            def annotate(tr):
                return type(tr)((add_annotation(r, "gen.py:%d" % arng.randint(1, 99)) if arng.random() < 0.5 else r, annotate(c)) for r, c in tr.items())

            def strip(tr):
                return [[strip_annotation(r) if "\t# " in r else r, strip(c)] for r, c in tr]
            try:
                got_a = strip(plain(apply_acl(annotate(t), compile_acl_text(text, vname), fatal_acl=False, with_annotations=True)))
            except Exception as e:
                got_a = "EXC %s" % type(e).__name__
            acc.count("filters_of_partly_annotated_trees")
            if got_a != got:
                acc.violation("C06/annotated-tree-filtered-differently", "with annotations on some rows (and the option that says so) the filter keeps other lines than on the bare tree",
                              dict(w, which=name, bare=got, annotated=got_a))
                continue
        unc = []
        exp = ref_filter(level, pt, prefix, "property", unc)
        allrows = sum(1 for _ in paths(t))
        covered = sum(1 for _ in paths(unplain(exp)))
        acc.case([vname, texts["A"], texts["B"], pt, name],
                 nontrivial=(len(level) >= 2 and 0 < covered < allrows))
        acc.count("filters_compared")
        if got != exp:
            key = classify(level, pt, prefix, got)
            if key:
                acc.violation(key, WHAT[key], dict(w, which=name, expected=exp, got=got))
            else:
                acc.violation("C06/filter-differs", "apply_acl does not return exactly the covered lines",
                              dict(w, which=name, expected=exp, got=got))
            continue
        if not is_subtree_in_order(got, pt):
            acc.violation("C06/not-an-ordered-subtree", "filter result is not an order-preserving subtree of its input", dict(w, which=name, got=got))
        # idempotence
        again = plain(real_filter(text, vname, unplain(got)))
        acc.count("idempotent_checked")
        if again != got:
            acc.violation("C06/not-idempotent", "filtering an already filtered configuration changes it", dict(w, which=name, once=got, twice=again))
        # strict mode
        try:
            real_filter(text, vname, t, fatal=True)
            raised = None
        except AclError as e:
            raised = str(e)
        if bool(unc) != (raised is not None):
            acc.violation("C06/strict-mode/%s" % ("uncovered-row-not-reported" if unc else "spurious-error"),
                          "strict mode does not raise exactly when a row under a covered parent is uncovered",
                          dict(w, which=name, uncovered=[list(u) for u in unc[:3]], raised=raised))
        else:
            acc.count("strict_raises_agreed" if unc else "strict_passes_agreed")
            if unc and raised is not None:
                names = {" / ".join(u) for u in unc}
                if raised not in names:
                    # a row that only the documented compile / winner rules leave uncovered is the known mechanism showing up in strict mode
                    key = "C06/strict-mode/error-names-wrong-row"
                    for mode, k2 in (("property", KNOWN_GLOBAL_MERGE), ("winner", KNOWN_WINNER)):
                        u2 = []
                        ref_filter(level, pt, prefix, mode, u2, ideal=False)
                        if raised in {" / ".join(u) for u in u2}:
                            key = k2
                            break
                    acc.violation(key, WHAT.get(key, "the strict-mode error does not name an uncovered row"), dict(w, which=name, raised=raised, uncovered=sorted(names)[:5]))
    # monotonicity of merging
    if not neg and "A" in res and "B" in res and "A+B" in res:
        acc.count("monotone_checked")
        u = union(res["A"], res["B"])
        if not contains(res["A+B"], u):
            key = classify(a + b, pt, prefix, res["A+B"])
            if key is None or res["A+B"] == ref_filter(a + b, pt, prefix, "property"):
                key = "C06/merged-acl-passes-less"
            acc.violation(key, WHAT.get(key, "the filter by two ACLs merged drops a line that one of them passes alone"),
                          dict(w, passed_A=res["A"], passed_B=res["B"], passed_merged=res["A+B"]))
    # the production way of merging: RunGeneratorResult.acl_text() over generators whose ACL texts are indented differently
    # (module-level constant vs triple-quoted string inside a method) must filter like the plain concatenation
    if "A+B" in res and texts["A"].strip() and texts["B"].strip():
        from annet.generators.result import RunGeneratorResult
        from annet.types import GeneratorPartialResult
        prng = random.Random(seed ^ 0x1D)
        ia, ib = prng.choice([(0, 8), (8, 0), (4, 4), (0, 0), (2, 12)])

        def ind(text, n):
            return "\n" + "\n".join(" " * n + ln for ln in text.split("\n")) + "\n" + " " * n
        rr = RunGeneratorResult()
        for name, text, n in (("GenA", texts["A"], ia), ("GenB", texts["B"], ib)):
            rr.add_partial(GeneratorPartialResult(name=name, tags=[], acl=ind(text, n), acl_rules=None, acl_safe="", acl_safe_rules=None,
                                                  output="", config=None, safe_config=None, perf=None))
        acc.count("production_merges_checked")
        try:
            got_p = plain(real_filter(rr.acl_text(), vname, t))
        except Exception as e:
            got_p = "EXC %s" % type(e).__name__
        if got_p != res["A+B"]:
            acc.violation("C06/production-merge-differs", "the ACL merged the production way (RunGeneratorResult.acl_text) filters differently from the concatenation of the two ACL texts",
                          dict(w, indents=[ia, ib], got=got_p, expected=res["A+B"]))
    # the diff-text entry point (filter_diff): a diff over the same rows, filtered by the same ACL, keeps exactly the rows apply_acl keeps
    # (whatever their sign), and only a removal of a not-deletable row changes its sign (to "kept")
    if not neg and vname in ("huawei", "cisco", "arista") and "A" in res:  # (pc: rows may begin with the negation sign `-`, which a signed text cannot tell from a removal)
        from annet.annlib import filter_acl as FA
        from annet.vendors import registry_connector as _rc
        drng = random.Random(seed ^ 0xD1F)

        def signed(tree_, depth, inherited):
            out = []
            for row, ch in tree_:
                sg = inherited or drng.choice(["-", "+", " ", " "] + ([">", ">"] if deep else []))  # (`>`: a row that moved inside an ordered list)
                if sg == ">":
                    acc.count("moved_rows_in_filtered_diff_texts")
                out.append("%s %s%s" % (sg, "  " * depth, row))
                out += signed(ch, depth + 1, sg if sg in "-+" else None)
            return out

        def rows_of(text_):
            out, stack = [], []
            for ln in text_.split("\n"):
                if not ln.strip():
                    continue
                body = ln[2:] if ln[0] in "+->" else ln[1:]  # filter_diff prints `<sign> <indent>row` for +/- and ` <indent>row` for kept rows
                d_ = (len(body) - len(body.lstrip(" "))) // 2
                stack[d_:] = [body.strip()]
                out.append(tuple(stack))
            return out
        dtext = "\n".join(signed(pt, 0, None))
        fmt_ = _rc.get()[vname].make_formatter()
        try:
            fout = FA.filter_diff(FA.make_acl(texts["A"], vname), fmt_, dtext)
            acc.count("diff_texts_filtered")
            got_rows = sorted(rows_of(fout))
            want_rows = sorted(tuple(p_) for p_ in paths(unplain(res["A"])))
            if got_rows != want_rows:
                acc.violation("C06/filter_diff-keeps-other-rows", "the diff-text filter keeps other rows than the configuration filter does for the same rows and ACL",
                              dict(w, diff_text=dtext.split("\n")[:40], filtered=fout.split("\n")[:40], missing=[list(x) for x in want_rows if x not in got_rows][:5],
                                   extra=[list(x) for x in got_rows if x not in want_rows][:5]))
        except Exception as e:
            acc.violation("C06/filter_diff-exception/%s" % type(e).__name__, "filter_diff raised", dict(w, error=repr(e)[:200], diff_text=dtext.split("\n")[:30]))
    # text entry point
    if vname in ("huawei", "cisco", "arista", "pc") and "A" in res:
        from annet.annlib import filter_acl
        from annet.vendors import registry_connector
        fmt = registry_connector.get()[vname].make_formatter()
        text_in = fmt.join(t)
        atext = texts["A"]
        if seed % 3 == 0:
            # the ACL as it sits in a Python source or a YAML file: every line behind one common left margin
            mrng = random.Random(seed ^ 0x3A6)
            m_ = mrng.choice(["  ", "    ", "        "])
            atext = mrng.choice(["", "\n"]) + "\n".join(m_ + ln if ln.strip() else ln for ln in atext.split("\n")) + mrng.choice(["", "\n", "\n" + m_])
            acc.count("filter_acl_texts_behind_a_common_margin", 1 if sum(1 for ln in atext.split("\n") if ln.startswith(m_) and not ln[len(m_):].startswith(" ")) >= 2 else 0)
        try:
            out = filter_acl.filter_config(filter_acl.make_acl(atext, vname), fmt, text_in)
            acc.count("text_entry_checked")
            if out != fmt.join(unplain(res["A"])):
                acc.violation("C06/filter_config-disagrees", "the text entry point filters differently from the tree entry point", dict(w, text_out=out, acl_text_given=atext))
        except Exception as e:
            acc.violation("C06/filter_config-exception/%s" % type(e).__name__, "filter_config raised", dict(w, error=repr(e)[:200], acl_text_given=atext))
    return w


def check_ignore_case(seed, acc):
    """filter ACLs (--filter-acl, compiled with allow_ignore=True) may hold '!' rules at any depth: under a block whose children are all
    passed (`~`), the rows matched by a more specific ignore rule are dropped, everything else stays"""
    from annet.annlib.rbparser.acl import compile_acl_text
    from annet.annlib.patching import apply_acl
    rng = random.Random(seed)
    vname = VENDORS[rng.randrange(len(VENDORS))]
    from annet.vendors import registry_connector
    prefix = registry_connector.get()[vname].reverse
    U = G.gen_rulebook(rng, depth=3, prefix=prefix, allow=())
    t = G.gen_tree(rng, U, fill=0.8)
    blocks = [r for r in U if r.children and not r.pat.startswith(prefix + " ")]
    if not blocks:
        return
    B = rng.choice(blocks)
    X = rng.choice(B.children).pat.split()[0]
    depth2 = rng.random() < 0.5 and any(c.children for c in B.children)
    lines = [B.pat, "    ~ %global", "    !%s ~" % X, "    !%s" % X]
    if depth2:
        C = rng.choice([c for c in B.children if c.children])
        Y = rng.choice(C.children).pat.split()[0]
        lines = [B.pat, "    ~ %global", "    %s" % C.pat, "        !%s ~" % Y, "        !%s" % Y]
    text = "\n".join(lines)
    pt = plain(t)
    w = {"seed": seed, "ignore_case": True, "vendor": vname, "acl_A": text, "tree": pt}
    try:
        got = plain(apply_acl(t, compile_acl_text(text, vname, True), fatal_acl=False))
    except Exception as e:
        acc.violation("C06/exception/%s" % type(e).__name__, "compiling / applying a filter ACL with ignore rules raised", dict(w, error=repr(e)[:300]))
        return
    acc.count("ignore_rule_filters")

    def keep(nodes, lvl):
        out = []
        for row, ch in nodes:
            if lvl == 0:
                if R.match(B.pat, row) is None:
                    continue
                out.append([row, keep(ch, 1)])
            elif lvl == 1 and not depth2:
                if row.split()[0] != X:
                    out.append([row, keep(ch, 9)])
            elif lvl == 1:
                out.append([row, keep(ch, 2 if R.match(C.pat, row) is not None else 9)])
            elif lvl == 2:
                if row.split()[0] != Y:
                    out.append([row, keep(ch, 9)])
            else:
                out.append([row, keep(ch, 9)])
        return out
    exp = keep(pt, 0)
    acc.case(["ignore", vname, text, pt], nontrivial=(exp != pt and bool(exp)))
    if got != exp:
        acc.violation("C06/ignore-rule-filter-differs", "a filter ACL with an ignore rule does not drop exactly the rows that rule matches under the covered block",
                      dict(w, expected=exp, got=got))


def check_slash_regex_case(seed, acc):
    """ACL rules in the `word ~/regex/` and `*/regex/` forms whose regular expression contains slashes (interface names)"""
    from annet.annlib.rbparser.acl import compile_acl_text
    from annet.annlib.patching import apply_acl
    rng = random.Random(seed)
    vname = VENDORS[rng.randrange(len(VENDORS))]
    kinds = ["ge", "xe", "et"]
    good = rng.choice(kinds)
    form = rng.choice(["tilde", "star", "tilde-anchored"])
    if form == "tilde":
        rule = r"iface ~/%s-\d+/\d+/\d+/" % good
    elif form == "tilde-anchored":
        rule = r"iface ~/%s-\d+/\d+/\d+$/" % good
    else:
        rule = r"iface */%s-\d+/\d+/\d+/" % good
    text = rule + "\n    ~ %global\nother *\n"
    tree, exp = [], []
    for i in range(rng.randint(2, 6)):
        k = rng.choice(kinds)
        row = "iface %s-%d/%d/%d" % (k, rng.randint(0, 3), rng.randint(0, 9), i)
        if form == "tilde" and rng.random() < 0.3:
            row += " extra"
        ch = [["mtu %d" % rng.randint(1, 9), []], ["deep", [["er 1", []]]]][: rng.randint(0, 2)]
        tree.append([row, ch])
        ok = k == good and not (form in ("tilde-anchored", "star") and row.endswith(" extra"))
        if ok:
            exp.append([row, ch])
    tree.append(["other 1", []])
    exp.append(["other 1", []])
    w = {"seed": seed, "slash_regex": True, "vendor": vname, "acl_A": text, "tree": tree}
    try:
        got = plain(apply_acl(unplain(tree), compile_acl_text(text, vname), fatal_acl=False))
    except Exception as e:
        acc.violation("C06/exception/%s" % type(e).__name__, "compiling / applying an ACL whose regular expression contains slashes raised", dict(w, error=repr(e)[:300]))
        return
    acc.count("slash_regex_filters")
    acc.case(["slash", vname, text, tree], nontrivial=(exp != tree))
    if got != exp:
        acc.violation("C06/filter-differs", "apply_acl does not return exactly the covered lines", dict(w, which="A", expected=exp, got=got))


def check_inactive_case(seed, acc):
    """one ACL text compiled for the three vendors that negate with `delete` (in a shuffled order, in one process) and applied to a tree holding
    Junos `inactive: <statement>` rows: for juniper such a row belongs to the rule of <statement>; for nokia and ribbon it is a row like any other"""
    from annet.annlib.rbparser.acl import compile_acl_text
    from annet.annlib.patching import apply_acl
    rng = random.Random(seed)
    heads = ["interfaces", "protocols", "system", "policy-options"]
    covered = rng.sample(heads, rng.randint(1, 3))
    text = "".join("%s\n    * ~\n" % h if rng.random() < 0.5 else "%s\n    ~ %%global\n" % h for h in covered)
    tree = []
    for h in heads:
        ch = [[("inactive: " if rng.random() < 0.4 else "") + "%s%d x" % (rng.choice("abc"), i), []] for i in range(rng.randint(1, 3))]
        tree.append([("inactive: " if rng.random() < 0.4 else "") + h, ch])
    mrng = random.Random(seed ^ 0x1AC7)
    if mrng.random() < 0.6:
        # a statement that merely mentions the mark further right (a description) is an ordinary, active statement of its own head word
        h = mrng.choice(heads)
        tree.insert(mrng.randrange(len(tree) + 1), ['%s "inactive: spare %d"' % (h, mrng.randint(1, 9)), []])

    def expect(vname):
        out = []
        for row, ch in tree:
            base = row[len("inactive: "):] if row.startswith("inactive: ") else row
            if ' "inactive: ' in row:
                ok = row.split()[0] in covered      # (a rule text matches the rows that begin with it)
            elif vname == "juniper":
                ok = base in covered
            else:
                ok = row in covered
            if ok:
                out.append([row, ch])
        return out
    order = ["juniper", "nokia", "ribbon"]
    rng.shuffle(order)
    w = {"seed": seed, "inactive": True, "acl_A": text, "tree": tree, "vendor_order": order}
    for vname in order:
        try:
            got = plain(apply_acl(unplain(tree), compile_acl_text(text, vname), fatal_acl=False))
        except Exception as e:
            acc.violation("C06/exception/%s" % type(e).__name__, "compiling / applying an ACL to a tree with inactive rows raised", dict(w, vendor=vname, error=repr(e)[:300]))
            return
        acc.count("inactive_row_filters")
        acc.case(["inactive", vname, text, tree], nontrivial=True)
        exp = expect(vname)
        if got != exp:
            acc.violation("C06/filter-differs", "apply_acl does not return exactly the covered lines", dict(w, vendor=vname, which="A", expected=exp, got=got))
            return


def check_front_ends(seed, acc):
    """two places where the production code hands texts to the ACL functions: (a) the filter ACL of a run is the user's text and the texts the
    site's filterer makes for --filter-ifaces/-peers/-policies, one after the other: it passes what any of them passes; (b) a generator's strict
    pass happens whatever its ACL text is - with an empty (or missing) text the first line it yields is named in the error"""
    import types as _t
    from annet import gen
    from annet.annlib.patching import apply_acl
    from annet.annlib.rbparser.acl import compile_acl_text
    from annet.generators import GeneratorError, GeneratorPartialRunArgs, _run_partial_generator
    from annet.vendors import registry_connector
    from vf import harness_gen as H
    rng = random.Random(seed)
    vname = rng.choice(["huawei", "cisco", "arista"])
    v = registry_connector.get()[vname]
    dev = H.FakeDevice(v.hardware)
    parts = {"user": "snmp ~\nntp *", "ifaces": "interface Eth1\n    ~", "peers": "bgp *\n    peer k1 ~", "policies": "route-policy P1 ~"}
    tree = [["snmp a b", []], ["ntp k1", []], ["interface Eth1", [["mtu 9000", []]]], ["interface Eth2", [["mtu 1500", []]]], ["bgp 1", [["peer k1 x", []], ["peer k2 x", []]]],
            ["route-policy P1 permit", []], ["sysname s", []]]
    use = [k for k in ("ifaces", "peers", "policies") if rng.random() < 0.6] or ["ifaces"]
    user = rng.choice([None, parts["user"], parts["user"] + "\n", "\n" + parts["user"]])

    class Filt:
        def for_ifaces(self, device, x):
            return parts["ifaces"] + rng.choice(["", "\n"])

        def for_peers(self, device, x):
            return parts["peers"] + rng.choice(["", "\n"])

        def for_policies(self, device, x):
            return parts["policies"] + rng.choice(["", "\n"])
    args = _t.SimpleNamespace(filter_acl=("-" if user else None), filter_ifaces=(["Eth1"] if "ifaces" in use else None), filter_peers=(["k1"] if "peers" in use else None),
                              filter_policies=(["P1"] if "policies" in use else None))
    w = {"front_ends": True, "seed": seed, "vendor": vname, "user_text": user, "filter_options": use}
    try:
        rules = gen.build_filter_acl(Filt(), dev, {"filter_acl": user}, args, None)
        got = plain(apply_acl(unplain(tree), rules, fatal_acl=False))
    except Exception as e:
        acc.violation("C06/filter-text-of-a-run/exception-%s" % type(e).__name__, "building or applying the filter ACL of a run raised", dict(w, error=repr(e)[:300]))
        return
    acc.count("run_filter_acls_built")
    acc.case(["run-filter", vname, user, use], nontrivial=bool(user))
    for k in (["user"] if user else []) + use:
        alone = plain(apply_acl(unplain(tree), compile_acl_text(parts[k], vname, allow_ignore=True), fatal_acl=False))
        lost = [p_ for p_ in paths(unplain(alone)) if p_ not in list(paths(unplain(got)))]
        if lost:
            acc.violation("C06/merged-acl-passes-less", "the filter by two ACLs merged drops a line that one of them passes alone",
                          dict(w, part=k, lost=[list(x) for x in lost][:5], passed=got))
            return
    # (b)
    rows = [rng.choice(["sysname sw1", "ntp k1", "snmp a"]), "vlan 5"]

    def run(self, device):
        yield from rows
    text = rng.choice(["", None, "   ", "\n", "# nothing yet\n"])
    g = H.make_partial("GenEmptyAcl", vname, text, run)
    acc.count("generators_with_an_empty_acl_run_strictly")
    try:
        res = _run_partial_generator(g, GeneratorPartialRunArgs(dev, use_acl=True))
        acc.violation("C06/strict-mode/empty-acl-lets-lines-through", "a generator whose ACL text is empty is not stopped at its first line in strict mode",
                      dict(w, acl_text=text, rows=rows, result=str(plain(res.config))[:200] if res is not None else None))
    except GeneratorError as e:
        named = str(e.__cause__ or e)
        if not any(r_ in named for r_ in rows):
            acc.violation("C06/strict-mode/error-names-wrong-row", "the strict-mode error does not name an uncovered row", dict(w, acl_text=text, rows=rows, error=named[:200]))
    except Exception as e:
        acc.violation("C06/strict-mode/exception-%s" % type(e).__name__, "the strict pass of a generator with an empty ACL raised something else than the ACL error", dict(w, acl_text=text, error=repr(e)[:200]))


def run_shard(spec, acc):
    if spec["mode"] == "replay" and spec["witness"].get("front_ends"):
        return check_front_ends(spec["witness"]["seed"], acc)
    if spec["mode"] == "replay" and spec["witness"].get("inactive"):
        return check_inactive_case(spec["witness"]["seed"], acc)
    if spec["mode"] == "replay" and spec["witness"].get("slash_regex"):
        return check_slash_regex_case(spec["witness"]["seed"], acc)
    if spec["mode"] == "replay" and spec["witness"].get("ignore_case"):
        return check_ignore_case(spec["witness"]["seed"], acc)
    if spec["mode"] == "replay":
        check_case(spec["witness"]["seed"], acc, negpair=bool(spec["witness"].get("negpair")), deep=bool(spec["witness"].get("deep")))
        return
    tier, k, n = spec["tier"], spec["shard"], spec["nshards"]
    total = 4800 if tier == "quick" else 80000
    rng = random.Random("C06/%s/%s" % (spec["seed"], k))
    for j in range(total // n):
        seed = rng.randrange(1 << 48)
        if j % 8 == 0:
            check_front_ends(seed ^ 0xF0E, acc)
        w = check_case(seed, acc)
        if j < 2 and w:
            acc.sample({k2: w[k2] for k2 in ("vendor", "acl_A", "acl_B", "tree")})
        if j % 5 == 4:
            check_case(rng.randrange(1 << 48), acc, negpair=True)
        if j % 5 == 2:
            check_case(rng.randrange(1 << 48), acc, deep=True)
        if j % 5 == 1:
            check_ignore_case(rng.randrange(1 << 48), acc)
        if j % 10 == 3:
            check_slash_regex_case(rng.randrange(1 << 48), acc)
        if j % 10 == 8:
            check_inactive_case(rng.randrange(1 << 48), acc)
