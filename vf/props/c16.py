"""C16 - file mode and device mode compute the same diff and the same patch.

Relational monitor: the same (old, new, hardware) goes through the offline front end (_read_old_new_diff_patch, and
file_patch_worker / file_diff_worker on files written to a scratch directory) and through the device front end
(_diff_and_patch with no ACL, implicit defaults off); command paths (ordered) and diff entries must be equal.
"""
import os
import random
import shutil
import tempfile
import types
from collections import OrderedDict as odict

from vf.util import plain, unplain
from vf.props import c01

LEVEL = "exploration"
RULE = ("the shipped (before, after) fixture corpus with its hardware, per-vendor cross products (before_i/after_i x before_j/after_j), and random "
        "recombinations of corpus trees of one vendor (rows dropped, sub-trees swapped between samples, children thinned) for every stub hardware and the hardware "
        "families the rule templates branch on; many-port Cisco/Nexus trunk configurations whose VLAN list strings recur under several keys, each pair asked twice in one process; "
        "the text of file_diff_worker against the device diff's entries written out by the monitor. Non-trivial: both patches non-empty. Distinct: hash of (model, old, new).")
ASSUMPTIONS = [
    "no ACL, implicit defaults off, add_comments off",
    "if both front ends raise the same exception type for an input they are counted as agreeing (exceptions_agreed)",
]
FLOORS = {"quick": {"directories_scanned_for_saved_configurations": 30, "pairs_compared": 500, "nonempty_patches": 300, "file_workers_compared": 150, "file_workers_concrete_model": 80, "equal_config_pairs": 300, "device_workers_compared": 150, "device_workers_safe_differs_from_full": 40, "file_diff_lines_checked": 1500, "file_diff_moved_lines_checked": 60, "vlan_list_pairs": 300, "file_workers_compared_with_comments": 150, "patches_whose_commands_carry_comments": 10, "file_pairs_saved_with_a_left_margin": 100, "file_workers_with_another_output_indent": 40},
          "thorough": {"pairs_compared": 20000, "nonempty_patches": 12000, "file_workers_compared": 150, "file_workers_concrete_model": 80, "equal_config_pairs": 300, "device_workers_compared": 150, "device_workers_safe_differs_from_full": 40, "file_diff_lines_checked": 1500, "file_diff_moved_lines_checked": 60, "vlan_list_pairs": 6000, "file_workers_compared_with_comments": 150, "patches_whose_commands_carry_comments": 10}}
EXTRA_MODELS = {"huawei": ["Huawei CE6870", "Huawei NE40E-X8", "Huawei Quidway S5300"], "huawei ce": ["Huawei"], "cisco": ["Cisco Catalyst 2960"],
                "nexus": ["Cisco Nexus 3432"], "asr": ["Cisco XRv"], "iosxr": ["Cisco ASR 9010"]}


def plan(tier, seed):
    n = 8 if tier == "quick" else 16
    specs = [{"mode": "pairs", "tier": tier, "seed": seed, "shard": k, "nshards": n} for k in range(n)]
    specs.append({"mode": "files", "tier": tier, "seed": seed})
    specs.append({"mode": "workers", "tier": tier, "seed": seed})
    specs.append({"mode": "vlans", "tier": tier, "seed": seed})
    return specs


def norm_diff(diff):
    return [[getattr(op, "name", str(op)), row, norm_diff(ch)] for op, row, ch, _ in diff]


def both(hw, old, new):
    from annet.api import _read_old_new_diff_patch, _diff_and_patch
    from annet.vendors import registry_connector
    fmt = registry_connector.get().match(hw).make_formatter()
    res = {}
    try:
        _, fdiff, _, fpatch = _read_old_new_diff_patch(old, new, hw, False)
        res["file"] = ([list(p) for p in fmt.cmd_paths(fpatch)], norm_diff(fdiff))
    except Exception as e:
        res["file"] = ("EXC", type(e).__name__, str(e)[:200])
    try:
        ddiff, dpatch = _diff_and_patch(c01.Dev(hw), old, new, None, None, False)
        res["device"] = ([list(p) for p in fmt.cmd_paths(dpatch)], norm_diff(ddiff))
    except Exception as e:
        res["device"] = ("EXC", type(e).__name__, str(e)[:200])
    return res


def own_diff_lines(diff, level=0, indent="  "):
    sign = {"added": "+", "removed": "-", "affected": " ", "moved": ">"}
    out = []
    for op, row, ch, _ in diff:
        name = getattr(op, "name", str(op))
        if name in sign:
            out.append(("%s%s %s" % (sign[name], indent * level, row)).rstrip())
            out += own_diff_lines(ch, level + 1, indent)
    return out


def mech_key(res, hw):
    """mechanism key of a disagreement: which rulebook logic produced the differing commands"""
    return "C16/patch-differs"


def compare(hw, old, new, acc, w):
    res = both(hw, old, new)
    f, d = res["file"], res["device"]
    acc.count("pairs_compared")
    if f[0] == "EXC" or d[0] == "EXC":
        if f[0] == d[0] and f[1] == d[1]:
            acc.count("exceptions_agreed")
            acc.case([hw.model, w.get("old"), w.get("new")], nontrivial=False)
            return
        acc.violation("C16/one-front-end-raises", "one front end raises where the other computes a patch",
                      dict(w, file=f if f[0] == "EXC" else "ok", device=d if d[0] == "EXC" else "ok"))
        return
    acc.case([hw.model, w.get("old"), w.get("new")], nontrivial=bool(f[0]) and bool(d[0]))
    if f[0] and d[0]:
        acc.count("nonempty_patches")
    if f[0] != d[0]:
        acc.violation("C16/patch-differs", "the offline (file) front end produces different patch commands than the device front end for the same configurations",
                      dict(w, file_cmds=f[0][:40], device_cmds=d[0][:40]))
    elif f[1] != d[1]:
        acc.violation("C16/diff-differs", "the offline (file) front end reports different diff entries than the device front end",
                      dict(w, file_diff=f[1][:20], device_diff=d[1][:20]))


def load_corpus():
    from vf import corpus
    out = []
    for s in corpus.patch_samples():
        try:
            hw, old, new = corpus.sample_configs(s)
        except Exception:
            continue
        out.append((s, hw, old, new))
    return out


def recombine(rng, trees):
    base = unplain(plain(rng.choice(trees)))
    other = rng.choice(trees)
    out = odict()
    for row, ch in base.items():
        x = rng.random()
        if x < 0.2:
            continue
        if ch and x < 0.5:
            ch = odict((r, c) for r, c in ch.items() if rng.random() < 0.7)
        out[row] = ch
    for row, ch in other.items():
        if row not in out and rng.random() < 0.5:
            out[row] = ch
        elif row in out and ch and rng.random() < 0.3:
            out[row] = ch
    return out


def run_pairs(spec, acc):
    from annet.annlib.netdev.views.hardware import HardwareView
    tier, k, n = spec["tier"], spec["shard"], spec["nshards"]
    cps = load_corpus()
    rng = random.Random("C16/%s/%s" % (spec["seed"], k))
    i = 0
    by_vendor = {}
    for s, hw, old, new in cps:
        by_vendor.setdefault(s[1], []).append((s, hw, old, new))
    # (a) the corpus itself, with stub hardware and the hardware families the templates branch on
    for s, hw, old, new in cps:
        i += 1
        if i % n != k:
            continue
        for model in [hw.model] + EXTRA_MODELS.get(s[1], []):
            h = HardwareView(model, "")
            compare(h, old, new, acc, {"sample": s[0], "model": model, "old": plain(old), "new": plain(new)})
    # (b) cross products per vendor
    for vk, items in by_vendor.items():
        trees = [t for s, hw, old, new in items for t in (old, new)]
        hw = items[0][1]
        pairs = [(a, b) for a in range(len(trees)) for b in range(len(trees)) if a != b]
        rng2 = random.Random("C16/x/%s/%s" % (spec["seed"], vk))
        rng2.shuffle(pairs)
        limit = 120 if tier == "quick" else 4000
        for a, b in pairs[:limit]:
            i += 1
            if i % n != k:
                continue
            compare(hw, trees[a], trees[b], acc, {"cross": vk, "model": hw.model, "old": plain(trees[a]), "new": plain(trees[b])})
    # (b') equal and reordered configurations: nothing differs, yet logic functions that read unchanged rows may still emit commands
    for vk, items in by_vendor.items():
        hw = items[0][1]
        for s, _, old, new in items:
            for t in (old, new):
                i += 1
                if i % n != k:
                    continue
                acc.count("equal_config_pairs")
                compare(hw, t, t, acc, {"equal": vk, "sample": s[0], "model": hw.model, "old": plain(t), "new": plain(t)})
                rev = type(t)(reversed(list(t.items())))
                compare(hw, t, rev, acc, {"equal": vk, "sample": s[0], "model": hw.model, "old": plain(t), "new": plain(rev)})
    # (c) random recombinations
    total = 400 if tier == "quick" else 20000
    vks = sorted(by_vendor)
    for j in range(total // n):
        vk = rng.choice(vks)
        items = by_vendor[vk]
        trees = [t for s, hw, old, new in items for t in (old, new)]
        hw = items[0][1]
        if EXTRA_MODELS.get(vk) and rng.random() < 0.4:
            hw = HardwareView(rng.choice(EXTRA_MODELS[vk]), "")
        old, new = recombine(rng, trees), recombine(rng, trees)
        compare(hw, old, new, acc, {"random": vk, "model": hw.model, "old": plain(old), "new": plain(new)})
    acc.sample({"corpus_samples": len(cps), "vendors": vks})


VLAN_MODELS = [("Cisco Catalyst 2960", "interface GigabitEthernet0/%d"), ("Cisco Nexus 9316", "interface Ethernet1/%d"), ("Cisco Nexus 3432", "interface Ethernet1/%d")]


def gen_vlan_side(rng, pool, nports, ifmt):
    """several trunk ports and VLAN groups whose list lines are drawn from one small pool of list strings, so the same text recurs under several keys"""
    t = odict()
    for g in range(rng.randint(0, 2)):
        t["vlan group G%d vlan-list %s" % (g, rng.choice(pool))] = odict()
    for p_ in range(nports):
        if rng.random() < 0.15:
            continue
        ch = odict()
        if rng.random() < 0.8:
            ch["switchport mode trunk"] = odict()
        lists = rng.sample(pool, rng.randint(0, min(3, len(pool))))
        for i_, ls in enumerate(lists):
            ch["switchport trunk allowed vlan %s%s" % ("add " if i_ else "", ls)] = odict()
        if rng.random() < 0.3:
            ch["description p%d" % rng.randint(1, 3)] = odict()
        t[ifmt % p_] = ch
    return t


def run_vlans(spec, acc):
    """both front ends, one after the other in one process, on many-port configurations sharing VLAN list strings; each pair twice"""
    from annet.annlib.netdev.views.hardware import HardwareView
    rng = random.Random("C16/vlans/%s" % spec["seed"])
    for j in range(300 if spec["tier"] == "quick" else 6000):
        model, ifmt = rng.choice(VLAN_MODELS)
        pool = []
        for _ in range(rng.randint(2, 4)):
            base = sorted(rng.sample([10, 11, 12, 20, 30, 31, 40], rng.randint(1, 4)))
            from vf.props import c11
            pool.append(c11.fmt_ranges(base, "cisco"))
        pool = sorted(set(pool))
        nports = rng.randint(2, 4)
        old = gen_vlan_side(rng, pool, nports, ifmt)
        new = gen_vlan_side(rng, pool, nports, ifmt)
        hw = HardwareView(model, "")
        w = {"vlans": True, "model": model, "old": plain(old), "new": plain(new)}
        acc.count("vlan_list_pairs")
        compare(hw, old, new, acc, w)
        compare(hw, old, new, acc, w)  # asked again: earlier computations in the process must not change the answer


def run_files(spec, acc):
    """the CLI workers on real files vs the device path"""
    from vf import corpus
    from annet import api
    from annet.annlib.patching import make_pre
    from annet.annlib.diff import gen_pre_as_diff
    d = tempfile.mkdtemp(prefix="vf_c16_")
    try:
        from annet.annlib.netdev.views.hardware import HardwareView
        from annet import tabparser
        from annet.vendors import registry_connector
        from vf.props import c20
        jobs = []
        for s in corpus.patch_samples():
            name, vk, before, after, diff, patch = s
            if before is None or after is None:
                continue
            try:
                hw, old, new = corpus.sample_configs(s)
            except Exception:
                continue
            jobs.append((name, hw, before, after, old, new))
            # the same pair for concrete models of the vendor: the rule templates branch on the hardware family, and the
            # file workers must pick the rulebook of the model they were given
            for model in EXTRA_MODELS.get(vk, []):
                jobs.append((name, HardwareView(model, ""), before, after, old, new))
        for j in c20.HAND + c20.NESTED:
            h = HardwareView(j["model"], "")
            fmt = registry_connector.get().match(h).make_formatter()
            jobs.append(("hand:" + j["old"][:30], h, j["old"], j["new"], tabparser.parse_to_tree(j["old"], fmt.split), tabparser.parse_to_tree(j["new"], fmt.split)))
        # RouterOS pairs (the one splitter that rebuilds nesting from the text with its own indent) under every output indent
        for nm_, hw_, b_, a_, o_, n_ in list(jobs):
            if nm_.startswith("routeros"):
                for i_ in ("", "    ", "\t"):
                    jobs.append((nm_ + "|indent=" + i_, hw_, b_, a_, o_, n_))
        # pairs whose patch holds commands with rule hints (shown with --add-comments only)
        for model in ("Cisco Catalyst 2960", "Cisco Catalyst 3560", "Cisco Catalyst", "Cisco ASR 9010", "Cisco XRv"):
            h = HardwareView(model, "")
            fmt = registry_connector.get().match(h).make_formatter()
            for o_, n_ in (("", "ip ssh version 2\n"), ("hostname a\n", "hostname a\nip ssh version 2\n"), ("hostname a\n", "hostname b\nip ssh version 2\n")):
                jobs.append(("hints:" + n_[:20], h, o_, n_, tabparser.parse_to_tree(o_, fmt.split), tabparser.parse_to_tree(n_, fmt.split)))
        for jn, (name, hw, before, after, old, new) in enumerate(jobs):
            op, np_ = os.path.join(d, "old.cfg"), os.path.join(d, "new.cfg")
            # every third pair is saved with a uniform left margin (a dump pasted out of an indented block): the same configuration
            margin = ("", "    ", "\t")[jn % 3] if registry_connector.get().match(hw).NAME not in ("juniper", "ribbon", "nokia", "routeros", "pc") else ""
            if margin:
                acc.count("file_pairs_saved_with_a_left_margin")
            with open(op, "w") as f:
                f.write("".join(margin + ln if ln.strip() else ln for ln in before.splitlines(True)))
            with open(np_, "w") as f:
                f.write("".join(margin + ln if ln.strip() else ln for ln in after.splitlines(True)))
            # the output option --indent (none, two blanks, four) changes how the result is printed, never how the saved configurations are read
            ind = ("  ", "", "    ")[(jn // 3) % 3] if jn % 5 == 0 else "  "
            if "|indent=" in name:
                ind = name.split("|indent=")[1]
            if ind != "  ":
                acc.count("file_workers_with_another_output_indent")
            args = types.SimpleNamespace(hw=hw, add_comments=False, indent=ind, show_rules=False, no_color=True, old=op, new=np_)
            w = {"files": True, "sample": name, "model": hw.model}
            try:
                ddiff, dpatch = api._diff_and_patch(c01.Dev(hw), old, new, None, None, False)
                derr = None
            except Exception as e:
                derr = type(e).__name__
            try:
                fp = list(api.file_patch_worker((op, np_), args))
                fd = list(api.file_diff_worker((op, np_), args))
                ferr = None
            except Exception as e:
                ferr = type(e).__name__
                if derr is None:
                    acc.violation("C16/file-worker-exception/%s" % type(e).__name__, "a file worker raised on a pair the device front end handles", dict(w, error=repr(e)[:300]))
                    continue
            if derr is not None:
                # a pair outside this model's rulebook domain (e.g. a CE-only rule on an NE model): both front ends must refuse it alike
                acc.count("file_workers_both_refuse")
                if ferr != derr:
                    acc.violation("C16/one-front-end-raises", "the device front end raises on this pair and the file front end does not (or raises something else)",
                                  dict(w, device_error=derr, file_error=ferr))
                continue
            acc.count("file_workers_compared")
            if hw.model not in corpus.STUB_HW.values():
                acc.count("file_workers_concrete_model")
            acc.case(["files", name, hw.model], nontrivial=True)
            exp_patch = api._format_patch_blocks(dpatch, hw, ind)
            got_patch = fp[0][1] if fp else ""
            if got_patch != exp_patch:
                acc.violation("C16/patch-differs", "file_patch_worker prints a different patch than the device front end computes for the same configurations",
                              dict(w, file_patch=got_patch.split("\n")[:30], device_patch=exp_patch.split("\n")[:30]))
                continue
            # the same with --add-comments (rule hints such as !!timeout=..!! appended to the commands)
            try:
                _, dpatch_c = api._diff_and_patch(c01.Dev(hw), old, new, None, None, True)
                exp_c = api._format_patch_blocks(dpatch_c, hw, "  ")
                args_c = types.SimpleNamespace(hw=hw, add_comments=True, indent="  ", show_rules=False, no_color=True, old=op, new=np_)
                fp_c = list(api.file_patch_worker((op, np_), args_c))
                got_c = fp_c[0][1] if fp_c else ""
            except Exception as e:
                acc.violation("C16/add-comments-exception/%s" % type(e).__name__, "a front end raised with --add-comments on a pair both handle without", dict(w, error=repr(e)[:300]))
                continue
            acc.count("file_workers_compared_with_comments")
            if exp_c != exp_patch:
                acc.count("patches_whose_commands_carry_comments")
            if got_c != exp_c:
                acc.violation("C16/patch-differs-with-add-comments", "with --add-comments file_patch_worker prints a different patch than the device front end",
                              dict(w, file_patch=got_c.split("\n")[:30], device_patch=exp_c.split("\n")[:30]))
                continue
            exp_diff = "".join(gen_pre_as_diff(make_pre(ddiff), False, ind, True))
            got_diff = fd[0][1] if fd else ""
            # the entries of the device front end's diff, written out by the monitor itself (one line per added / removed / affected / moved row)
            own = own_diff_lines(ddiff, indent=ind)
            acc.count("file_diff_lines_checked", len(own))
            acc.count("file_diff_moved_lines_checked", sum(1 for x in own if x.startswith(">")))
            if sorted(x.rstrip() for x in got_diff.split("\n") if x.strip()) != sorted(own):
                acc.violation("C16/file-diff-text-differs-from-device-diff", "the text file_diff_worker prints does not hold exactly the entries (added, removed, affected, moved rows) of the device front end's diff",
                              dict(w, file_diff=got_diff.split("\n")[:40], device_diff_entries=own[:40]))
                continue
            if sorted(got_diff.split("\n")) != sorted(exp_diff.split("\n")):
                acc.violation("C16/diff-differs", "file_diff_worker prints different diff lines than the device front end's diff",
                              dict(w, file_diff=got_diff.split("\n")[:30], device_diff=exp_diff.split("\n")[:30]))
    finally:
        shutil.rmtree(d, ignore_errors=True)


def check_batch_scan(spec, acc):
    """`annet file-diff OLD_DIR NEW_DIR`: every saved configuration present in both directories is handed to the worker - whatever the two files
    hold (equal, differing in one line, differing in the nesting of a line only, blank-line differences)"""
    import shutil
    import tempfile
    import types as _t
    from annet import api
    rng = random.Random("C16/batch/%s" % spec["seed"])
    d = tempfile.mkdtemp(prefix="vf_c16_batch_")
    try:
        for k in range(40 if spec["tier"] == "quick" else 400):
            od, nd = os.path.join(d, "o%d" % k), os.path.join(d, "n%d" % k)
            os.makedirs(od)
            os.makedirs(nd)
            body = ["sysname sw%d" % k, "aaa", " domain default", "  accounting-scheme acct", " local-user x", "interface GE1", " description a"]
            want = set()
            for h in range(rng.randint(2, 6)):
                kind = rng.choice(["equal", "line", "nesting", "blank", "old-only", "new-only"])
                o_, n_ = list(body), list(body)
                if kind == "line":
                    n_[-1] = " description b"
                elif kind == "nesting":
                    n_[3] = " accounting-scheme acct"       # the same words one level further out
                elif kind == "blank":
                    n_.insert(2, "")
                name = "h%d.cfg" % h
                if kind != "new-only":
                    open(os.path.join(od, name), "w").write("\n".join(o_) + "\n")
                if kind != "old-only":
                    open(os.path.join(nd, name), "w").write("\n".join(n_) + "\n")
                if kind not in ("old-only", "new-only"):
                    want.add((name, kind))
            got = {os.path.basename(a_) for a_, b_ in api._read_old_new_cfgdumps(_t.SimpleNamespace(old=od, new=nd))}
            acc.count("directories_scanned_for_saved_configurations")
            acc.case(["batch", sorted(want)], nontrivial=bool(want))
            # (pairs that hold the same configuration may be skipped: nothing would be printed for them anyway)
            missing = sorted((n_, k_) for n_, k_ in want if n_ not in got and k_ in ("line", "nesting"))
            if missing or (got - {n_ for n_, _ in want}):
                acc.violation("C16/batch-scan-skips-a-pair", "a saved configuration present in both directories, and not the same in both, is not handed to the file workers (or one present in one only is)",
                              {"batch": True, "seed": spec["seed"], "missing": [list(x) for x in missing], "unexpected": sorted(got - {n_ for n_, _ in want})})
                return
    finally:
        shutil.rmtree(d, ignore_errors=True)


def run_workers(spec, acc):
    check_batch_scan(spec, acc)
    """the device front ends as the CLI runs them (`annet patch` / `annet diff` workers over a loader, generators and the device text)
    against the composition they wrap, with and without --acl-safe"""
    from annet import api
    from annet.annlib.patching import strip_unchanged
    from annet.vendors import registry_connector
    from vf import corpus
    from vf import harness_gen as H
    from vf.ref import diff as RD
    rng = random.Random("C16/workers/%s" % spec["seed"])
    cps = load_corpus()
    rng.shuffle(cps)
    limit = 60 if spec["tier"] == "quick" else len(cps)

    def norm3(d):
        return [(getattr(op, "name", str(op)), row, norm3(ch)) for op, row, ch, _ in (d or [])]

    def canon(d):
        return RD.canon(norm3(d))
    for s, hw, old, new in cps[:limit]:
        v = registry_connector.get().match(hw)
        if v.NAME == "pc":
            continue
        fmt = v.make_formatter()
        dev = H.FakeDevice(hw)
        old_text = fmt.join(old)
        import re as _re
        pnew = plain(new)
        clean = lambda r: bool(_re.fullmatch(r"[A-Za-z][A-Za-z0-9_-]*", r.split()[0]))
        rows_a = [x for i_, x in enumerate(pnew) if i_ % 2 == 0 and clean(x[0])]
        rows_b = [x for x in pnew if x not in rows_a]
        words_a = sorted({x[0].split()[0] for x in rows_a})
        acl_a = "\n".join("%s ~\n    ~ %%global\n%s\n    ~ %%global" % (w_, w_) for w_ in words_a) or "nothing-at-all"
        all_words = sorted({r.split()[0] for r in list(old) + list(new) if clean(r)})
        for safe, filt in ((False, False), (True, False), (False, True), (True, True)):
            # two generators: a safe one owning every second top-level row (ACL = safe ACL = the first words of its rows) and an
            # unsafe one owning the rest (ACL: everything); --filter-acl narrows to a random half of the first words
            gens = [H.make_partial("GenSafe", v.NAME, acl_a, H.tree_runner(rows_a), acl_safe_text=acl_a),
                    H.make_partial("GenRest", v.NAME, "~ %global", H.tree_runner(rows_b))]
            ftext = None
            if filt:
                fw = [w_ for w_ in all_words if rng.random() < 0.5] or all_words[:1]
                ftext = "\n".join("%s ~\n    ~ %%global\n%s\n    ~ %%global" % (w_, w_) for w_ in fw) or None
            w = {"workers": True, "sample": s[0], "model": hw.model, "acl_safe": safe, "filter_acl": ftext}
            try:
                res = H.old_new(dev, gens, old_text, add_implicit=True, acl_safe=safe, no_acl_exclusive=True, filter_acl_text=ftext)
                if res.err is not None:
                    raise res.err
                ddiff, dpatch = api._diff_and_patch(dev, res.get_old(safe), res.get_new(safe), res.get_acl_rules(safe), res.filter_acl_rules, False)
                exp_text = api._format_patch_blocks(dpatch, hw, "  ") if dpatch else None
            except Exception as e:
                acc.count("workers_skipped_%s" % type(e).__name__)
                continue
            try:
                got = H.run_patch_worker(dev, gens, old_text, acl_safe=safe, no_acl_exclusive=True, filter_acl_text=ftext)
                gdiff = H.run_diff_worker(dev, gens, old_text, acl_safe=safe, no_acl_exclusive=True, filter_acl_text=ftext)
            except Exception as e:
                acc.violation("C16/worker-exception/%s" % type(e).__name__, "a device-mode worker raised where the composition it wraps does not", dict(w, error=repr(e)[:300]))
                continue
            acc.count("device_workers_compared")
            if safe and plain(res.get_new(True)) != plain(res.get_new(False)):
                acc.count("device_workers_safe_differs_from_full")
            acc.case(["workers", s[0], safe, ftext], nontrivial=bool(exp_text))
            got_text = got[0][1] if got else None
            if got_text != exp_text:
                acc.violation("C16/patch-worker-differs", "the `annet patch` worker prints another patch than _diff_and_patch gives for the same front-end result and options",
                              dict(w, worker=(got_text or "").split("\n")[:30], expected=(exp_text or "").split("\n")[:30]))
                continue
            if canon(gdiff) != canon(ddiff):
                acc.violation("C16/diff-worker-differs", "the `annet diff` worker reports other diff entries than the diff the patch is built from",
                              dict(w, worker=canon(gdiff), expected=canon(ddiff)))


def run_shard(spec, acc):
    if spec["mode"] == "workers":
        return run_workers(spec, acc)
    if spec["mode"] == "vlans":
        return run_vlans(spec, acc)
    if spec["mode"] == "replay" and spec["witness"].get("batch"):
        return check_batch_scan({"tier": "quick", "seed": spec["witness"].get("seed", 0)}, acc)
    if spec["mode"] == "replay" and spec["witness"].get("workers"):
        return run_workers({"tier": "quick", "seed": 0}, acc)
    if spec["mode"] == "replay":
        from annet.annlib.netdev.views.hardware import HardwareView
        w = spec["witness"]
        if w.get("files"):
            return run_files(spec, acc)
        compare(HardwareView(w["model"], ""), unplain(w["old"]), unplain(w["new"]), acc, w)
        return
    if spec["mode"] == "files":
        return run_files(spec, acc)
    run_pairs(spec, acc)
