"""C19 - file-based devices get each changed file once, from the winning generator.

Decision-table oracle on real executions of run_file_generators(...).new_files(), PCDeployerJob.parse_result and
pc_diff: winner per path = highest prio in ALL listing orders; upload set == {p : old.get(p) != new[p]} (all paths
when reload is forced); uploaded bytes == generated content; reload command attached iff reloads are enabled; the
file diff is empty iff the contents are equal.
"""
import itertools
import random
import types

LEVEL = "exploration"
RULE = ("1-5 Entire generators over <=3 paths with distinct prios (incl. 0 and negative), outputs differing from the device file by a line, by a trailing newline only, "
        "empty vs missing, equal; is_safe flags; reload strings; every listing order (<=4!, sampled 24 beyond) x entire_reload in {yes, no, force} x safe mode. "
        "Non-trivial: >=2 generators share a path or old != new for some path. Distinct: hash of (generator set, listing order, old files, reload mode).")
ASSUMPTIONS = [
    "generators have distinct priorities per path (ties are not specified)",
    "the device file differ is annet.diff.UnifiedFileDiffer (the shipped default implementation), PC hardware, software string without Cumulus/SONiC",
]
FLOORS = {"quick": {"listing_orders": 3000, "jobs_parsed": 3000, "shared_paths": 500, "forced_runs": 500, "diffs_checked": 1500, "cases_with_unsupported_generators": 400, "safe_mode_jobs": 2000, "safe_mode_jobs_with_empty_safe_set": 200, "cases_with_multi_line_files": 800, "cases_with_a_device_file_holding_the_same_lines_in_another_order": 300, "cases_with_instance_level_priorities": 800, "generators_without_a_reload_command": 500, "jobs_with_real_deploy_options": 3000, "generators_without_a_path_for_the_device": 300, "cases_with_a_word_that_contains_None": 200, "cases_changing_only_lines_that_begin_with_two_signs": 200},
          "thorough": {"listing_orders": 120000, "jobs_parsed": 120000, "shared_paths": 20000, "forced_runs": 20000, "diffs_checked": 60000, "cases_with_unsupported_generators": 15000, "safe_mode_jobs": 80000, "safe_mode_jobs_with_empty_safe_set": 8000}}
PATHS = ["/etc/a.conf", "/etc/b/b.conf", "/etc/c"]
KNOWN_NL = "C19/upload-decision-blind-to-trailing-newline"
KNOWN_EMPTY = "C19/upload-decision-blind-to-missing-vs-empty"
WHAT = {
    KNOWN_NL: "the upload decision and the shown file diff come from a splitlines() comparison: a file that differs from the device's only by its trailing newline is neither uploaded nor shown",
    KNOWN_EMPTY: "the upload decision and the shown file diff come from a splitlines() comparison: a file that is missing on the device and generated empty is neither created nor shown",
}


def plan(tier, seed):
    n = 8 if tier == "quick" else 16
    return [{"mode": "random", "tier": tier, "seed": seed, "shard": k, "nshards": n} for k in range(n)]


def setup_connectors():
    import annet.diff as D
    try:
        D.file_differ_connector.set(D.UnifiedFileDiffer)
    except Exception:
        pass


class _Driver:
    def build_configuration_cmdlist(self, hw, do_finalize=True, do_commit=True):
        from annet.annlib.command import CommandList
        return CommandList(), CommandList()

    def build_exit_cmdlist(self, hw):
        from annet.annlib.command import CommandList
        return CommandList()

    def apply_deploy_rulebook(self, hw, cmd_paths, do_finalize=True, do_commit=True):
        raise AssertionError("not a CLI device")


def make_entire(name, path, prio, output, reload, safe, unsupported=False, prio_on="class", **_):
    """prio_on: the priority is a class attribute (usual), set on the instance after construction, or left to the default (100);
    reload None: the generator does not define reload() at all, "<none>": it returns None"""
    from annet.generators import Entire, NotSupportedDevice
    from vf.harness_gen import FakeStorage

    def run(self, device, _o=output):
        if unsupported:
            raise NotSupportedDevice("not for this device")
        return _o
    # (a generator may also say "not for this device" by giving no path)
    ns = {"path": lambda self, device, _p=(None if unsupported == "path" else path): _p, "run": run, "is_safe": lambda self, device, _s=safe: _s, "TAGS": []}
    if reload == "<none>":
        ns["reload"] = lambda self, device: None
    elif reload is not None:
        ns["reload"] = lambda self, device, _r=reload: _r
    if prio_on == "class":
        ns["prio"] = prio
    base = Entire
    if prio_on == "base":
        base = types.new_class(name + "Base", (Entire,), {}, lambda d: d.update({"prio": prio}))  # the priority comes from an intermediate base class
    cls = types.new_class(name, (base,), {}, lambda d: d.update(ns))
    inst = cls(storage=FakeStorage())
    if prio_on == "instance":
        inst.prio = prio
    return inst


def gen_case(rng):
    contents = ["line1\nline2\n", "line1\nline2", "line1\nlineX\n", "", "\n", "line1\n", "other\n"]
    ng = rng.randint(1, 5)
    prios = rng.sample([-5, 0, 1, 10, 50, 100, 200, 300], ng)
    gens = []
    for i in range(ng):
        gens.append({"name": "E%d" % i, "path": rng.choice(PATHS[: rng.randint(1, 3)]), "prio": prios[i], "output": rng.choice(contents),
                     "reload": rng.choice(["", "systemctl reload x", "svc restart %d" % i]), "safe": rng.random() < 0.5})
    old = {}
    for p in PATHS:
        r = rng.random()
        if r < 0.35:
            continue  # missing on the device
        old[p] = rng.choice(contents)
    return gens, old


RICH = ["nameserver 1.1.1.1\nnameserver 8.8.8.8\n", "a\nb\nc\n", "permit x\ndeny y\npermit z\ndeny y\n", "k = 1\nk = 2", "one\n\ntwo\n"]


def deploy_args(acc, mode, acl_safe=False):
    """the options object `annet deploy` builds (cli_args.DeployOptions); a bare namespace only if it cannot be built here"""
    from annet import cli_args
    try:
        from annet.storage import Query

        class _Q(Query):
            @classmethod
            def new(cls, query, hosts_range=None):
                return cls()
        a = cli_args.DeployOptions(query=_Q(), entire_reload=mode, acl_safe=acl_safe)
        acc.count("jobs_with_real_deploy_options")
        return a
    except Exception:
        return types.SimpleNamespace(acl_safe=acl_safe, entire_reload=mode)


def rl(r):
    return "" if r in (None, "<none>") else r


def rl_dev(g, soft):
    """the reload command planned for a file: the generator's own, and on the platforms that keep /etc under etckeeper (Cumulus, SwitchDev, SONiC)
    the commit of the file after it"""
    base = rl(g["reload"])
    if soft.startswith(("Cumulus", "SwitchDev", "SONiC")):
        return "\n".join(([base] if base else []) + ["/usr/bin/etckeeper commitreload %s" % g["path"]])
    return base


def check_case(seed, acc, unsupported=False, perm=False, inst=False):
    import annet.deploy as AD
    from annet import api, cli_args
    from annet.generators import run_file_generators
    from annet.diff import pc_diff
    from annet.types import OldNewResult
    from annet.annlib.netdev.views.hardware import HardwareView
    from vf import harness_gen as H
    setup_connectors()
    rng = random.Random(seed)
    gens_spec, old = gen_case(rng)
    if unsupported:
        # some generators do not support this device (their run() says so): they neither produce nor shadow anything
        for g in gens_spec:
            g["unsupported"] = rng.random() < 0.4
        urng = random.Random(seed ^ 0x0FF)
        for g in gens_spec:
            if g["unsupported"] and urng.random() < 0.5:
                g["unsupported"] = "path"
        acc.count("cases_with_unsupported_generators")
        acc.count("generators_without_a_path_for_the_device", sum(1 for g in gens_spec if g["unsupported"] == "path"))
    if perm:
        # multi-line files; the device often holds the same lines in another order, one line repeated, or one line changed in place
        prng = random.Random(seed ^ 0x9E37)
        for g in gens_spec:
            g["output"] = prng.choice(RICH)
        for g in gens_spec:
            if prng.random() < 0.7:
                ls = g["output"].split("\n")
                tail = ls[-1:] if ls[-1] == "" else []
                body = ls[:len(ls) - len(tail)]
                x = prng.random()
                if x < 0.6:
                    prng.shuffle(body)
                elif x < 0.8:
                    body = body + body[:1]
                else:
                    body = [body[0] + " "] + body[1:]
                old[g["path"]] = "\n".join(body + tail)
        wrng = random.Random(seed ^ 0x40E)
        if wrng.random() < 0.4:
            # words that merely contain the letters of Python's None (a site name, a port name): ordinary file content
            g = wrng.choice(gens_spec)
            g["output"] = wrng.choice(["owner NoneSuch-dc1\n", "port xeNone0\nport xe1\n", "mode NONE\nnone\n"]) + g["output"]
            acc.count("cases_with_a_word_that_contains_None")
        if wrng.random() < 0.35:
            # the file and the device differ in nothing but lines that begin with `--` / `++` (a Lua or SQL comment, a long option): a change like any other
            g = wrng.choice(gens_spec)
            body = wrng.choice(["opt a\nopt b\n", "listen 80\n"])
            if wrng.random() < 0.5:
                g["output"], old[g["path"]] = body, wrng.choice(["-- generated by hand\n", "--verbose\n"]) + body
            else:
                g["output"], old[g["path"]] = wrng.choice(["++ extra\n", "++x\n"]) + body, body
            acc.count("cases_changing_only_lines_that_begin_with_two_signs")
        acc.count("cases_with_multi_line_files")
        if any(old.get(g["path"]) is not None and old[g["path"]] != g["output"] and sorted(old[g["path"]].split("\n")) == sorted(g["output"].split("\n")) for g in gens_spec):
            acc.count("cases_with_a_device_file_holding_the_same_lines_in_another_order")
    if inst:
        # priorities given to generator objects rather than classes (one class serving several paths/prios), the default priority,
        # and generators without a reload command of their own
        irng = random.Random(seed ^ 0x1257)
        for g in gens_spec:
            g["prio_on"] = irng.choice(["instance", "instance", "class", "base", "base"])
            if irng.random() < 0.35:
                g["reload"] = irng.choice([None, "<none>"])
        if irng.random() < 0.3 and all(g["prio"] != 100 for g in gens_spec):
            g = irng.choice(gens_spec)
            g["prio"], g["prio_on"] = 100, "default"
        acc.count("cases_with_instance_level_priorities")
        acc.count("generators_without_a_reload_command", sum(1 for g in gens_spec if g["reload"] in (None, "<none>")))
    soft = random.Random(seed ^ 0x50F7).choice(["Linux", "Linux", "SONiC-OS-4.1.0", "SONiC.202305", "Cumulus Linux 4.4", "SwitchDev 1.2", ""])   # (the apply logic of file-based devices looks at the software)
    acc.distinct("software_of_file_based_devices", soft)
    dev = H.FakeDevice(HardwareView("PC", soft), pc=True)
    w = {"seed": seed, "unsupported": unsupported, "perm": perm, "inst": inst, "software": soft, "generators": gens_spec, "old_files": old}
    # expected winner per path
    exp = {}
    for g in gens_spec:
        if g.get("unsupported"):
            continue
        if g["path"] not in exp or g["prio"] > exp[g["path"]]["prio"]:
            exp[g["path"]] = g
    shared = len({g["path"] for g in gens_spec}) < len(gens_spec)
    orders = list(itertools.permutations(range(len(gens_spec))))
    if len(orders) > 24:
        orders = rng.sample(orders, 24)
    nontrivial = shared or any(old.get(p) != g["output"] for p, g in exp.items())
    first_new = None
    for order in orders:
        gens = [make_entire(**{k: v for k, v in gens_spec[i].items()}) for i in order]
        try:
            # (the selection may arrive as a list or as a one-shot iterator: annet.gen hands over DeviceGenerators.file_gens(device))
            res = run_file_generators(gens if (seed + len(order)) % 2 else iter(gens), dev)
            nf = res.new_files()
            nfs = res.new_files(safe=True)
        except Exception as e:
            acc.violation("C19/exception/%s" % type(e).__name__, "run_file_generators raised", dict(w, order=list(order), error=repr(e)[:200]))
            return
        acc.count("listing_orders")
        if shared:
            acc.count("shared_paths")
        acc.case([gens_spec, list(order), old], nontrivial=nontrivial)
        want = {p: (g["output"], rl_dev(g, soft)) for p, g in exp.items()}
        if {p: tuple(v) for p, v in nf.items()} != want:
            acc.violation("C19/wrong-winner", "the content planned for a path is not the output of the highest-priority generator for that path (or depends on the listing order)",
                          dict(w, order=list(order), planned={p: list(v) for p, v in nf.items()}, expected={p: list(v) for p, v in want.items()}))
            return
        want_safe = {p: (g["output"], rl_dev(g, soft)) for p, g in exp.items() if g["safe"]}
        if {p: tuple(v) for p, v in nfs.items()} != want_safe:
            acc.violation("C19/wrong-safe-set", "safe mode does not plan exactly the winning generators that are marked safe",
                          dict(w, order=list(order), planned={p: list(v) for p, v in nfs.items()}))
            return
        first_new = nf
    # deploy job
    orig = AD.get_deployer
    AD.get_deployer = lambda: _Driver()
    try:
        for mode in (cli_args.EntireReloadFlag.yes, cli_args.EntireReloadFlag.no, cli_args.EntireReloadFlag.force):
            job = api.PCDeployerJob(dev, deploy_args(acc, mode) if seed % 2 else types.SimpleNamespace(acl_safe=False, entire_reload=mode))
            try:
                job.parse_result(OldNewResult(device=dev, old_files=dict(old), new_files=dict(first_new)))
            except Exception as e:
                acc.violation("C19/job-exception/%s" % type(e).__name__, "PCDeployerJob.parse_result raised", dict(w, mode=str(mode), error=repr(e)[:200]))
                return
            acc.count("jobs_parsed")
            force = mode is cli_args.EntireReloadFlag.force
            if force:
                acc.count("forced_runs")
            dc = job.deploy_cmds.get(dev, {"files": {}, "cmds": {}})
            want_files = {p: c.encode() for p, (c, r) in first_new.items() if force or old.get(p) != c}
            if dc["files"] != want_files:
                missing = sorted(set(want_files) - set(dc["files"]))
                key = "C19/wrong-upload-set"
                if missing and not (set(dc["files"]) - set(want_files)) and all(dc["files"][p] == want_files[p] for p in dc["files"]):
                    kinds = set()
                    for p in missing:
                        o, n = old.get(p), first_new[p][0]
                        if o is None and n.splitlines() == []:
                            kinds.add(KNOWN_EMPTY)
                        elif o is not None and o != n and o.splitlines() == n.splitlines():
                            kinds.add(KNOWN_NL)
                        elif (o or "") != n and (o or "").splitlines() == n.splitlines():
                            kinds.add(KNOWN_NL if o else KNOWN_EMPTY)
                        else:
                            kinds.add("C19/wrong-upload-set")
                    if "C19/wrong-upload-set" not in kinds and len(kinds) > 1:
                        for k2 in sorted(kinds):
                            acc.violation(k2, WHAT[k2], dict(w, mode=str(mode), uploaded={p: v.decode() for p, v in dc["files"].items()},
                                                             expected={p: v.decode() for p, v in want_files.items()}))
                        return
                    if len(kinds) == 1:
                        key = kinds.pop()
                acc.violation(key, WHAT.get(key, "the files scheduled for upload are not exactly those whose generated content differs from the device's (or all, when forced), with the generated bytes"),
                              dict(w, mode=str(mode), uploaded={p: v.decode() for p, v in dc["files"].items()}, expected={p: v.decode() for p, v in want_files.items()}))
                return
            want_cmd_paths = set(want_files) if mode is not cli_args.EntireReloadFlag.no else set()
            if set(dc["cmds"]) != want_cmd_paths:
                acc.violation("C19/reload-attachment", "a reload command is attached although reloads are disabled, or missing although enabled",
                              dict(w, mode=str(mode), cmds={p: v.decode() for p, v in dc["cmds"].items()}))
                return
            for p in want_cmd_paths:
                if not dc["cmds"][p].decode().startswith(first_new[p][1]):
                    acc.violation("C19/wrong-reload-command", "the reload command attached to a file is not the winning generator's", dict(w, mode=str(mode), path=p))
                    return
        # --acl-safe: only the files whose winning generator is marked safe are considered at all (possibly none)
        safe_new = {p: (g["output"], rl_dev(g, soft)) for p, g in exp.items() if g["safe"]}
        job = api.PCDeployerJob(dev, deploy_args(acc, cli_args.EntireReloadFlag.yes, True) if seed % 2 else types.SimpleNamespace(acl_safe=True, entire_reload=cli_args.EntireReloadFlag.yes))
        try:
            job.parse_result(OldNewResult(device=dev, old_files=dict(old), new_files=dict(first_new), safe_new_files=dict(safe_new)))
        except Exception as e:
            acc.violation("C19/job-exception/%s" % type(e).__name__, "PCDeployerJob.parse_result raised in safe mode", dict(w, error=repr(e)[:200]))
            return
        acc.count("safe_mode_jobs")
        if not safe_new:
            acc.count("safe_mode_jobs_with_empty_safe_set")
        dc = job.deploy_cmds.get(dev, {"files": {}, "cmds": {}})
        unsafe_up = sorted(set(dc["files"]) - set(safe_new))
        if unsafe_up:
            acc.violation("C19/unsafe-file-uploaded-in-safe-mode", "with --acl-safe a file whose winning generator is not marked safe is uploaded",
                          dict(w, uploaded=sorted(dc["files"]), safe_paths=sorted(safe_new)))
            return
        want_safe_files = {p: c.encode() for p, (c, r) in safe_new.items() if old.get(p) != c}
        if dc["files"] != want_safe_files:
            missing = set(want_safe_files) - set(dc["files"])
            if not (missing and all((old.get(p) or "").splitlines() == safe_new[p][0].splitlines() for p in missing) and not (set(dc["files"]) - set(want_safe_files))):
                acc.violation("C19/wrong-upload-set-in-safe-mode", "with --acl-safe the upload set is not the changed files of safe winning generators",
                              dict(w, uploaded={p: v.decode() for p, v in dc["files"].items()}, expected={p: v.decode() for p, v in want_safe_files.items()}))
                return
    finally:
        AD.get_deployer = orig
    # shown diff
    try:
        shown = {f.label.split("/", 1)[1] if "/" in f.label else f.label: f for f in pc_diff(dev.hw, dev.hostname, dict(old), dict(first_new))}
    except Exception as e:
        acc.violation("C19/pc_diff-exception/%s" % type(e).__name__, "pc_diff raised", dict(w, error=repr(e)[:200]))
        return
    acc.count("diffs_checked")
    shown_paths = {("/" + k.split("/", 1)[1]) if not k.startswith("/") else k for k in shown}
    shown_paths = set()
    for f in pc_diff(dev.hw, dev.hostname, dict(old), dict(first_new)):
        lbl = f.label
        i = lbl.index(dev.hostname) + len(dev.hostname) + 1
        shown_paths.add(lbl[i:])
    want_shown = {p for p, (c, r) in first_new.items() if old.get(p) != c}
    if shown_paths != want_shown:
        miss = want_shown - shown_paths
        key = "C19/diff-shown-iff-different"
        if miss and not (shown_paths - want_shown):
            kinds = {KNOWN_EMPTY if old.get(p) is None else KNOWN_NL for p in miss if (old.get(p) or "").splitlines() == first_new[p][0].splitlines()}
            if kinds and all((old.get(p) or "").splitlines() == first_new[p][0].splitlines() for p in miss):
                for k2 in sorted(kinds)[1:]:
                    acc.violation(k2, WHAT[k2], dict(w, shown=sorted(shown_paths), expected=sorted(want_shown)))
                key = sorted(kinds)[0]
        acc.violation(key, WHAT.get(key, "the file diff shown is not empty exactly when the contents are equal"),
                      dict(w, shown=sorted(shown_paths), expected=sorted(want_shown)))


def run_shard(spec, acc):
    if spec["mode"] == "replay":
        check_case(spec["witness"]["seed"], acc, unsupported=bool(spec["witness"].get("unsupported")), perm=bool(spec["witness"].get("perm")), inst=bool(spec["witness"].get("inst")))
        return
    tier, k, n = spec["tier"], spec["shard"], spec["nshards"]
    total = 4800 if tier == "quick" else 90000
    rng = random.Random("C19/%s/%s" % (spec["seed"], k))
    for j in range(total // n):
        s = rng.randrange(1 << 48)
        check_case(s, acc)
        if j < 2:
            acc.sample({"seed": s, "case": gen_case(random.Random(s))[0]})
        if j % 4 == 3:
            check_case(rng.randrange(1 << 48), acc, unsupported=True)
        if j % 4 == 1:
            check_case(rng.randrange(1 << 48), acc, perm=True)
        if j % 4 == 2:
            check_case(rng.randrange(1 << 48), acc, inst=True, perm=(j % 8 == 2))
