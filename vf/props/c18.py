"""C18 - every known hardware model resolves to one vendor and a loadable rulebook.

Exhaustive over the device database: for every entry a model string is synthesised that matches the entry's regex
chain; observed: HardwareView attributes (hierarchy), vendor resolution on fresh Registry objects under
rotations/reversal of the registration order, get_rulebook() (render + compile + resolution of custom logic), and the
structural signature of the rulebook from two fresh providers and from a fresh process with another hash seed.
"""
import itertools
import json
import os
import random
import re
import subprocess
import sys

from vf.ref import rulelang as R

LEVEL = "exploration"
RULE = ("exhaustive: one (quick) / three (thorough) synthesised model strings per devdb entry (168) and per registered vendor's canonical "
        "hardware, x software strings {'', 'Cumulus Linux 4.4', 'VRP V200R005'}; vendor resolution repeated on fresh Registry objects "
        "for every rotation of the registration order and the reversed order. Non-trivial: entry has depth>=2 in the hierarchy or the "
        "model matches more than one vendor expression. Distinct: hash of (model, soft).")
ASSUMPTIONS = [
    "expected vendor = the unique registered vendor whose match() expression that is true for the model has the most dotted components; a tie between two vendors is a violation (result would depend on registration order)",
    "structural rulebook signature covers patterns, flags, logic/diff_logic/apply_logic qualified names, params, nesting",
]
EXHAUSTIVE = {"quick": True, "thorough": True}
FLOORS = {"quick": {"entries": 168, "rulebooks_loaded": 100, "registry_orders": 100, "cross_process_signatures": 20, "shared_provider_loads": 200, "shared_provider_loads_of_respelled_models": 300, "spellings_that_are_other_hardware": 20, "models_in_two_families_of_different_chains": 40, "answers_of_a_growing_registry": 3000, "interrupted_loads": 60, "rulebooks_loaded_first_in_a_fresh_interpreter": 25, "rulebooks_from_a_site_provider_with_lazy_roots": 20},
          "thorough": {"entries": 168, "rulebooks_loaded": 100, "registry_orders": 100, "cross_process_signatures": 20}}
SOFTS = ["", "Cumulus Linux 4.4", "VRP V200R005"]


def plan(tier, seed):
    n = 8
    specs = [{"mode": "main", "tier": tier, "seed": seed, "shard": k, "nshards": n} for k in range(n)]
    specs.append({"mode": "xproc", "tier": tier, "seed": seed})
    specs.append({"mode": "firstload", "tier": tier, "seed": seed})
    specs.append({"mode": "site", "tier": tier, "seed": seed})
    for j in range(2 if tier == "quick" else 8):
        specs.append({"mode": "shared", "tier": tier, "seed": seed, "perm": j})
    return specs


def synth_model(db, key, rng):
    """a model string matched by every regex on the chain of `key`"""
    parts = key.split(".")
    chain = [db[".".join(parts[:i])] for i in range(1, len(parts) + 1)]
    for attempt in range(40):
        pieces = []
        for rx in chain:
            s = R.sample_regex(rx.lstrip("^"), rng)
            if s is None:
                return None
            pieces.append((s, rx.startswith("^")))
        anchored = [s for s, a in pieces if a]
        free = [s for s, a in pieces if not a]
        cands = ["".join(s for s, _ in pieces), " ".join(s for s, _ in pieces)]
        if anchored:
            # a child regex anchored at the start already spells the parent: start from the longest anchored piece
            base = max(anchored, key=len)
            cands += [base, base + "".join(free), base + " " + " ".join(free)]
        for c in cands:
            if all(re.search(rx, c) for rx in chain):
                return c
    return None


def sig_patching(rules):
    out = []
    for scope in ("local", "global"):
        for raw, rule in rules[scope].items():
            a = rule["attrs"]
            out.append([scope, raw, rule["type"], a["regexp"].pattern, a["regexp"].flags,
                        _fn(a.get("logic")), _fn(a.get("diff_logic")), a.get("reverse"), a.get("comment"),
                        a.get("multiline"), a.get("parent"), a.get("force_commit"), a.get("ignore_case"), a.get("context"),
                        sig_patching(rule["children"]) if rule.get("children") else None])
    return out


def sig_ordering(rules):
    out = []
    for raw, rule in rules.items():
        a = rule["attrs"]
        out.append([raw, a["direct_regexp"].pattern, a["reverse_regexp"].pattern, a["order_reverse"], a["global"], a["scope"],
                    a["context"], sig_ordering(rule["children"])])
    return out


def sig_deploying(rules):
    out = []
    for raw, rule in rules.items():
        a = rule["attrs"]
        out.append([raw, a["regexp"].pattern, a["timeout"], _fn(a["apply_logic"]), [str(x) for x in a["ignore"]],
                    [[str(k), list(v)] for k, v in a["dialogs"].items()], a["ifcontext"], sig_deploying(rule["children"])])
    return out


def _fn(f):
    if f is None:
        return None
    return "%s.%s" % (getattr(f, "__module__", "?"), getattr(f, "__qualname__", repr(f)))


def rb_signature(rb):
    return {"patching": sig_patching(rb["patching"]), "ordering": sig_ordering(rb["ordering"]), "deploying": sig_deploying(rb["deploying"])}


def count_rules(sig):
    return len(json.dumps(sig))


def check_model(model, soft, key, acc, db, deep=True):
    from annet.annlib.netdev.views.hardware import HardwareView
    from annet.vendors import registry_connector
    from annet.vendors.registry import Registry
    from annet.rulebook import DefaultRulebookProvider
    from annet.rulebook.patching import compile_patching_text
    from annet.annlib.rbparser.ordering import compile_ordering_text
    from annet.rulebook.deploying import compile_deploying_text
    w = {"model": model, "soft": soft, "entry": key}
    hw = HardwareView(model, soft)
    # (a) hierarchy
    def m(expr):
        try:
            return hw.match(expr)
        except AttributeError:
            return None
    if key and not m(key):
        acc.violation("C18/entry-not-true", "a model matching an entry's regex chain does not have that hardware attribute", w)
    true_keys = [k for k in db if m(k)]
    for k in true_keys:
        parts = k.split(".")
        for i in range(1, len(parts)):
            anc = ".".join(parts[:i])
            if anc in db and not m(anc):
                acc.violation("C18/hierarchy-not-prefix-closed", "a specific hardware family is true while its ancestor is not",
                              dict(w, true=k, false_ancestor=anc))
    # (a') the same for the short names (aliases such as hw.SN.SN5400 for hw.PC.Whitebox.NVIDIA.SN.SN5400): a true name whose parent
    # name exists must have a true parent (an ambiguous short name exists for no model at all, which is fine)
    from annet.annlib.netdev.devdb import parse_hw_model
    tseq, fseq = parse_hw_model(model)
    fset = set(fseq)
    for sq in tseq:
        acc.count("alias_names_checked")
        if len(sq) >= 2 and tuple(sq[:-1]) in fset:
            acc.violation("C18/hierarchy-not-prefix-closed", "a specific hardware family is true while its ancestor is not",
                          dict(w, true=".".join(sq), false_ancestor=".".join(sq[:-1]), alias=True))
            break
    # (b) vendor resolution independent of registration order, most specific wins
    reg = registry_connector.get()
    classes = [type(v) for v in reg.vendors.values()]
    cands = []
    for v in reg.vendors.values():
        for expr in v.match():
            if m(expr):
                cands.append((expr.count("."), v.NAME, expr))
    exp = None
    tie = False
    if cands:
        best = max(c[0] for c in cands)
        names = sorted({c[1] for c in cands if c[0] == best})
        tie = len(names) > 1
        exp = names[0] if not tie else names
    got_names = set()
    orders = [classes[i:] + classes[:i] for i in range(len(classes))] + [classes[::-1]]
    for order in orders:
        r = Registry()
        for c in order:
            r.register(c)
        v = r.match(hw, None)
        got_names.add(v.NAME if v else None)
        acc.count("registry_orders")
    # vendors (plugins) may be registered after the registry has already answered: every answer reflects what is registered by then
    for order in (orders[0], orders[-1]):
        r = Registry()
        regd = []
        for c in order:
            r.register(c)
            regd.append(c.NAME)
            v = r.match(hw, None)
            sub = [x for x in cands if x[1] in regd]
            best_now = max((x[0] for x in sub), default=None)
            want_now = sorted({x[1] for x in sub if x[0] == best_now})
            acc.count("answers_of_a_growing_registry")
            if not tie and (v.NAME if v else None) not in (want_now or [None]):
                acc.violation("C18/registry-answer-ignores-later-registration", "a registry that answered before all vendors were registered keeps answering from the earlier state",
                              dict(w, registered=list(regd), got=v.NAME if v else None, expected=want_now))
                break
    prod = hw.vendor
    nontrivial = (key or "").count(".") >= 1 or len(cands) > 1
    acc.case([model, soft], nontrivial=nontrivial)
    if len(got_names) > 1 or tie:
        fam = ".".join((key or model).split(".")[:2])
        acc.violation("C18/vendor-depends-on-registration-order/%s" % "+".join(sorted(str(x) for x in (got_names if len(got_names) > 1 else exp))),
                      "two vendors match the model with equal specificity; the winner is decided by registration order",
                      dict(w, candidates=cands, winners_over_orders=sorted(str(x) for x in got_names), production=prod))
    elif not tie:
        got = next(iter(got_names))
        if got != exp or prod != exp:
            acc.violation("C18/not-most-specific-vendor", "vendor chosen is not the most specific registered vendor matching the model",
                          dict(w, expected=exp, got=got, production=prod, candidates=cands))
    if prod is None:
        if key is not None:
            acc.violation("C18/model-of-the-device-database-has-no-vendor", "a model string matching an entry of the device database resolves to no registered vendor (so no rulebook can be loaded for it)",
                          dict(w, true_entries=true_keys[:6]))
            return None
        acc.count("no_vendor")
        return None
    # (c) rulebook loads: render, compile, logic functions resolve
    sigs = []
    for i in range(2 if deep else 1):
        if i:
            compile_patching_text.cache_clear()
            compile_ordering_text.cache_clear()
            compile_deploying_text.cache_clear()
        try:
            rb = DefaultRulebookProvider().get_rulebook(hw)
        except Exception as e:
            acc.violation("C18/rulebook-does-not-load/%s" % type(e).__name__, "get_rulebook() fails for a model of the device database",
                          dict(w, vendor=prod, error="%s: %s" % (type(e).__name__, str(e)[:300])))
            return None
        sigs.append(rb_signature(rb))
    acc.count("rulebooks_loaded")
    for part in ("patching", "ordering", "deploying"):
        bad = _unresolved(sigs[0][part])
        if bad:
            acc.violation("C18/unresolved-logic", "a rule names a logic function that is not callable", dict(w, rule=bad))
    if deep and json.dumps(sigs[0], sort_keys=True, default=str) != json.dumps(sigs[1], sort_keys=True, default=str):
        acc.violation("C18/nondeterministic-rulebook", "two fresh providers give structurally different rulebooks for the same model", w)
    return sigs[0]


def _unresolved(sig):
    return None


def models_for(db, tier, rng):
    n = 1 if tier == "quick" else 3
    out = []
    for key in db:
        seen = set()
        for _ in range(n * 3):
            mdl = synth_model(db, key, rng)
            if mdl and mdl not in seen:
                seen.add(mdl)
                out.append((key, mdl))
            if len(seen) >= n:
                break
        if not seen:
            out.append((key, None))
    return out


def one_vendor_line(model):
    """False for artificial strings that sit in the product lines of two different vendors at once (a Nexus that is also an IOS-XR box):
    no such hardware exists and which vendor serves it is undefined"""
    from annet.annlib.netdev.views.hardware import HardwareView
    from annet.vendors import registry_connector
    hw = HardwareView(model, "")
    cands = []
    for v in registry_connector.get().vendors.values():
        for expr in v.match():
            try:
                if hw.match(expr):
                    cands.append((expr.count("."), v.NAME))
            except AttributeError:
                pass
    if not cands:
        return True
    best = max(c[0] for c in cands)
    return len({c[1] for c in cands if c[0] == best}) == 1


def cross_models(db, work, rng, limit):
    """model strings for which two families that are not on one chain hold together (a product line and a suffix family such as
    `Huawei S5700-28P-SI`): the model of one entry extended by the piece the other entry's own regex asks for"""
    def chain(key):
        parts = key.split(".")
        return [db[".".join(parts[:i])] for i in range(1, len(parts) + 1)]
    by_root = {}
    for key, mdl in work:
        if mdl:
            by_root.setdefault(key.split(".")[0], []).append((key, mdl))
    out, seen = [], set()

    def try_pair(a, b):
        (ka, ma), (kb, mb) = a, b
        piece = R.sample_regex(db[kb].lstrip("^"), rng)
        if piece is None:
            return False
        for cand in (ma + piece, ma + "-28P" + piece, ma + " " + piece.strip()):
            if cand not in seen and all(re.search(rx, cand) for rx in chain(ka) + chain(kb)) and one_vendor_line(cand):
                seen.add(cand)
                out.append((None, cand))
                return True
        return False
    for root, items in sorted(by_root.items()):
        items = [it for it in items if "." in it[0]]
        fams = {}
        for it in items:
            fams.setdefault(it[0].split(".")[1], []).append(it)
        # every ordered pair of second-level families of the vendor once (product line x suffix family, ...), then random pairs
        for fa in sorted(fams):
            for fb in sorted(fams):
                if fa != fb:
                    for _ in range(3):
                        if try_pair(rng.choice(fams[fa]), rng.choice(fams[fb])):
                            break
        pairs = [(a, b) for a in items for b in items if a[0] != b[0] and not a[0].startswith(b[0] + ".") and not b[0].startswith(a[0] + ".")]
        rng.shuffle(pairs)
        n = 0
        for a, b in pairs:
            if n >= limit:
                break
            if try_pair(a, b):
                n += 1
    return out


def run_shard(spec, acc):
    from vf import corpus
    from annet.vendors import registry_connector
    db = corpus.devdb()
    if spec["mode"] == "replay":
        w = spec["witness"]
        if w.get("interrupted"):
            return check_interrupted(w["model"], w["interrupted"][0], w["interrupted"][1], acc, before=w.get("served_before"))
        check_model(w["model"], w.get("soft", ""), w.get("entry"), acc, db)
        return
    rng = random.Random("C18/%s" % spec["seed"])
    work = models_for(db, spec["tier"], rng)
    reg = registry_connector.get()
    canon = [(None, v.hardware.model) for v in reg.vendors.values()]
    extra = [(None, mdl) for mdl in sum(corpus.RULE_HW.values(), []) + list(corpus.STUB_HW.values())]
    cross = cross_models(db, work, random.Random("C18/cross/%s" % spec["seed"]), 10 if spec["tier"] == "quick" else 80)
    extra += cross
    if spec["mode"] == "shared":
        # one provider (and the production provider behind annet.rulebook.get_rulebook) serves many models of one
        # vendor in a shuffled order: every rulebook must equal the one a fresh provider gives for that model alone
        from annet.annlib.netdev.views.hardware import HardwareView
        from annet.rulebook import DefaultRulebookProvider, get_rulebook
        models = sorted({mdl for _, mdl in work + canon + extra if mdl})
        # other spellings of the same model strings (letter case, surrounding blanks): the device database reads them case-sensitively
        # below the vendor, so they may be other hardware - the provider must not take one for the other
        variants = set()
        for mdl in models:
            head, _, tail = mdl.partition(" ")
            for v_ in (head + " " + tail.lower(), head + " " + tail.upper(), mdl.lower(), mdl + " ", mdl.title()):
                if v_ != mdl and v_ not in models:
                    variants.add(v_)
        models = sorted(set(models) | variants)
        prng = random.Random("C18/shared/%s/%s" % (spec["seed"], spec["perm"]))
        prng.shuffle(models)
        fresh_by_key = {}
        shared = DefaultRulebookProvider()
        for mdl in models:
            hw = HardwareView(mdl, "")
            if hw.vendor is None:
                continue
            try:
                fresh = R_hash(rb_signature(DefaultRulebookProvider().get_rulebook(hw)))
                got = {"shared-provider": R_hash(rb_signature(shared.get_rulebook(hw)))}
                if spec["perm"] % 2 == 0:
                    got["production-provider"] = R_hash(rb_signature(get_rulebook(hw)))
            except Exception as e:
                acc.violation("C18/rulebook-does-not-load/%s" % type(e).__name__, "get_rulebook() fails for a model of the device database",
                              {"model": mdl, "soft": "", "error": repr(e)[:300]})
                continue
            acc.count("shared_provider_loads")
            if mdl in variants:
                acc.count("shared_provider_loads_of_respelled_models")
            fresh_by_key.setdefault(mdl.strip().lower(), set()).add(fresh)
            acc.case([mdl, "shared", spec["perm"]], nontrivial=True)
            for how, hh in got.items():
                if hh != fresh:
                    acc.violation("C18/rulebook-depends-on-load-history", "a provider that served other models before returns a different rulebook than a fresh provider",
                                  {"model": mdl, "soft": "", "how": how, "order_prefix": models[:models.index(mdl)][-6:]})
        acc.count("spellings_that_are_other_hardware", sum(1 for v_ in fresh_by_key.values() if len(v_) > 1))
        irng = random.Random("C18/interrupted/%s/%s" % (spec["seed"], spec["perm"]))
        plain = [m_ for m_ in models if m_ not in variants]
        for mdl in irng.sample(plain, min(len(plain), 60)):
            check_interrupted(mdl, irng.choice([".rul", ".order", ".deploy"]), irng.choice(["_read_escaped_rul", "_render_rul", "open", "mako_render"]), acc,
                              before=irng.choice([None, irng.choice(plain)]))
        return
    if spec["mode"] == "site" or (spec["mode"] == "replay" and spec["witness"].get("site")):
        return run_site(spec, acc)
    if spec["mode"] == "firstload":
        # every vendor's rulebook as the FIRST one an interpreter loads (a run over one kind of device): the logic modules a rulebook names
        # must import whatever was - or was not - imported before
        import concurrent.futures as cf
        frng = random.Random("C18/firstload/%s" % spec["seed"])
        by_vendor = {}
        for _, mdl in work + canon + extra:
            if not mdl:
                continue
            from annet.annlib.netdev.views.hardware import HardwareView
            vnd = HardwareView(mdl, "").vendor
            if vnd is not None:
                by_vendor.setdefault(vnd, []).append(mdl)
        firsts = []
        for vnd in sorted(by_vendor):
            ms = sorted(set(by_vendor[vnd]))
            firsts += [ms[0]] + frng.sample(ms, min(len(ms), 2 if spec["tier"] == "quick" else 6))
        firsts = sorted(set(firsts))

        def one(mdl):
            env = dict(os.environ, PYTHONHASHSEED="777")
            p = subprocess.run([sys.executable, "-c", "import sys,json; from vf import env; env.setup(); from vf.props import c18; c18.child(json.load(sys.stdin))"],
                               input=json.dumps([mdl]), capture_output=True, text=True, env=env, timeout=900)
            if p.returncode != 0:
                return mdl, "ERR child exit %s: %s" % (p.returncode, p.stderr[-300:])
            return mdl, json.loads(p.stdout.strip().splitlines()[-1]).get(mdl)
        with cf.ThreadPoolExecutor(max_workers=8) as ex:
            res = dict(ex.map(one, firsts))
        for mdl in firsts:
            s_ = check_model(mdl, "", None, acc, db, deep=False)
            acc.count("rulebooks_loaded_first_in_a_fresh_interpreter")
            acc.case([mdl, "firstload"], nontrivial=True)
            if s_ is None:
                continue
            if str(res[mdl]).startswith("ERR"):
                acc.violation("C18/rulebook-does-not-load-first-in-a-process", "a rulebook that loads after others does not load as the first rulebook of an interpreter",
                              {"model": mdl, "soft": "", "firstload": True, "error": str(res[mdl])[:300]})
            elif res[mdl] != R_hash(s_):
                acc.violation("C18/nondeterministic-rulebook-across-processes", "the same model gives a structurally different rulebook in a fresh process (other hash seed)", {"model": mdl, "soft": "", "firstload": True})
        return
    if spec["mode"] == "xproc":
        # signatures in this process vs a fresh process with another hash seed
        todo = [mdl for _, mdl in work[::7] if mdl] + [mdl for _, mdl in canon]
        mine = {}
        for mdl in todo:
            s = check_model(mdl, "", None, acc, db, deep=False)
            if s is not None:
                mine[mdl] = R_hash(s)
        env = dict(os.environ, PYTHONHASHSEED="12345")
        p = subprocess.run([sys.executable, "-c", "import sys,json; from vf import env; env.setup(); from vf.props import c18; c18.child(json.load(sys.stdin))"],
                           input=json.dumps(list(mine)), capture_output=True, text=True, env=env, timeout=900)
        if p.returncode != 0:
            raise RuntimeError("child failed: %s" % p.stderr[-2000:])
        theirs = json.loads(p.stdout.strip().splitlines()[-1])
        for mdl, hh in mine.items():
            acc.count("cross_process_signatures")
            acc.case([mdl, "xproc"], nontrivial=True)
            if theirs.get(mdl) != hh:
                acc.violation("C18/nondeterministic-rulebook-across-processes", "the same model gives a structurally different rulebook in a fresh process (other hash seed)",
                              {"model": mdl, "soft": ""})
        return
    k, n = spec["shard"], spec["nshards"]
    items = work + canon + extra
    for i, (key, mdl) in enumerate(items):
        if i % n != k:
            continue
        if key is not None:
            acc.count("entries")
        elif (key, mdl) in cross:
            acc.count("models_in_two_families_of_different_chains")
        if mdl is None:
            acc.count("unsynthesised_entries")
            continue
        for soft in (SOFTS if spec["tier"] == "thorough" or i % 5 == 0 else SOFTS[:1]):
            check_model(mdl, soft, key, acc, db, deep=(soft == ""))
        if i % 40 == k:
            acc.sample({"entry": key, "model": mdl})
    if k == 0:
        # every registered vendor's canonical hardware resolves to that vendor
        for v in reg.vendors.values():
            got = reg.match(v.hardware, None)
            acc.case(["canonical", v.NAME], nontrivial=True)
            acc.count("canonical")
            if got is None or got.NAME != v.NAME:
                acc.violation("C18/canonical-hardware-resolves-to-other-vendor/%s" % v.NAME,
                              "a registered vendor's own canonical hardware resolves to a different vendor",
                              {"model": v.hardware.model, "soft": "", "entry": None, "vendor": v.NAME, "got": got and got.NAME})


def run_site(spec, acc):
    """a site installation: its own rulebook directory in front of the shipped one and its own (nearly empty) package of logic functions in front
    of annet.rulebook, both handed to the provider as lazily evaluated iterables (the signature says Iterable[str]); every model still gets the
    rulebook a provider built with plain tuples and the shipped package alone gives for the same directories"""
    import shutil
    import tempfile
    from annet.annlib.netdev.views.hardware import HardwareView
    from annet.annlib.rbparser.platform import VENDOR_ALIASES
    from annet.rulebook import DefaultRulebookProvider, rulebook_provider_connector
    stock = DefaultRulebookProvider.root_dir[0]
    d = tempfile.mkdtemp(prefix="vf_c18_site_")
    models = ["Huawei CE6870", "Huawei NE40E-X8", "H3C", "Cisco Catalyst 2960", "Cisco Nexus 9316", "Cisco ASR 9010", "Arista", "Aruba", "B4com", "RouterOS", "Juniper", "Nokia", "PC"]
    rng = random.Random("C18/site/%s" % spec.get("seed", 0))
    had_cache = rulebook_provider_connector.__dict__.get("_cache")
    try:
        os.makedirs(os.path.join(d, "texts"))
        os.makedirs(os.path.join(d, "pkg", "vf_site_rulebook"))
        open(os.path.join(d, "pkg", "vf_site_rulebook", "__init__.py"), "w").write("")
        for name in os.listdir(os.path.join(stock, "texts")):
            if name.endswith(".rul"):
                with open(os.path.join(stock, "texts", name)) as f:
                    text = f.read()
                with open(os.path.join(d, "texts", name), "w") as f:
                    f.write("vfsite%d *\n" % rng.randrange(10 ** 6) + text)   # (a text no compile cache of this process has seen: every logic name is resolved anew)
        sys.path.insert(0, os.path.join(d, "pkg"))
        for rnd in range(2 if spec.get("tier", "quick") == "quick" else 8):
            order = list(models)
            rng.shuffle(order)
            plain_prov = DefaultRulebookProvider(root_dir=(d, stock))
            lazy = DefaultRulebookProvider(root_dir=(x for x in (d, stock)), root_modules=iter(["vf_site_rulebook", "annet.rulebook"]))
            for mdl in order:
                hw = HardwareView(mdl, "")
                if hw.vendor is None:
                    continue
                w = {"site": True, "model": mdl, "soft": "", "order_prefix": order[:order.index(mdl)]}
                try:
                    rulebook_provider_connector._cache = plain_prov
                    want = R_hash(rb_signature(plain_prov.get_rulebook(hw)))
                except Exception as e:
                    acc.violation("C18/rulebook-does-not-load/%s" % type(e).__name__, "get_rulebook() fails for a model of the device database", dict(w, error=repr(e)[:300]))
                    continue
                try:
                    rulebook_provider_connector._cache = lazy
                    # (the compiled-text caches are emptied, as in a process of its own: the lazy provider resolves every logic name itself)
                    from annet.rulebook.patching import compile_patching_text
                    from annet.annlib.rbparser.ordering import compile_ordering_text
                    from annet.rulebook.deploying import compile_deploying_text
                    from annet.rulebook.common import import_rulebook_function
                    for f_ in (compile_patching_text, compile_ordering_text, compile_deploying_text, import_rulebook_function):
                        if hasattr(f_, "cache_clear"):
                            f_.cache_clear()
                    got = R_hash(rb_signature(lazy.get_rulebook(hw)))
                except Exception as e:
                    got = "ERR %s: %s" % (type(e).__name__, str(e)[:200])
                acc.count("rulebooks_from_a_site_provider_with_lazy_roots")
                acc.case([mdl, "site", rnd], nontrivial=True)
                if got != want:
                    acc.violation("C18/site-provider-gives-another-rulebook", "a provider given its directories and logic packages as lazily evaluated iterables (a site package in front) does not give the rulebook a provider with plain tuples gives",
                                  dict(w, got=got if str(got).startswith("ERR") else "another rulebook"))
    finally:
        if had_cache is None:
            rulebook_provider_connector.__dict__.pop("_cache", None)
        else:
            rulebook_provider_connector._cache = had_cache
        if os.path.join(d, "pkg") in sys.path:
            sys.path.remove(os.path.join(d, "pkg"))
        sys.modules.pop("vf_site_rulebook", None)
        shutil.rmtree(d, ignore_errors=True)


class InjectedFault(OSError):
    pass


def check_interrupted(mdl, which, where, acc, before=None):
    """a load of the model's rulebook that fails half-way (the read or the rendering of one of the three texts raises once) leaves nothing
    behind: the next load on the same provider gives the rulebook a fresh provider gives"""
    from annet.annlib.netdev.views.hardware import HardwareView
    from annet.rulebook import DefaultRulebookProvider
    hw = HardwareView(mdl, "")
    if hw.vendor is None:
        return
    w = {"model": mdl, "soft": "", "interrupted": [which, where], "served_before": before}
    fresh = R_hash(rb_signature(DefaultRulebookProvider().get_rulebook(hw)))
    prov = DefaultRulebookProvider()
    if before:
        prov.get_rulebook(HardwareView(before, ""))
    import annet.rulebook as RBM
    fired = []
    if where in ("open", "mako_render"):
        # faults below the provider's own methods: the file cannot be opened / the template engine raises, seen from inside them
        import builtins
        real = builtins.open if where == "open" else RBM.mako_render
        seen_texts = []

        def failing(first, *a, **kw):
            if not fired:
                if where == "open" and str(first).endswith(which):
                    fired.append(first)
                    raise InjectedFault("injected: %s cannot be read now" % first)
                if where == "mako_render":
                    seen_texts.append(first)
                    if len(seen_texts) == [".rul", ".order", ".deploy"].index(which) + 1:
                        fired.append(len(seen_texts))
                        raise InjectedFault("injected: the template engine fails now")
            return real(first, *a, **kw)
        holder, attr = RBM, where
    else:
        real = getattr(prov, where)

        def failing(name, *a, **kw):
            if name.endswith(which) and not fired:
                fired.append(name)
                raise InjectedFault("injected: %s cannot be read now" % name)
            return real(name, *a, **kw)
        holder, attr = prov, where
    had = attr in vars(holder)
    old_attr = vars(holder).get(attr)
    setattr(holder, attr, failing)
    try:
        prov.get_rulebook(hw)
        raised = False
    except InjectedFault:
        raised = True
    finally:
        if had:
            setattr(holder, attr, old_attr)
        else:
            delattr(holder, attr)
    if not fired:
        acc.count("interrupted_loads_that_never_reached_the_fault")
        return
    acc.count("interrupted_loads")
    acc.case([mdl, "interrupted", which, where], nontrivial=True)
    if not raised:
        acc.violation("C18/failed-load-goes-unnoticed", "reading one of the rule texts failed with an I/O error and get_rulebook() returned a rulebook all the same", w)
        return
    try:
        again = R_hash(rb_signature(prov.get_rulebook(hw)))
    except Exception as e:
        acc.violation("C18/rulebook-after-a-failed-load-is-broken", "after a load that failed half-way, the same provider hands out an incomplete rulebook for the model",
                      dict(w, error=repr(e)[:300]))
        return
    if again != fresh:
        acc.violation("C18/rulebook-after-a-failed-load-differs", "after a load that failed half-way, the same provider gives another rulebook for the model than a fresh provider", w)


def R_hash(sig):
    import hashlib
    return hashlib.sha1(json.dumps(sig, sort_keys=True, default=str).encode()).hexdigest()


def child(models):
    from annet.annlib.netdev.views.hardware import HardwareView
    from annet.rulebook import DefaultRulebookProvider
    out = {}
    for mdl in models:
        try:
            out[mdl] = R_hash(rb_signature(DefaultRulebookProvider().get_rulebook(HardwareView(mdl, ""))))
        except Exception as e:
            out[mdl] = "ERR %r" % e
    print(json.dumps(out))
