"""C12 - the worker pool returns exactly one result per submitted device.

Each pool run executes in its own subprocess (vf.props.c12_driver) under a wall-clock watchdog; the history it
records (submit / start / done / reap / deliver / end) is checked offline:
  conservation + exactly-once: multiset(delivered ids) == multiset(submitted ids), payload(id) == f(id),
  failures delivered as failures of the right id, the run ends normally;
  with tolerate_fails off and a raising task: the run ends by raising that task's error, nothing delivered twice.
Schedules come from a parameter grid and from seeded delays injected (sys.monitoring LINE events) at the points
between the parent's queue read, child reaping and loop exit and the worker's queue put / retirement.
"""
import json
import os
import random
import subprocess
import sys
import tempfile
import time
import concurrent.futures as cf

LEVEL = "exploration"
RULE = ("grid over n ids {0..40}, pool size {1,2,4,8}, max_tasks {1,2,25}, task duration {0, 2 ms, jittered}, consumer delay "
        "{0,5,50 ms}, in-thread callback delay, parent callback, sets of raising ids, tolerate_fails {0,1}, api irun/run, duplicate ids, "
        "large payloads; thorough adds seeded delay injection (0-20 ms with probability p) at 8 marker lines of annet/parallel.py in "
        "parent and workers. Non-trivial: n >= 2*pool and (>=1 worker retirement observed or >=1 raising task) or delays injected. "
        "Distinct: hash of (run parameters, interleaving signature = order of done/reap/deliver events with ids erased).")
ASSUMPTIONS = [
    "no worker is killed from outside; fork start method",
    "bounded progress: a run in which no task starts, finishes or is delivered for 45 s is reported as non-termination; a run killed by the outer watchdog while still progressing is inconclusive",
    "the explicit-state model clause of the quantifier is NOT decided (different technique); schedule diversity from the grid and delay injection stands in, distinct interleavings are reported",
]
FLOORS = {"quick": {"runs": 40, "delivered": 300, "retirements": 5, "failed_tasks_delivered": 5, "distinct:interleavings": 15, "network_error_tasks": 14, "retirement_waves_held_back": 1, "runs_with_tuple_ids": 2, "runs_after_an_earlier_pool": 2, "runs_with_message_less_failures": 3, "aborted_runs_with_results_still_being_queued": 2, "runs_with_results_that_cannot_be_pickled": 2},
          "thorough": {"runs": 500, "delivered": 3000, "retirements": 50, "failed_tasks_delivered": 50, "injected_delays": 500,
                       "distinct:interleavings": 150}}
NPROC = {"quick": 8, "thorough": 16}
TIMEOUT = {"quick": 900, "thorough": 5400}


def grid(tier, seed):
    rng = random.Random("C12/%s/%s" % (tier, seed))
    runs = []
    base = [
        dict(n=0, pool=4, max_tasks=25), dict(n=1, pool=4, max_tasks=25), dict(n=2, pool=2, max_tasks=25), dict(n=3, pool=8, max_tasks=1),
        dict(n=7, pool=2, max_tasks=2), dict(n=20, pool=4, max_tasks=25), dict(n=20, pool=4, max_tasks=2, consumer_ms=5),
        dict(n=40, pool=8, max_tasks=25, consumer_ms=5), dict(n=40, pool=8, max_tasks=1), dict(n=20, pool=2, max_tasks=1, task_ms=2),
        dict(n=20, pool=4, max_tasks=25, consumer_ms=50), dict(n=12, pool=4, max_tasks=2, callback_ms=5, parent_cb=True),
        dict(n=20, pool=4, max_tasks=25, raising=[103, 110, 119]), dict(n=20, pool=4, max_tasks=2, raising=[100], consumer_ms=5),
        dict(n=20, pool=4, max_tasks=25, raising=[105], tolerate_fails=False), dict(n=9, pool=3, max_tasks=1, raising=[100, 101, 102, 103, 104, 105, 106, 107, 108]),
        dict(n=20, pool=4, max_tasks=25, api="run"), dict(n=20, pool=8, max_tasks=2, api="run", raising=[101, 102]),
        dict(n=16, pool=4, max_tasks=25, task_ms=2, task_jitter=True), dict(n=12, pool=4, max_tasks=25, dup_ids=True),
        dict(n=10, pool=4, max_tasks=2, big_payload=200000), dict(n=30, pool=1, max_tasks=2, raising=[104]),
        dict(n=30, pool=1, max_tasks=25, raising=[104], tolerate_fails=False), dict(n=5, pool=8, max_tasks=25),
    ]
    # a whole wave of workers retires together while the parent, having consumed everything, waits on an empty result queue
    # (the retirement is held back by a slow flush): the ids still queued must be picked up by restarted workers
    base += [dict(n=6, pool=2, max_tasks=1, inject={"seed": 1, "max_ms": 0, "prob": 0.0, "fixed": {"worker_before_retire": 1400}}),
             dict(n=7, pool=3, max_tasks=2, api="run", inject={"seed": 2, "max_ms": 0, "prob": 0.0, "fixed": {"worker_before_retire": 1400}})]
    # network errors: retried net_retry times inside the worker; a task that never recovers is a failure of its own id
    base += [dict(n=12, pool=3, max_tasks=25, net_always=[101, 104], net_wrapped=[106], net_flaky={"102": 2, "108": 3}, raising=[110]),
             dict(n=12, pool=1, max_tasks=25, net_always=[101, 104], net_wrapped=[106], net_flaky={"102": 2, "108": 3}, raising=[110], api="run"),
             dict(n=6, pool=2, max_tasks=2, net_always=[103], tolerate_fails=False),
             dict(n=6, pool=1, max_tasks=2, net_always=[103], tolerate_fails=False)]
    # the parent is held up between a timed-out poll and the reaping of its children while the last workers queue their result and exit
    base += [dict(n=2, pool=2, max_tasks=25, task_ms=1300, inject={"seed": 3, "max_ms": 0, "prob": 0.0, "fixed": {"parent_before_reap": 600}}),
             dict(n=3, pool=3, max_tasks=1, task_ms=1250, api="run", inject={"seed": 4, "max_ms": 0, "prob": 0.0, "fixed": {"parent_before_reap": 500}})]
    # a run that lasts longer than task_timeout although results keep arriving (the timeout counts from the last result)
    base += [dict(n=12, pool=2, max_tasks=25, task_ms=700, task_timeout=3), dict(n=6, pool=3, max_tasks=2, task_ms=300, consumer_ms=700, task_timeout=3, api="irun")]
    # the same id submitted several times: every submission has its own outcome
    base += [dict(n=8, pool=2, max_tasks=2, dup_ids=True), dict(n=4, pool=4, max_tasks=25, dup_ids=True, task_ms=2, task_jitter=True),
             dict(n=10, pool=3, max_tasks=25, dup_ids=True, consumer_ms=5)]
    # ids as the file front ends submit them: (old path, new path) tuples, with and without a ".cfg" name
    base += [dict(n=12, pool=3, max_tasks=25, tuple_ids=True), dict(n=12, pool=4, max_tasks=2, tuple_ids=True, api="run", raising=[103]),
             dict(n=6, pool=1, max_tasks=25, tuple_ids=True)]
    # a network error that is only the implicit context of the raised error is retried like a bare one
    base += [dict(n=10, pool=3, max_tasks=25, net_flaky_wrapped={"101": 1, "104": 3}, net_flaky={"102": 2}),
             dict(n=10, pool=1, max_tasks=25, net_flaky_wrapped={"101": 1, "104": 3}, api="run")]
    # two pools in one process: the first one's callbacks (which know only its own ids) must not run for the second one
    base += [dict(n=8, pool=2, max_tasks=25, prelude=4), dict(n=6, pool=1, max_tasks=25, prelude=3, prelude_pool=1, api="run"),
             dict(n=8, pool=3, max_tasks=2, prelude=4, parent_cb=True, raising=[102])]
    # a task failure that ends the run (tolerate_fails off) while the other workers still queue large results: the run must end, raising that failure
    base += [dict(n=16, pool=3, max_tasks=25, raising=[101], tolerate_fails=False, big_payload=200000, task_ms=5),
             dict(n=12, pool=4, max_tasks=25, raising=[100], tolerate_fails=False, big_payload=300000, task_ms=20, api="run")]
    # results that cannot be pickled are failures of their own ids (multi-process pools only: one process hands results over as they are)
    base += [dict(n=12, pool=3, max_tasks=25, unpicklable=[102, 107]), dict(n=10, pool=4, max_tasks=2, unpicklable=[103, 106, 109], api="run")]
    # failures without a message
    base += [dict(n=10, pool=3, max_tasks=25, raising_empty=[103, 108], raising=[105]), dict(n=8, pool=1, max_tasks=25, raising_empty=[103]),
             dict(n=8, pool=2, max_tasks=2, raising_empty=[101], tolerate_fails=False)]
    runs += base
    nrand = 40 if tier == "quick" else 1500
    for i in range(nrand):
        n = rng.choice([0, 1, 2, 3, 7, 12, 20, 20, 40, rng.randint(0, 40)])
        r = dict(n=n, pool=rng.choice([1, 2, 4, 8]), max_tasks=rng.choice([1, 2, 25, rng.randint(1, 25)]),
                 task_ms=rng.choice([0, 0, 2, 5]), task_jitter=rng.random() < 0.3,
                 consumer_ms=rng.choice([0, 0, 5, 5, 50 if n <= 12 else 5]), callback_ms=rng.choice([0, 0, 3]),
                 parent_cb=rng.random() < 0.3, api=rng.choice(["irun", "irun", "run"]), tolerate_fails=rng.random() < 0.85)
        if rng.random() < 0.4 and n:
            r["raising"] = sorted(rng.sample(range(100, 100 + n), rng.randint(1, min(3, n))))
        if tier == "thorough" or i % 4 == 0:
            if rng.random() < 0.8:
                r["inject"] = {"seed": rng.randrange(1 << 30), "max_ms": rng.choice([2, 10, 20]), "prob": rng.choice([0.1, 0.3, 0.7])}
        runs.append(r)
    return runs


def plan(tier, seed):
    runs = grid(tier, seed)
    nsh = NPROC[tier]
    per = 2  # concurrent pool runs inside one shard
    return [{"mode": "main", "tier": tier, "seed": seed, "runs": runs[k::nsh], "par": per} for k in range(nsh)]


STALL_SECONDS = 45


def one_run(spec, watchdog=240):
    d = tempfile.mkdtemp(prefix="vf_c12_")
    sp, lp = os.path.join(d, "spec.json"), os.path.join(d, "log.jsonl")
    with open(sp, "w") as f:
        json.dump(spec, f)
    env = dict(os.environ, PYTHONPATH=os.path.dirname(os.path.dirname(os.path.dirname(os.path.abspath(__file__)))))
    t0 = time.monotonic()
    p = subprocess.Popen([sys.executable, "-m", "vf.props.c12_driver", sp, lp], env=env, stdout=subprocess.DEVNULL,
                         stderr=subprocess.PIPE, start_new_session=True)
    status = "exited"
    err = b""
    last_progress, last_count = time.monotonic(), -1
    while True:
        try:
            _, err = p.communicate(timeout=2)
            break
        except subprocess.TimeoutExpired:
            pass
        # logical progress = a task started / finished / was delivered (parent loop iterations that only reap are not progress)
        try:
            with open(lp) as f:
                count = sum(1 for line in f if '"k": "start"' in line or '"k": "done"' in line or '"k": "deliver"' in line or '"k": "submit"' in line)
        except OSError:
            count = 0
        if count != last_count:
            last_count, last_progress = count, time.monotonic()
        stalled = time.monotonic() - last_progress > STALL_SECONDS
        if stalled or time.monotonic() - t0 > watchdog:
            status = "stalled" if stalled else "watchdog"
            try:
                os.killpg(p.pid, 9)
            except Exception:
                p.kill()
            _, err = p.communicate()
            break
    events = []
    try:
        with open(lp) as f:
            for line in f:
                try:
                    events.append(json.loads(line))
                except ValueError:
                    pass
    except OSError:
        pass
    try:
        os.killpg(p.pid, 9)  # stray workers of an aborted run
    except Exception:
        pass
    import shutil
    shutil.rmtree(d, ignore_errors=True)
    return {"status": status, "rc": p.returncode, "events": events, "stderr": (err or b"").decode(errors="replace")[-1500:],
            "wall": time.monotonic() - t0, "watchdog": watchdog}


def expected_payload(i, salt=7):
    return ["r", i, i * i + salt]


def signature(events):
    sig = []
    for e in events:
        k = e["k"]
        if k == "done":
            sig.append("d")
        elif k == "deliver":
            sig.append("v")
        elif k == "reap":
            sig.append("R%d%d" % (len(e["retired"]), e["left"]))
    # run-length compress
    out, prev, c = [], None, 0
    for s in sig:
        if s == prev:
            c += 1
        else:
            if prev is not None:
                out.append(prev + (str(c) if c > 1 else ""))
            prev, c = s, 1
    if prev is not None:
        out.append(prev + (str(c) if c > 1 else ""))
    return "".join(out)


def judge(spec, res, acc):
    ev = res["events"]
    w = {"spec": spec}
    sub = next((e for e in ev if e["k"] == "submit"), None)
    if sub is None:
        return "inconclusive", "no submit event (driver failed to start): %s" % res["stderr"][-300:]
    ids = sub["ids"]
    end = next((e for e in ev if e["k"] == "end"), None)
    delivered = [e for e in ev if e["k"] == "deliver"]
    dones = [e for e in ev if e["k"] == "done"]
    net_fail = set(spec.get("net_always", [])) | set(spec.get("net_wrapped", []))
    unpick = set(spec.get("unpicklable", []))
    raising = set(spec.get("raising", [])) | set(spec.get("raising_empty", [])) | net_fail | unpick
    if unpick:
        acc.count("runs_with_results_that_cannot_be_pickled")
    if spec.get("raising_empty"):
        acc.count("runs_with_message_less_failures")
    if not spec.get("tolerate_fails", True) and spec.get("big_payload") and raising:
        acc.count("aborted_runs_with_results_still_being_queued")
    tolerate = spec.get("tolerate_fails", True)
    acc.count("runs")
    acc.count("network_error_tasks", len(net_fail) + len(spec.get("net_flaky", {})) + len(spec.get("net_flaky_wrapped", {})))
    if spec.get("tuple_ids"):
        acc.count("runs_with_tuple_ids")
    if spec.get("prelude"):
        acc.count("runs_after_an_earlier_pool")
        pre = next((e for e in ev if e["k"] == "prelude"), None)
        want_ids = [900 + i for i in range(spec["prelude"])]
        if pre is not None and (pre["ok"] != want_ids or pre["failed"] or pre["payloads"] != sorted(str(["pre%d" % i]) for i in want_ids)):
            acc.violation("C12/earlier-pool-wrong", "the first of two pools in one process did not deliver its own ids with the values its own callbacks produce", dict(w, prelude=pre))

    def want_orig(i):
        if i in unpick:
            return "<pickling>"
        if i in set(spec.get("net_always", [])):
            return "ConnectionResetError" if i % 2 else "BrokenPipeError"
        if i in set(spec.get("net_wrapped", [])):
            return "RuntimeError"
        return "ValueError"
    acc.count("delivered", len(delivered))
    acc.count("retirements", sum(len(e["retired"]) for e in ev if e["k"] == "reap"))
    acc.count("injected_delays", sum(1 for e in ev if e["k"] == "inject"))
    if (spec.get("inject") or {}).get("fixed") and any(e["k"] == "inject" and e.get("at") == "worker_before_retire" for e in ev):
        acc.count("retirement_waves_held_back")
    acc.count("failed_tasks_delivered", sum(1 for e in delivered if not e["ok"]))
    sig = signature(ev)
    acc.distinct("interleavings", sig)
    # results still queued when the last worker was reaped
    last_reap = next((i for i, e in reversed(list(enumerate(ev))) if e["k"] == "reap" and e["left"] == 0), None)
    if last_reap is not None:
        pend = len([e for e in dones[:]]) - len([e for e in ev[:last_reap] if e["k"] == "deliver"])
        acc.distinct("queued_at_pool_empty", str(min(pend, 9)))
    w["history"] = "".join(sig)[:300]
    w["n_submitted"], w["n_delivered"], w["n_done"] = len(ids), len(delivered), len(dones)
    nontrivial = (spec["n"] >= 2 * spec["pool"] and (any(e["k"] == "reap" and e["retired"] for e in ev) or raising)) or bool(spec.get("inject"))
    acc.case([spec, sig], nontrivial=nontrivial)

    if end is None:
        if res["status"] == "stalled":
            acc.violation("C12/no-termination", "pool run made no progress (no task started, finished or delivered) for >%d s and did not terminate" % STALL_SECONDS,
                          dict(w, wall=res["wall"]))
            return "violated", None
        if res["status"] == "watchdog":
            last_t = max((e["t"] for e in ev), default=0)
            if res["wall"] - last_t > 60:
                acc.violation("C12/no-termination", "pool run made no progress for >60 s after its last event and did not terminate",
                              dict(w, last_event_t=last_t, wall=res["wall"]))
                return "violated", None
            return "inconclusive", "watchdog fired while the run was still progressing"
        return "inconclusive", "driver died without end event rc=%s: %s" % (res["rc"], res["stderr"][-300:])

    # payloads and identity
    sub_count = {}
    for i in ids:
        sub_count[i] = sub_count.get(i, 0) + 1
    del_count = {}
    for e in delivered:
        del_count[e["id"]] = del_count.get(e["id"], 0) + 1
        if e["id"] not in sub_count:
            acc.violation("C12/phantom-result", "a result was delivered for an id that was never submitted", dict(w, event=e))
        if e["ok"]:
            if e["id"] in raising:
                acc.violation("C12/failure-delivered-as-success", "a raising task was delivered as a success", dict(w, event=e))
            elif e["payload"] != expected_payload(e["id"], spec.get("salt", 7)):
                acc.violation("C12/wrong-payload", "delivered value is not the value the task computed for that id", dict(w, event=e))
        else:
            if e["id"] not in raising:
                acc.violation("C12/success-delivered-as-failure", "a non-raising task was delivered as a failure", dict(w, event=e))
            elif (e.get("orig") != want_orig(e["id"]) and not (want_orig(e["id"]) == "<pickling>" and e.get("orig") in ("PicklingError", "AttributeError", "TypeError"))) \
                    or e.get("exc_dev") not in (e["id"], str(e["id"])):
                acc.violation("C12/wrong-failure", "delivered failure does not carry the task's own error/id", dict(w, event=e))
    dup = {i: c for i, c in del_count.items() if c > sub_count.get(i, 0)}
    if dup:
        acc.violation("C12/duplicate-delivery", "an id was delivered more often than it was submitted", dict(w, duplicated=dup))
    must_raise = (not tolerate) and bool(raising)
    if must_raise:
        if end["how"] != "raised":
            acc.violation("C12/error-swallowed", "tolerate_fails is off and a task raised, but the run ended normally", dict(w, end=end))
        elif end.get("orig") not in {want_orig(x) for x in raising} or end.get("exc_dev") not in raising and str(end.get("exc_dev")) not in {str(x) for x in raising}:
            acc.violation("C12/wrong-error-raised", "the error that ended the run is not a submitted task's error", dict(w, end=end))
        return "ok", None
    if end["how"] != "normal":
        acc.violation("C12/unexpected-exception/%s" % end.get("exc"), "the run raised although no failure had to be propagated", dict(w, end=end))
        return "violated", None
    missing = {i: sub_count[i] - del_count.get(i, 0) for i in sub_count if del_count.get(i, 0) < sub_count[i]}
    if missing:
        done_ids = {e["id"] for e in dones}
        lost_after_done = sorted(i for i in missing if i in done_ids)
        kind = "results-lost" if lost_after_done else "tasks-never-ran"
        acc.violation("C12/%s" % kind, "submitted ids were never delivered although the run ended normally" +
                      (" (their tasks had completed in a worker)" if lost_after_done else ""),
                      dict(w, missing=sorted(missing)[:40], completed_in_worker=lost_after_done[:40]))
    if end.get("tasks_done") is not None and not missing and not dup and end["tasks_done"] != len(ids):
        acc.count("tasks_done_counter_off")
    return "ok", None


def run_shard(spec, acc):
    if spec["mode"] == "replay":
        w = spec["witness"]
        reps = 6
        for _ in range(reps):
            res = one_run(w["spec"])
            judge(w["spec"], res, acc)
        return
    inconcl = []
    with cf.ThreadPoolExecutor(max_workers=spec.get("par", 2)) as ex:
        futs = {ex.submit(one_run, r): r for r in spec["runs"]}
        for f in cf.as_completed(futs):
            r = futs[f]
            res = f.result()
            verdict, why = judge(r, res, acc)
            if verdict == "inconclusive":
                inconcl.append(why)
                acc.count("inconclusive_runs")
            if len(acc.samples) < 3:
                acc.sample({"spec": r, "history_signature": signature(res["events"])[:200], "events": len(res["events"])})
    if inconcl and len(inconcl) > max(1, len(spec["runs"]) // 10):
        raise RuntimeError("too many inconclusive runs: %s" % inconcl[:3])
