"""C02 - a patch never touches configuration outside the generators' ACL.

The real `_diff_and_patch(dev, old_full, new, acl, ...)` is run on a full device configuration (owned rows + foreign
rows at every depth); the emitted command paths are executed on the reference device (R4). Oracles (R3 coverage):
 (a) every command path is ACL-covered level by level (directly or in negated form; exit words excepted);
 (b) every row of the device the ACL does not cover, whose ancestors all survive, is still there with an identical subtree;
 (c) a row covered only by not-deletable rules is still there;
 (d) applying the ACL to old/new beforehand (as _old_new_per_device does) and again inside gives the same patch as applying it once.
"""
import random
import re
from collections import OrderedDict as odict

from vf.gen import rb as G
from vf.gen import acl as GA
from vf.ref import acl as A
from vf.ref import device as D
from vf.ref import rulebook as RB
from vf.util import plain, unplain
from vf.props import c01, c06

LEVEL = "exploration"
RULE = ("universe patching rulebook U (default/undo_redo/ordered logics, nesting<=3) x block-CLI vendors; device tree = rows of U plus foreign rows "
        "(unknown to every ACL, some unknown to U) at every depth; ACL = 1-3 generators' ACL texts over U's vocabulary concatenated with "
        "%generator_names (nesting, *, ~, %global, %cant_delete=0/1, interface default, %prio); new = a mutated device tree restricted to the "
        "ACL-covered part. Non-trivial: >=1 uncovered row on the device and >=1 command. Distinct: hash of (vendor, rulebook, acl, old, new).")
ASSUMPTIONS = [
    "coverage by R3 (ideal merge, union of children of all local direct matches); rows between ideal coverage and the implementation's narrower filter (known findings of C06) are never passed, so the safety clauses are unaffected",
    "clause (c) demands presence only for rows ALL of whose matching rules are not deletable; rows of %ordered rulebook rules are exempt (reordering re-creates them by design)",
    "ACL patterns never split the rows of one rulebook (rule,key): they are the rulebook's patterns, widened (*, truncation + ~) or narrowed to one key",
    "rulebook logics emit only the row or its negation (default, undo_redo, ordered)",
]
FLOORS = {"quick": {"patches_checked": 2000, "commands_checked": 3000, "uncovered_rows_checked": 3000, "cant_delete_rows_checked": 150, "composition_checked": 2000, "front_runs_with_acl": 300, "front_runs_empty_acl": 10, "front_runs_acl_safe": 150, "flat_vendor_cases": 400, "flat_cases_with_negated_rows_in_new": 80, "cases_with_literal_acl_rules_holding_a_slash_or_a_hash": 400, "second_devices_with_shared_acl": 800, "shared_subrule_acl_cases": 300, "front_runs_filter_acl": 150, "deploy_front_runs": 500, "cases_with_negated_rows_in_new": 400, "front_runs_with_generator_selection": 150, "cases_with_tab_indented_rule_texts": 150, "front_runs_on_a_second_device_of_the_model": 100, "acl_rules_with_parameters_on_a_continuation_line": 300},
          "thorough": {"patches_checked": 60000, "commands_checked": 90000, "uncovered_rows_checked": 90000, "cant_delete_rows_checked": 4000, "composition_checked": 60000}}
VENDORS = c01.BLOCK_VENDORS


def plan(tier, seed):
    n = 8 if tier == "quick" else 16
    return [{"mode": "random", "tier": tier, "seed": seed, "shard": k, "nshards": n} for k in range(n)]


def add_shared_subrule(rng, acl, U):
    """two overlapping parent rules: the broad one owns a nested rule that has a %global child of its own, the narrow one
    (matching only key k1) hands a catch-all %global down: rows of key k1 reach the nested rule with more inherited
    globals than rows of other keys do"""
    cands = [ur for ur in U if ur.children and ur.pat.split()[-1] == "*" and not ur.glob
             and any(c.children and c.pat != "~" for c in ur.children)]
    if not cands:
        return False
    ur = rng.choice(cands)
    cr = rng.choice([c for c in ur.children if c.children and c.pat != "~"])
    gcs = [g for g in cr.children if g.pat != "~"]
    if not gcs:
        return False
    gc = rng.choice(gcs)
    words = ur.pat.split()
    broad = A.AclRule(ur.pat, children=[A.AclRule(cr.pat, children=[A.AclRule(gc.pat, glob=True)])])
    narrow = A.AclRule(" ".join(words[:-1] + ["k1"]), children=[A.AclRule("~", glob=True)])
    GA.tag_generator([broad, narrow], "g0")
    acl[0:0] = [narrow, broad] if rng.random() < 0.5 else [broad, narrow]
    return True


def make_case(seed, flat=False, shared=False, literal=False):
    rng = random.Random(seed)
    if flat:
        vname = sorted(c01.FLAT_VENDORS)[rng.randrange(len(c01.FLAT_VENDORS))]
    else:
        vname = VENDORS[rng.randrange(len(VENDORS))]
    v, prefix, exitw, hw, fmt = c01.vendor_env(vname)
    U = G.gen_rulebook(rng, depth=3, prefix=prefix, allow=(("ordered", "global", "flat") if flat else ("catchall", "ordered", "logic_undo_redo", "global")))
    for r in _walk(U):
        if r.logic is None and not r.children and not r.ordered and rng.random() < 0.15:
            r.logic = "common.undo_redo"
    if rng.random() < 0.4:
        tgt = rng.choice(U)
        if tgt.pat != "~" and not tgt.pat.startswith(prefix + " "):
            tgt.pat = " ".join([rng.choice(["interface", "interface", "interfaces", "interface-range"])] + tgt.pat.split()[1:])
    old = G.gen_tree(rng, U, foreign=0.5, fill=0.7)
    ngen = rng.randint(1, 3)
    acl = []
    texts = []
    for i in range(ngen):
        a = GA.gen_acl(rng, U, p_include=0.6 if ngen == 1 else 0.45)
        GA.tag_generator(a, "g%d" % i)
        acl += a
    mutated = G.mutate_tree(rng, old, U, rate=0.5)
    if shared:
        add_shared_subrule(random.Random(seed ^ 0x5A), acl, U)
    if literal:
        add_literal_rules(random.Random(seed ^ 0x117), U, old, acl, mutated)
    return vname, U, old, acl, mutated


def add_literal_rules(rng, U, old, acl, mutated):
    """ACL rules naming one port literally (`iface 1/0/1`: a slash is an ordinary character of a literal rule) and one kind of description
    (`descr #annet ~`: a `#` inside a rule is text); the device also holds ports and descriptions that merely continue or share those words"""
    from collections import OrderedDict as odict
    U.append(RB.Rule("iface *", children=[RB.Rule("descr ~"), RB.Rule("mtu *")]))
    ports = ["1/0/1", "1/0/10", "1/0/11", "1/0/1.100", "2/0/1"]
    for tree, suffix in ((old, "a"), (mutated, "b")):
        for p_ in ports:
            ch = odict()
            ch["descr %s %s" % (rng.choice(["#annet", "hand", "#annetx"]), suffix if rng.random() < 0.7 else "same")] = odict()
            ch["mtu %d" % (1500 if suffix == "a" or rng.random() < 0.5 else 9000)] = odict()
            tree["iface " + p_] = ch
    owned = rng.sample(ports, rng.randint(1, 2))
    for p_ in owned:
        kids = [A.AclRule(rng.choice(["descr #annet ~", "descr ~"]), gens=["gL"])]
        if rng.random() < 0.5:
            kids.append(A.AclRule("mtu *", gens=["gL"]))
        acl.append(A.AclRule("iface " + p_, children=kids, gens=["gL"]))


def _walk(level):
    for r in level:
        yield r
        yield from _walk(r.children)


def covered_path(path, locals_, globals_, prefix):
    """is the row path ACL-covered level by level? returns index of first uncovered element or None"""
    for i, row in enumerate(path):
        ms = A.ranked(row, locals_, globals_, prefix)
        if not ms:
            return i
        locals_, globals_ = A.children_rules(ms, globals_, "property")
    return None


def _governing_rule_ordered(U, path):
    l, g = RB.split_level(U)
    s = None
    for row in path:
        s = RB.select(row, l, g)
        if s is None:
            return False
        l, g = s[2], s[3]
    return bool(s and s[0].ordered)


def snapshot(nodes, path, out, parent=None):
    for n in nodes:
        out[id(n)] = (n, path + (n[0],), D.to_plain([n])[0], parent)
        snapshot(n[1], path + (n[0],), out, n)


def reachable(nodes, out):
    for n in nodes:
        out.add(id(n))
        reachable(n[1], out)


def check_untouched(snap, alive, al, ag, prefix, acc, w, U=None):
    """clauses (b) and (c): snap = the device lines before the patch (node identity), alive = ids still on the device"""
    for nid, (node, path, before, parent) in snap.items():
        ms_path = covered_path(path, al, ag, prefix)
        parent_alive = parent is None or id(parent) in alive
        if ms_path is not None and ms_path == len(path) - 1:
            # the line itself is not covered (its ancestors are)
            if not parent_alive:
                continue  # a covered ancestor block was removed: allowed by the statement
            anc_removed = False
            p = parent
            while p is not None:
                if id(p) not in alive:
                    anc_removed = True
                p = snap[id(p)][3]
            if anc_removed:
                continue
            acc.count("uncovered_rows_checked")
            if nid not in alive:
                acc.violation("C02/uncovered-row-removed", "a device line no ACL rule covers was removed by the patch although its ancestors all survive",
                              dict(w, row=list(path)))
            elif D.to_plain([node])[0] != before:
                acc.violation("C02/uncovered-subtree-changed", "a device line no ACL rule covers (or its subtree) was changed by the patch",
                              dict(w, row=list(path), before=before, after=D.to_plain([node])[0]))
        elif ms_path is None:
            # covered line: clause (c)
            l, g = al, ag
            for row in path[:-1]:
                l, g = A.children_rules(A.ranked(row, l, g, prefix), g, "property")
            direct = [(r, gl, v) for r, gl, v in A.ranked(path[-1], l, g, prefix) if not v]
            if direct and all(all(r.cant_delete) for r, gl, v in direct):
                if U is not None and _governing_rule_ordered(U, path):
                    acc.count("skipped_ordered_cant_delete")
                    continue  # an %ordered list is re-created on reordering by design
                acc.count("cant_delete_rows_checked")
                if nid not in alive and parent_alive:
                    acc.violation("C02/cant_delete-row-removed", "a line covered only by not-deletable ACL rules was removed",
                                  dict(w, row=list(path)))


def add_exact_negations(rng, tree, prefix, rate):
    """beside some rows put their exact negated form as a row of its own (a generator that emits `undo interface X`)"""
    out = type(tree)()
    for row, ch in tree.items():
        out[row] = add_exact_negations(rng, ch, prefix, rate) if ch else type(tree)()
        if rng.random() < rate and not row.startswith(prefix + " "):
            out[prefix + " " + row] = type(tree)()
    return out


def check_case(seed, acc, flat=False, shared=False, negnew=False, literal=False, tabs=False):
    from annet.api import _diff_and_patch
    from annet.annlib.rbparser.acl import compile_acl_text
    from annet.annlib.patching import apply_acl
    vname, U, old, acl, mutated = make_case(seed, flat, shared, literal)
    if literal:
        acc.count("cases_with_literal_acl_rules_holding_a_slash_or_a_hash")
    if shared:
        acc.count("shared_subrule_acl_cases")
    v, prefix, exitw, hw, fmt = c01.vendor_env(vname)
    exits = {exitw} | c01.EXIT_EXTRA
    if flat and negnew:
        # the rulebook knows rows spelled as removals (a catch-all for them, as the shipped Junos-like rulebooks end in `~ %global`), so a
        # `delete <statement>` row that gets through the ACL step becomes a command
        U_text = list(U) + [RB.Rule("delete ~")]
        # make protection matter: half of the top-level ACL rules are explicitly not deletable
        prng = random.Random(seed ^ 0x9C0)
        for r_ in acl:
            if not r_.glob and prng.random() < 0.5:
                r_.cant_delete, r_.explicit_cd = [True], [True]
    rtext, atext = RB.render(U_text if (flat and negnew) else U), A.render(acl)
    if not atext.strip():
        return None
    if tabs:
        # the parameters of most rules on a line of their own below the rule, indented deeper (`aaa` / `    %cant_delete=1`)
        crng = random.Random(seed ^ 0xC047)
        out_ = []
        for ln_ in atext.split("\n"):
            i_ = ln_.find(" %")
            if i_ > 0 and ln_[:i_].strip() and crng.random() < 0.6:
                ind_ = " " * (len(ln_) - len(ln_.lstrip(" ")))
                out_ += [ln_[:i_].rstrip(), ind_ + "    " + ln_[i_:].strip()]
                acc.count("acl_rules_with_parameters_on_a_continuation_line")
            else:
                out_.append(ln_)
        atext = "\n".join(out_)
        # the same texts indented with tab characters, one per level (the rule language takes blanks and tabs alike)
        atext = re.sub(r"(?m)^(?:    )+", lambda m: "\t" * (len(m.group(0)) // 4), atext)
        if seed % 2:
            rtext = re.sub(r"(?m)^(?:    )+", lambda m: "\t" * (len(m.group(0)) // 4), rtext)
        acc.count("cases_with_tab_indented_rule_texts", 1 if "\n\t" in atext else 0)
    w = {"seed": seed, "flat": flat, "shared": shared, "literal": literal, "negnew": negnew, "tabs": tabs, "vendor": vname, "rulebook": rtext, "acl": atext, "old": plain(old)}
    if flat:
        acc.count("flat_vendor_cases")
    try:
        rb = c01.compile_rb(rtext, vname)
        cacl = compile_acl_text(atext, vname)
    except Exception as e:
        acc.violation("C02/compile-exception/%s" % type(e).__name__, "generated rulebook/ACL rejected", dict(w, error=repr(e)[:300]))
        return None
    al, ag = A.compile_level(acl, ideal=True)
    new = unplain(A.filter_tree(plain(mutated), al, ag, prefix, "property"))
    if negnew:
        # the desired configuration also holds explicit negations of some of its rows: the ACL step must not let the negation of
        # a not-deletable row through (it would become a removal command)
        new = add_exact_negations(random.Random(seed ^ 0x4E), new, prefix, 0.6 if flat else 0.3)
        acc.count("cases_with_negated_rows_in_new")
        if flat:
            acc.count("flat_cases_with_negated_rows_in_new", 1 if any(r.startswith(prefix + " ") for r in new) else 0)
    w["new"] = plain(new)
    try:
        diff, patch = _diff_and_patch(c01.Dev(hw), old, new, cacl, None, False, rb=rb)
        paths = [tuple(p) for p in fmt.cmd_paths(patch)]
    except Exception as e:
        acc.violation("C02/exception/%s" % type(e).__name__, "_diff_and_patch raised", dict(w, error=repr(e)[:300]))
        return None
    w["commands"] = [list(p) for p in paths]
    acc.count("patches_checked")
    acc.count("commands_checked", len(paths))
    # execute on the full device
    if flat:
        dev = D.FlatDevice(D.from_tree(old), U, c01.FLAT_VENDORS[vname], strict_undo_redo=False)
    else:
        dev = D.BlockDevice(D.from_tree(old), U, prefix, exits, strict_undo_redo=False)
    snap = {}
    snapshot(dev.root, (), snap)
    try:
        dev.run(paths)
    except D.DeviceError as e:
        acc.violation("C02/device-rejects-command", "a patch command is issued outside its block / addresses nothing the rulebook knows", dict(w, error=str(e)))
        return None
    state = D.to_plain(dev.root)
    w["device_after"] = state
    # (a) every non-removal command, and every block it is issued in, is covered; a removal is judged through the line it removed (clause b)
    for p, action, node in dev.log:
        if action == "exit":
            continue
        target = p[:-1] if action == "remove" else p
        i = covered_path(target, al, ag, prefix)
        if i is not None:
            acc.violation("C02/command-outside-acl", "a patch command (or a block it is issued in) addresses a line the combined ACL does not cover",
                          dict(w, command=list(p), uncovered_level=i))
            break
        if action == "remove" and node is not None and id(node) in snap:
            if covered_path(snap[id(node)][1], al, ag, prefix) is not None:
                acc.violation("C02/uncovered-row-removed", "a removal command removed a device line that no ACL rule covers",
                              dict(w, command=list(p), row=list(snap[id(node)][1])))
                break
    alive = set()
    reachable(dev.root, alive)
    before = acc.counters.get("uncovered_rows_checked", 0)
    check_untouched(snap, alive, al, ag, prefix, acc, w, U)
    unc = acc.counters.get("uncovered_rows_checked", 0) - before
    acc.case([vname, rtext, atext, w["old"], w["new"]], nontrivial=(unc >= 1 and len(paths) >= 1))
    # (d) composition as in _old_new_per_device
    try:
        old2 = apply_acl(old, cacl)
        new2 = apply_acl(new, cacl)
        _, patch2 = _diff_and_patch(c01.Dev(hw), old2, new2, cacl, None, False, rb=rb)
        paths2 = [tuple(p) for p in fmt.cmd_paths(patch2)]
        acc.count("composition_checked")
        if paths2 != paths:
            acc.violation("C02/acl-applied-twice-differs", "applying the ACL before and inside _diff_and_patch gives a different patch than applying it once",
                          dict(w, commands_twice=[list(p) for p in paths2]))
    except Exception as e:
        acc.violation("C02/exception-composition/%s" % type(e).__name__, "composition raised", dict(w, error=repr(e)[:300]))
    # (g) a second device of the same kind handled in the same process with the same ACL text: the compiled ACL is cached and shared
    if seed % 2 == 0 or shared:
        rng2 = random.Random(seed ^ 0xB0B)
        old_b = G.gen_tree(rng2, U, foreign=0.5, fill=0.7)
        mut_b = G.mutate_tree(rng2, old_b, U, rate=0.5)
        new_b = unplain(A.filter_tree(plain(mut_b), al, ag, prefix, "property"))
        w2 = dict(w, second_device=True, old=plain(old_b), new=plain(new_b), first_device_old=w["old"])
        try:
            _, patch_b = _diff_and_patch(c01.Dev(hw), old_b, new_b, compile_acl_text(atext, vname), None, False, rb=rb)
            paths_b = [tuple(p) for p in fmt.cmd_paths(patch_b)]
        except Exception as e:
            acc.violation("C02/exception-second-device/%s" % type(e).__name__, "_diff_and_patch raised on a second device sharing the ACL", dict(w2, error=repr(e)[:300]))
            return w
        w2["commands"] = [list(p) for p in paths_b]
        acc.count("second_devices_with_shared_acl")
        judge_patch(acc, w2, vname, U, old_b, paths_b, al, ag, tag="", flat=flat)
    return w


def judge_patch(acc, w, vname, U, old, paths, al, ag, tag="", flat=False):
    """execute `paths` on a device holding `old` and evaluate clauses (a)-(c) against the compiled reference ACL (al, ag)"""
    v, prefix, exitw, hw, fmt = c01.vendor_env(vname)
    exits = {exitw} | c01.EXIT_EXTRA
    if flat:
        dev = D.FlatDevice(D.from_tree(old), U, c01.FLAT_VENDORS[vname], strict_undo_redo=False)
    else:
        dev = D.BlockDevice(D.from_tree(old), U, prefix, exits, strict_undo_redo=False)
    snap = {}
    snapshot(dev.root, (), snap)
    try:
        dev.run(paths)
    except D.DeviceError as e:
        acc.violation("C02/device-rejects-command" + tag, "a patch command is issued outside its block / addresses nothing the rulebook knows", dict(w, error=str(e)))
        return None
    w["device_after"] = D.to_plain(dev.root)
    for p, action, node in dev.log:
        if action == "exit":
            continue
        target = p[:-1] if action == "remove" else p
        i = covered_path(target, al, ag, prefix)
        if i is not None:
            acc.violation("C02/command-outside-acl" + tag, "a patch command (or a block it is issued in) addresses a line the combined ACL does not cover",
                          dict(w, command=list(p), uncovered_level=i))
            break
        if action == "remove" and node is not None and id(node) in snap:
            if covered_path(snap[id(node)][1], al, ag, prefix) is not None:
                acc.violation("C02/uncovered-row-removed" + tag, "a removal command removed a device line that no ACL rule covers",
                              dict(w, command=list(p), row=list(snap[id(node)][1])))
                break
    alive = set()
    reachable(dev.root, alive)
    before = acc.counters.get("uncovered_rows_checked", 0)
    check_untouched(snap, alive, al, ag, prefix, acc, w, U)
    return acc.counters.get("uncovered_rows_checked", 0) - before


def check_front(seed, acc, safe=False, filt=False, sel=False):
    """the same safety clauses through the production front end _old_new_per_device (generators -> combined ACL -> old/new -> patch);
    safe=True: the --acl-safe mode, where only the generators' acl_safe texts make up the ACL the patch is confined to"""
    from annet.api import _diff_and_patch
    from annet.generators import GeneratorError
    from vf import harness_gen as H
    rng = random.Random(seed)
    vname = rng.choice([x for x in VENDORS if x != "pc"])
    v, prefix, exitw, hw, fmt = c01.vendor_env(vname)
    U = G.gen_rulebook(rng, depth=3, prefix=prefix, allow=("catchall", "ordered", "global"))
    if rng.random() < 0.4:
        tgt = rng.choice(U)
        if tgt.pat != "~" and not tgt.pat.startswith(prefix + " "):
            tgt.pat = " ".join([rng.choice(["interface", "interfaces", "interface-range"])] + tgt.pat.split()[1:])
    old = G.gen_tree(rng, U, foreign=0.5, fill=0.7)
    mutated = G.mutate_tree(rng, old, U, rate=0.5)
    ngen = rng.randint(1, 3)
    gens, ref_acl = [], []
    for i in range(ngen):
        a = GA.gen_acl(rng, U, p_include=0.55)
        supported = rng.random() < 0.8
        text = A.render(a)
        l, g = A.compile_level(a, ideal=False)
        out = A.filter_tree(plain(mutated), l, g, prefix, "winner")
        safe_text = None
        if safe and rng.random() < 0.6:
            a_s = [r for r in a if rng.random() < 0.6]
            safe_text = A.render(a_s)
        chosen = True
        gtags = []
        if sel:
            # -g / -G / --force-enabled and the `disable` tag decide which generators run at all: the patch is confined to the ACLs
            # of the SELECTED generators (decision table: allowed list if given, else not disabled unless forced; minus the excluded)
            if i == 0:
                srng = random.Random(seed ^ 0x5E1)
                names = ["Gen%d" % k for k in range(ngen)]
                sel_opts = {"allowed": srng.sample(names + ["mgmt"], srng.randint(1, 2)) if srng.random() < 0.5 else None,
                            "excluded": srng.sample(names + ["mgmt"], 1) if srng.random() < 0.6 else None,
                            "force": srng.sample(names, 1) if srng.random() < 0.4 else None,
                            "tags": {nm: (["mgmt"] if srng.random() < 0.4 else []) + (["disable"] if srng.random() < 0.3 else []) for nm in names}}
            gtags = sel_opts["tags"]["Gen%d" % i]
            al_ = {"Gen%d" % i, "gen%d" % i, *gtags}
            if sel_opts["allowed"]:
                chosen = bool(al_ & set(sel_opts["allowed"]))
            elif sel_opts["force"]:
                chosen = ("disable" not in gtags) or bool(al_ & set(sel_opts["force"]))
            else:
                chosen = "disable" not in gtags
            if sel_opts["excluded"] and (al_ & set(sel_opts["excluded"])):
                chosen = False
        gens.append(H.make_partial("Gen%d" % i, vname, text, H.tree_runner(out), supported=supported, acl_safe_text=safe_text, tags=gtags))
        if not chosen:
            continue
        if safe:
            if supported and safe_text and safe_text.strip():
                ref_acl += GA.tag_generator(a_s, "Gen%d" % i)
        elif supported and text.strip():
            ref_acl += GA.tag_generator(a, "Gen%d" % i)
    rtext = RB.render(U)
    ftext, fref = None, None
    if filt:
        # --filter-acl: the operator narrows the run to a part of the configuration; the patch must stay inside BOTH ACLs
        frng = random.Random(seed ^ 0xF1)
        fref = GA.gen_acl(frng, U, p_include=0.6)
        ftext = A.render(fref)
        if not ftext.strip():
            fref, ftext = [A.AclRule("~", glob=True)], "~ %global"
        acc.count("front_runs_filter_acl")
    w = {"front": True, "safe": safe, "filt": filt, "sel": sel, "filter_acl": ftext, "seed": seed, "vendor": vname, "rulebook": rtext, "old": plain(old),
         "generators": [{"name": type(g_).__name__, "supported": bool(g_.supports_device(H.FakeDevice(hw)))} for g_ in gens],
         "acl": A.render(ref_acl)}
    device = H.FakeDevice(hw)
    if sel:
        import types as _t2
        from annet.generators import select_generators
        opts = _t2.SimpleNamespace(allowed_gens=sel_opts["allowed"], excluded_gens=sel_opts["excluded"], force_enabled=sel_opts["force"], ignore_disabled=False,
                                   generators_context=None)
        try:
            gens = list(select_generators(opts, gens))
        except Exception as e:
            acc.violation("C02/front-exception/%s" % type(e).__name__, "select_generators raised", dict(w, error=repr(e)[:300]))
            return None
        w["selection"] = {k: v for k, v in sel_opts.items()}
        w["selected"] = [type(g_).__name__ for g_ in gens]
        acc.count("front_runs_with_generator_selection")
        if not gens:
            return None
    try:
        rb = c01.compile_rb(rtext, vname)
        res = H.old_new(device, gens, fmt.join(old), no_acl_exclusive=True, acl_safe=safe, filter_acl_text=ftext)
    except GeneratorError:
        acc.count("front_skipped_generator_error")
        return None
    except Exception as e:
        acc.violation("C02/front-exception/%s" % type(e).__name__, "_old_new_per_device raised", dict(w, error=repr(e)[:300]))
        return None
    if res.err is not None:
        acc.violation("C02/front-error/%s" % type(res.err).__name__, "_old_new_per_device returned an error", dict(w, error=repr(res.err)[:300]))
        return None
    try:
        diff, patch = _diff_and_patch(device, res.get_old(safe), res.get_new(safe), res.get_acl_rules(safe), res.filter_acl_rules, False, rb=rb)
        paths = [tuple(p) for p in fmt.cmd_paths(patch)]
    except Exception as e:
        acc.violation("C02/front-exception/%s" % type(e).__name__, "_diff_and_patch raised on the front end's result", dict(w, error=repr(e)[:300]))
        return None
    w["commands"] = [list(p) for p in paths]
    acc.count("front_runs")
    acc.count("front_runs_empty_acl" if not ref_acl else "front_runs_with_acl")
    if safe:
        acc.count("front_runs_acl_safe")
    al, ag = A.compile_level(ref_acl, ideal=True)
    unc = judge_patch(acc, w, vname, U, old, paths, al, ag, tag="")
    if filt:
        fl, fg = A.compile_level(fref, ideal=True)
        judge_patch(acc, w, vname, U, old, paths, fl, fg, tag="/filter-acl")
    acc.case(["front", vname, rtext, w["acl"], w["old"], w["commands"]], nontrivial=bool(unc and paths))
    # the deploy front end (CliDeployerJob) on the same front-end result and options must hand the driver the same commands
    import types as _t
    import annet.api as API
    import annet.deploy as AD
    from annet.annlib.command import CommandList
    seen = {}

    class Drv:
        def apply_deploy_rulebook(self, hw_, cmd_paths, do_finalize=True, do_commit=True):
            seen["paths"] = [tuple(p) for p in cmd_paths]
            return CommandList()

        def build_exit_cmdlist(self, hw_):
            return CommandList()
    orig_rb, orig_gd = API.rulebook.get_rulebook, AD.get_deployer
    API.rulebook.get_rulebook = lambda hw_: rb
    AD.get_deployer = lambda: Drv()
    try:
        job = API.CliDeployerJob(device, _t.SimpleNamespace(acl_safe=safe, dont_commit=False))
        job.parse_result(res)
    except Exception as e:
        acc.violation("C02/deploy-front-exception/%s" % type(e).__name__, "CliDeployerJob.parse_result raised on the front end's result", dict(w, error=repr(e)[:300]))
        return w
    finally:
        API.rulebook.get_rulebook, AD.get_deployer = orig_rb, orig_gd
    acc.count("deploy_front_runs")
    dpaths = seen.get("paths", [])
    if dpaths != paths:
        w3 = dict(w, deploy_commands=[list(p) for p in dpaths])
        before = len(acc.violations)
        judge_patch(acc, dict(w3, commands=w3["deploy_commands"]), vname, U, old, dpaths, al, ag, tag="/deploy-front-end")
        if len(acc.violations) == before:
            acc.violation("C02/deploy-front-end-differs-from-patch-front-end", "with the same options the deploy job sends other commands than `annet patch` shows", w3)
    return w


def check_two_devices(seed, acc):
    """the same generator objects serve two devices of ONE hardware model, and what a generator owns depends on the device (its uplinks, its role):
    each device's patch is confined to the ACLs the generators declared for THAT device"""
    from annet.api import _diff_and_patch
    from annet.generators import GeneratorError
    from vf import harness_gen as H
    rng = random.Random(seed)
    vname = rng.choice([x for x in VENDORS if x != "pc"])
    v, prefix, exitw, hw, fmt = c01.vendor_env(vname)
    U = G.gen_rulebook(rng, depth=3, prefix=prefix, allow=("catchall", "ordered", "global"))
    rtext = RB.render(U)
    hosts = ["sw1", "sw2"]
    olds = {h: G.gen_tree(rng, U, foreign=0.5, fill=0.75) for h in hosts}
    muts = {h: G.mutate_tree(rng, olds[h], U, rate=0.5) for h in hosts}
    gens, refs = [], {h: [] for h in hosts}
    for i in range(rng.randint(1, 3)):
        a1 = GA.gen_acl(rng, U, p_include=0.7)
        a2 = [r for r in a1 if rng.random() < 0.5]      # on the second device the generator owns a part of it only
        per = {}
        for h, a in zip(hosts if rng.random() < 0.7 else hosts[::-1], (a1, a2)):
            l, g = A.compile_level(a, ideal=False)
            per[h] = (A.render(a), A.filter_tree(plain(muts[h]), l, g, prefix, "winner"))
            if per[h][0].strip():
                refs[h] += GA.tag_generator(a, "Gen%d" % i)
        gobj = H.make_partial("Gen%d" % i, vname, "", H.tree_runner([]))
        cls = type(gobj)
        setattr(cls, "acl_" + vname, lambda self, device, _per=per: _per[device.hostname][0])
        setattr(cls, "run_" + vname, lambda self, device, _per=per: H.tree_runner(_per[device.hostname][1])(self, device))
        gens.append(gobj)
    try:
        rb = c01.compile_rb(rtext, vname)
    except Exception as e:
        acc.violation("C02/compile-exception/%s" % type(e).__name__, "generated rulebook rejected", {"two_devices": True, "seed": seed, "error": repr(e)[:300]})
        return
    order = hosts if seed % 2 else hosts[::-1]
    acc.count("runs_of_one_generator_set_over_two_devices_of_one_model")
    for h in order:
        device = H.FakeDevice(hw, hostname=h)
        w = {"two_devices": True, "seed": seed, "vendor": vname, "rulebook": rtext, "device": h, "device_order": order, "old": plain(olds[h]), "acl": A.render(refs[h]),
             "acl_on_the_other_device": A.render(refs[[x for x in hosts if x != h][0]])}
        try:
            res = H.old_new(device, gens, fmt.join(olds[h]), no_acl_exclusive=True)
        except GeneratorError:
            acc.count("front_skipped_generator_error")
            continue
        except Exception as e:
            acc.violation("C02/front-exception/%s" % type(e).__name__, "_old_new_per_device raised", dict(w, error=repr(e)[:300]))
            return
        if res.err is not None:
            acc.violation("C02/front-error/%s" % type(res.err).__name__, "_old_new_per_device returned an error", dict(w, error=repr(res.err)[:300]))
            return
        try:
            diff, patch = _diff_and_patch(device, res.get_old(False), res.get_new(False), res.get_acl_rules(False), res.filter_acl_rules, False, rb=rb)
            paths = [tuple(p) for p in fmt.cmd_paths(patch)]
        except Exception as e:
            acc.violation("C02/front-exception/%s" % type(e).__name__, "_diff_and_patch raised on the front end's result", dict(w, error=repr(e)[:300]))
            return
        w["commands"] = [list(p) for p in paths]
        acc.count("front_runs")
        acc.count("front_runs_on_a_second_device_of_the_model" if h == order[1] else "front_runs_with_acl")
        al, ag = A.compile_level(refs[h], ideal=True)
        unc = judge_patch(acc, w, vname, U, olds[h], paths, al, ag, tag="")
        acc.case(["two-devices", vname, rtext, w["acl"], w["old"], w["commands"]], nontrivial=bool(unc and paths))


def run_shard(spec, acc):
    if spec["mode"] == "replay":
        if spec["witness"].get("two_devices"):
            return check_two_devices(spec["witness"]["seed"], acc)
        if spec["witness"].get("front"):
            check_front(spec["witness"]["seed"], acc, safe=bool(spec["witness"].get("safe")), filt=bool(spec["witness"].get("filt")), sel=bool(spec["witness"].get("sel")))
        else:
            check_case(spec["witness"]["seed"], acc, flat=bool(spec["witness"].get("flat")), shared=bool(spec["witness"].get("shared")),
                       negnew=bool(spec["witness"].get("negnew")), literal=bool(spec["witness"].get("literal")), tabs=bool(spec["witness"].get("tabs")))
        return
    tier, k, n = spec["tier"], spec["shard"], spec["nshards"]
    total = 2400 if tier == "quick" else 70000
    rng = random.Random("C02/%s/%s" % (spec["seed"], k))
    tdrng = random.Random("C02/two-devices/%s/%s" % (spec["seed"], k))
    for j in range(total // n):
        w = check_case(rng.randrange(1 << 48), acc)
        if j < 2 and w:
            acc.sample({k2: w[k2] for k2 in ("vendor", "rulebook", "acl", "old", "new", "commands")})
        if j % 3 == 0:
            check_front(rng.randrange(1 << 48), acc)
        if j % 6 == 1:
            check_front(rng.randrange(1 << 48), acc, safe=True)
        if j % 6 == 4:
            check_front(rng.randrange(1 << 48), acc, filt=True)
        if j % 6 == 5:
            check_front(rng.randrange(1 << 48), acc, sel=True)
        if j % 6 == 2:
            check_two_devices(tdrng.randrange(1 << 48), acc)
        if j % 4 == 2:
            check_case(rng.randrange(1 << 48), acc, flat=True)
        if j % 4 == 0:
            check_case(rng.randrange(1 << 48), acc, shared=True, tabs=(j % 8 == 0))
        if j % 4 == 1:
            check_case(rng.randrange(1 << 48), acc, negnew=True, tabs=(j % 8 == 1))
        if j % 8 == 6:
            check_case(rng.randrange(1 << 48), acc, flat=True, negnew=True)
        if j % 4 == 3:
            check_case(rng.randrange(1 << 48), acc, literal=True)  # `delete <statement>` rows in a Junos-like generator output
