"""One pool run under observation. `python -m vf.props.c12_driver spec.json log.jsonl`

Records a history at the client boundary (submit / deliver / end) plus observability events from inside
(start, done in the worker; reap in the parent) into an O_APPEND log; optionally injects seeded delays at
marker lines of annet/parallel.py through sys.monitoring LINE events (inherited by forked workers).
"""
import json
import os
import random
import sys
import time

LOG_FD = None
T0 = time.monotonic()


def log(kind, **kw):
    kw["k"] = kind
    kw["t"] = round(time.monotonic() - T0, 5)
    kw["pid"] = os.getpid()
    os.write(LOG_FD, (json.dumps(kw, default=str) + "\n").encode())


MARKERS = {
    # substring of a source line of annet/parallel.py -> injection point name
    "last_task_ts = time.monotonic()": "parent_after_get",
    "self._check_children(pool)": "parent_before_reap",
    "if not pool": "parent_before_exit_test",
    "exitcode = pool[name].exitcode": "reap_each",
    "task_queue.get()": "worker_before_get",
    "done_queue.put(": "worker_before_put",
    "tasks_done += 1": "worker_after_put",
    "sys.exit(9)": "worker_before_retire",
}


def install_delays(seed, max_ms, prob, fixed=None):
    import annet.parallel as ap
    fname = os.path.realpath(ap.__file__)
    with open(fname) as f:
        src = f.read().split("\n")
    points = {}
    for i, line in enumerate(src, 1):
        for mk, name in MARKERS.items():
            if mk in line and not line.strip().startswith("#"):
                points[i] = name
    mon = sys.monitoring
    tool = mon.PROFILER_ID
    mon.use_tool_id(tool, "vf-c12-delays")
    state = {"rng": None, "pid": None, "n": 0}

    def on_line(code, lineno):
        if os.path.realpath(code.co_filename) != fname:
            return mon.DISABLE
        name = points.get(lineno)
        if name is None:
            return mon.DISABLE
        if state["pid"] != os.getpid():  # per-process stream, reproducible from (seed, worker name order)
            state["pid"] = os.getpid()
            import multiprocessing as mp
            state["rng"] = random.Random("%s/%s/%d" % (seed, mp.current_process().name, state["n"]))
        r = state["rng"]
        if fixed and name in fixed:
            state["n"] += 1
            time.sleep(fixed[name] / 1000.0)  # a deterministic delay at one marker (e.g. a slow trace flush before a worker retires)
            if state["n"] <= 200:
                log("inject", at=name, ms=fixed[name])
            return None
        if r.random() < prob:
            d = r.random() * max_ms / 1000.0
            state["n"] += 1
            time.sleep(d)
            if state["n"] <= 200:
                log("inject", at=name, ms=round(d * 1000, 2))
        return None

    mon.register_callback(tool, mon.events.LINE, on_line)
    mon.set_events(tool, mon.events.LINE)
    return sorted(set(points.values()))


def main():
    global LOG_FD
    spec = json.load(open(sys.argv[1]))
    LOG_FD = os.open(sys.argv[2], os.O_WRONLY | os.O_CREAT | os.O_APPEND, 0o644)
    from vf import env
    env.setup()
    import annet.parallel as ap
    from annet.parallel import Parallel

    n, pool, max_tasks = spec["n"], spec["pool"], spec["max_tasks"]
    ids = list(range(100, 100 + n))
    if spec.get("dup_ids"):
        ids = ids + ids[: max(1, n // 4)]
    # the file front ends submit (old path, new path) tuples; the worker derives a device name from "<name>.cfg" when there is one
    to_int = {}
    if spec.get("tuple_ids"):
        exts = [".cfg", ".conf", ".txt", "", ".cfg.bak", ".CFG"]
        tids = []
        for i in ids:
            t = ("/nonexistent/old/dev%d%s" % (i, exts[i % len(exts)]), "/nonexistent/new/dev%d%s" % (i, exts[i % len(exts)]))
            to_int[t] = i
            tids.append(t)
        submit_ids = tids
    else:
        submit_ids = ids

    def as_int(x):
        if isinstance(x, (tuple, list)):
            return to_int.get(tuple(x), -1)
        return x
    raising = set(spec.get("raising", []))
    unpicklable = set(spec.get("unpicklable", []))  # tasks whose result cannot be sent back to the parent (a local function inside): a failure of that id
    raising_empty = set(spec.get("raising_empty", []))  # tasks failing with an exception that carries no message (`raise ValueError()`, a bare assert)
    task_ms, task_jitter = spec.get("task_ms", 0), spec.get("task_jitter", False)
    cons_ms = spec.get("consumer_ms", 0)
    cb_ms = spec.get("callback_ms", 0)
    salt = spec.get("salt", 7)
    big = spec.get("big_payload", 0)

    net_always = set(spec.get("net_always", []))    # raise a network error on every attempt
    net_wrapped = set(spec.get("net_wrapped", []))  # raise an error whose __context__ is a network error, on every attempt
    net_flaky = {int(k): v for k, v in spec.get("net_flaky", {}).items()}  # id -> number of failing attempts before success
    net_flaky_wrapped = {int(k): v for k, v in spec.get("net_flaky_wrapped", {}).items()}  # the same, the network error only being the __context__ of what is raised
    attempts = {}

    def f(dev_id):
        import multiprocessing as mp
        dev_id = as_int(dev_id)
        log("start", id=dev_id, worker=mp.current_process().name)
        attempts[dev_id] = attempts.get(dev_id, 0) + 1
        if attempts[dev_id] <= net_flaky_wrapped.get(dev_id, 0):
            try:
                raise ConnectionResetError("flaky %s attempt %d" % (dev_id, attempts[dev_id]))
            except ConnectionResetError:
                raise RuntimeError("session to %s lost" % dev_id)  # implicit chaining: no `from`
        if dev_id in net_always:
            raise (ConnectionResetError if dev_id % 2 else BrokenPipeError)("net %s" % dev_id)
        if dev_id in net_wrapped:
            try:
                raise BrokenPipeError("inner %s" % dev_id)
            except BrokenPipeError:
                raise RuntimeError("wrapped %s" % dev_id)
        if attempts[dev_id] <= net_flaky.get(dev_id, 0):
            raise ConnectionResetError("flaky %s attempt %d" % (dev_id, attempts[dev_id]))
        d = task_ms
        if task_jitter:
            d = (dev_id * 2654435761 % 1000) / 1000.0 * task_ms * 2
        if d:
            time.sleep(d / 1000.0)
        if dev_id in unpicklable:
            return ["r", dev_id, (lambda: dev_id)]
        if dev_id in raising_empty:
            raise ValueError()
        if dev_id in raising:
            raise ValueError("boom %s" % dev_id)
        return ["r", dev_id, dev_id * dev_id + salt, "x" * big]

    def in_thread_cb(par, tr):
        log("done", id=as_int(tr.device_id), failed=tr.exc is not None)
        if cb_ms:
            time.sleep(cb_ms / 1000.0)
        return tr

    def parent_cb(par, tr):
        log("cb", id=as_int(tr.device_id))
        return tr

    orig_cc = Parallel._check_children

    def cc(self, pool_):
        before = sorted(pool_)
        r = orig_cc(self, pool_)
        if r[0] or r[1] or sorted(pool_) != before:
            log("reap", retired=list(r[0]), failed=list(r[1]), left=len(pool_))
        return r
    Parallel._check_children = cc

    if spec.get("prelude"):
        # an earlier, unrelated pool of the same process (annet runs several: fetch, generate, deploy ...) with callbacks of its own that
        # only know its own ids; whatever it registered must stay with it
        pre_ids = [900 + i for i in range(spec["prelude"])]
        names = {i: "pre%d" % i for i in pre_ids}

        def pre_thread_cb(par, tr):
            tr.result = [names[tr.device_id]] if tr.exc is None else None
            return tr

        def pre_cb(par, tr):
            names[tr.device_id]
            return tr
        pp = Parallel(lambda i: ["x", i]).tune(parallel=spec.get("prelude_pool", 2), max_tasks=max_tasks)
        pp.add_callback(pre_thread_cb, in_thread=True)
        pp.add_callback(pre_cb)
        ok_, fail_ = pp.run(pre_ids)
        log("prelude", ok=sorted(ok_), failed=sorted(fail_), payloads=sorted(map(str, ok_.values())))

    points = []
    if spec.get("inject"):
        points = install_delays(spec["inject"]["seed"], spec["inject"]["max_ms"], spec["inject"]["prob"], spec["inject"].get("fixed"))
    log("submit", ids=ids, points=points)
    p = Parallel(f).tune(parallel=pool, max_tasks=max_tasks)
    if spec.get("task_timeout"):
        p.tune(task_timeout=spec["task_timeout"])  # seconds without any result before the run is given up
    p.add_callback(in_thread_cb, in_thread=True)
    if spec.get("parent_cb"):
        p.add_callback(parent_cb)
    tolerate = spec.get("tolerate_fails", True)
    try:
        if spec.get("api") == "run":
            success, fail = p.run(submit_ids, tolerate_fails=tolerate)
            for k, v in success.items():
                log("deliver", id=as_int(k), ok=True, payload=v[:3])
            for k, v in fail.items():
                log("deliver", id=as_int(k), ok=False, exc=type(v).__name__, orig=getattr(getattr(v, "orig_exc_cls", None), "__name__", None),
                    exc_dev=as_int(getattr(v, "device_id", None)))
        else:
            for tr in p.irun(submit_ids, tolerate):
                if tr.exc is None:
                    log("deliver", id=as_int(tr.device_id), ok=True, payload=tr.result[:3])
                else:
                    log("deliver", id=as_int(tr.device_id), ok=False, exc=type(tr.exc).__name__,
                        orig=getattr(getattr(tr.exc, "orig_exc_cls", None), "__name__", None), exc_dev=as_int(getattr(tr.exc, "device_id", None)))
                if cons_ms:
                    time.sleep(cons_ms / 1000.0)
        log("end", how="normal", tasks_done=p.tasks_done)
    except BaseException as e:  # noqa
        log("end", how="raised", exc=type(e).__name__, orig=getattr(getattr(e, "orig_exc_cls", None), "__name__", None),
            exc_dev=as_int(getattr(e, "device_id", None)), msg=str(e)[:200])


if __name__ == "__main__":
    main()
