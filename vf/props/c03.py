"""C03 - the diff is a faithful, lossless description of old versus new.

Monitors on the real make_diff / strip_unchanged / formatter.diff / gen_pre_as_diff:
  L1 projections: dropping ADDED (REMOVED) entries gives old|R (new|R) - unordered, ordered inside %ordered groups;
  L2 op exactness: ADDED => absent from old at that place, REMOVED => absent from new, present in both => neither;
  L3 self-diff: strip_unchanged(make_diff(x, x, R)) == [];
  L4 reference diff (vf/ref/diff.py: MOVED iff the preceding sequence differs, rewrite units, UNCHANGED marking) == real diff;
  L5 text views: the signed text of formatter.diff(d) and of gen_pre_as_diff(make_pre(d)) read back gives d.
"""
import random
import re

from vf.gen import rb as G
from vf.ref import diff as RD
from vf.ref import rulebook as RB
from vf.util import plain, unplain
from vf.props import c01

LEVEL = "exploration"
RULE = ("random rulebooks with the standard diff logics only (default, %ordered, %rewrite-children blocks, %global incl. catch-all, '!'-ignore rules, %ignore_case leaf rules beside rows with upper-case words; "
        "nesting<=3) x vendors whose default diff logic is the common one (block-CLI vendors except aruba, plus juniper/ribbon/nokia for the brace text view); "
        "pairs (old,new): new derived from old by random edits (incl. reordering) or generated independently; also (x,x). Non-trivial: the stripped diff "
        "has >=2 entries on >=2 depths. Distinct: hash of (vendor, rulebook, old, new).")
ASSUMPTIONS = [
    "R2 decides which rows the rulebook knows; vendor-specific %diff_logic functions are out of scope (aruba excluded; juniper-family rows avoid 'inactive:', quotes and comments)",
    "an unchanged %rewrite unit is absent from the diff by design: the projection law is evaluated modulo such units",
    "order is compared inside %ordered groups only (call_diff_logic concatenates groups)",
]
FLOORS = {"quick": {"diffs_compared": 3000, "moved_entries": 200, "rewrite_units_changed": 50, "text_views_checked": 3000, "self_diffs": 1000, "ignore_case_rulebooks": 400, "acl_diffs_compared": 600, "removals_of_not_deletable_rows": 100, "big_blocks_compared": 120, "diff_worker_runs": 600, "collapsed_device_groups_checked": 1500, "file_diff_texts_checked": 600, "rulebooks_with_global_rules_on_two_levels": 400, "diff_texts_of_several_devices_checked": 1500, "rows_of_ignore_case_rules_spelled_in_another_case": 300, "rulebooks_with_a_specific_rule_bringing_its_own_global_rule": 300, "rows_of_the_specific_rules_global_family": 200, "deploy_confirmations_checked": 300},
          "thorough": {"diffs_compared": 150000, "moved_entries": 10000, "rewrite_units_changed": 2500, "text_views_checked": 150000, "self_diffs": 50000, "ignore_case_rulebooks": 15000, "acl_diffs_compared": 25000, "removals_of_not_deletable_rows": 4000, "big_blocks_compared": 5000}}
VENDORS = ["huawei", "h3c", "optixtrans", "cisco", "nexus", "iosxr", "arista", "b4com", "pc", "juniper", "ribbon", "nokia"]
BRACE = {"juniper", "ribbon", "nokia"}


def plan(tier, seed):
    n = 8 if tier == "quick" else 16
    return [{"mode": "random", "tier": tier, "seed": seed, "shard": k, "nshards": n} for k in range(n)]


def real_entries(diff):
    return [(op.name if hasattr(op, "name") else str(op), row, real_entries(ch)) for op, row, ch, _ in diff]


def opname(op):
    s = getattr(op, "name", None) or str(op)
    return s.upper().split(".")[-1]


def norm(diff):
    return [(opname(op), row, norm(ch)) for op, row, ch, _ in diff]


def proj(entries, drop):
    return [[row, proj(ch, drop)] for op, row, ch in entries if op != drop]


def multiset(t):
    return sorted([[r, multiset(c)] for r, c in t])


def rewrite_rows_equal(a, b, l, g):
    ra = [[r, c] for r, c, s in RD.restrict(a, l, g) if s[0].rewrite]
    rb_ = [[r, c] for r, c, s in RD.restrict(b, l, g) if s[0].rewrite]
    return RD.restricted_plain(ra, l, g) == RD.restricted_plain(rb_, l, g), {r for r, c in ra}


def check_projection(entries, old, new, l, g, side, probs, path=()):
    """entries: real diff (normalised); old/new plain subtrees; side 'old'|'new'"""
    tree = old if side == "old" else new
    want = RD.restrict(tree, l, g)
    same_rw, rw_rows = rewrite_rows_equal(old, new, l, g)
    got = [(op, row, ch) for op, row, ch in entries if op != ("ADDED" if side == "old" else "REMOVED")]
    if same_rw:
        want = [x for x in want if not x[2][0].rewrite]
        got = [e for e in got if e[1] not in rw_rows]
    if sorted(r for r, c, s in want) != sorted(e[1] for e in got):
        probs.append(("projection-%s" % side, list(path), sorted(r for r, c, s in want), sorted(e[1] for e in got)))
        return
    # ordered groups keep their order
    # (a MOVED entry sits at its new position: on the old side only rows that did not move can keep their order)
    skip = {e[1] for e in got if e[0] == "MOVED"} if side == "old" else set()
    for rid in {id(s[0]) for r, c, s in want if s[0].ordered}:
        wseq = [r for r, c, s in want if id(s[0]) == rid and r not in skip]
        gseq = [e[1] for e in got if e[1] in set(wseq)]
        if wseq != gseq:
            probs.append(("projection-%s-order" % side, list(path), wseq, gseq))
    gmap = {e[1]: e for e in got}
    omap = {r: c for r, c in old}
    nmap = {r: c for r, c in new}
    for row, ch, s in want:
        e = gmap[row]
        check_projection(e[2], omap.get(row, []), nmap.get(row, []), s[2], s[3], side, probs, path + (row,))


def check_ops(entries, old, new, probs, path=()):
    omap = {r: c for r, c in old}
    nmap = {r: c for r, c in new}
    for op, row, ch in entries:
        if op == "ADDED" and row in omap:
            probs.append(("added-but-present-in-old", list(path + (row,))))
        if op == "REMOVED" and row in nmap:
            probs.append(("removed-but-present-in-new", list(path + (row,))))
        if op not in ("ADDED", "REMOVED") and not (row in omap and row in nmap):
            probs.append(("kept-but-absent-from-one-side", list(path + (row,))))
        check_ops(ch, omap.get(row, []), nmap.get(row, []), probs, path + (row,))


def depth_stats(entries, d=1):
    n, depths = 0, set()
    for op, row, ch in entries:
        n += 1
        depths.add(d)
        n2, d2 = depth_stats(ch, d + 1)
        n += n2
        depths |= d2
    return n, depths


# ---- signed text readers ------------------------------------------------------------------------
SIGNS = {"-": "REMOVED", "+": "ADDED", ">": "MOVED", " ": "AFFECTED"}


def read_formatter_diff(lines, indent, brace):
    """lines of formatter.diff(d) -> entries"""
    root = []
    stack = [(-1, root)]
    for ln in lines:
        sign, rest = ln[0], ln[2:]
        lvl = 0
        while rest.startswith(indent):
            rest = rest[len(indent):]
            lvl += 1
        row = rest
        if brace:
            if row == "}":
                continue
            row = re.sub(r"( \{|;)$", "", row)
        while stack[-1][0] >= lvl:
            stack.pop()
        node = (SIGNS[sign], row, [])
        stack[-1][1].append(node)
        stack.append((lvl, node[2]))
    return root


def read_pre_diff(text, indent):
    root = []
    stack = [(-1, root)]
    for ln in text.split("\n"):
        if not ln:
            continue
        sign, rest = ln[0], ln[1:]
        lvl = 0
        while rest.startswith(indent):
            rest = rest[len(indent):]
            lvl += 1
        row = rest[1:]
        while stack[-1][0] >= lvl:
            stack.pop()
        node = (SIGNS[sign], row, [])
        stack[-1][1].append(node)
        stack.append((lvl, node[2]))
    return root


def _upper_some(rng, tree, level, inherited=()):
    """upper-case the free words (keys, trailing words) of some rows whose rule is not %ignore_case"""
    l, g = RB.split_level(level, inherited)
    out = type(tree)()
    for row, ch in tree.items():
        s = RB.select(row, l, g)
        new_row = row
        if s is not None and "%ignore_case" not in s[0].extra and not s[0].rewrite and rng.random() < 0.5:
            lits = {t[1] for t in __import__("vf.ref.rulelang", fromlist=["x"]).tokenize(s[0].pat)[0] if t[0] == "lit"}
            new_row = " ".join(w if w in lits else w.upper() for w in row.split())
        sub = _upper_some(rng, ch, s[2], s[3]) if (s is not None and ch) else ch
        if new_row not in out:
            out[new_row] = sub
    return out


def _cap_ic(rng, tree, level, inherited=(), n=None):
    """the rows governed by an %ignore_case rule as a device or a generator may spell them: first word capitalised or upper-cased (the diff reports
    such rows in lower case, whatever their spelling)"""
    l, g = RB.split_level(level, inherited)
    out = type(tree)()
    for row, ch in tree.items():
        s = RB.select(row, l, g)
        new_row = row
        if s is not None and "%ignore_case" in s[0].extra and rng.random() < 0.6:
            ws = row.split()
            ws[0] = ws[0].capitalize() if rng.random() < 0.5 else ws[0].upper()
            new_row = " ".join(ws)
            if n is not None:
                n[0] += 1
        sub = _cap_ic(rng, ch, s[2], s[3], n) if (s is not None and ch) else ch
        if new_row not in out:
            out[new_row] = sub
    return out


def make_case(seed, icase=False, gnest=False, overlap=False):
    rng = random.Random(seed)
    vname = VENDORS[rng.randrange(len(VENDORS))]
    v, prefix, exitw, hw, fmt = c01.vendor_env(vname)
    rules = G.gen_rulebook(rng, depth=3, prefix=prefix, allow=("global", "ordered", "rewrite", "catchall") + (("overlap",) if overlap else ()))
    ov_specific = []
    if overlap:
        # a more specific block rule in front of a generic one (`interface */Vlanif.+/` before `interface *`): the rows it matches take their
        # children rules from both; the specific rule brings a %global rule of its own (`gz ~ %global`), in force at every depth below ITS rows only
        for r_ in rules:
            if "*/k[12]/" in r_.pat and r_.children is not None:
                r_.children.append(RB.Rule("gz ~", glob=True))
                ov_specific.append(r_)
    if rng.random() < 0.3:
        # an ignore rule: rows it matches are unknown to the rulebook
        tgt = rng.choice(rules)
        if tgt.children:
            tgt.children.append(RB.Rule("i9 *", ignore=True))
        else:
            rules.insert(0, RB.Rule("i9 *", ignore=True))
    gn_host = None
    if gnest:
        # %global rules on two nesting levels: an outer `gd ~ %global` at the top and, inside a block rule, an inner `gs * %global` of its own;
        # rows of the outer family live inside such blocks (and below): the inner definition does not end the outer one
        grng = random.Random(seed ^ 0x6E57)
        hosts = [r for r in rules if r.children and not r.glob and not r.ignore and not r.ordered and not r.rewrite and not any(c.rewrite for c in r.children)]
        if hosts:
            gn_host = grng.choice(hosts)
            rules.append(RB.Rule("gd ~", glob=True))
            gn_host.children.append(RB.Rule("gs *", glob=True))
    old = G.gen_tree(rng, rules, foreign=0.2)
    if rng.random() < 0.3:
        _sprinkle(rng, old)
    x = rng.random()
    if x < 0.65:
        new = G.mutate_tree(rng, old, rules, rate=0.4)
    elif x < 0.9:
        new = G.gen_tree(rng, rules, foreign=0.2)
    else:
        new = old
    if ov_specific:
        from vf.ref import rulelang as R2_
        from collections import OrderedDict as od2_

        def sow2(tree, srng, depth=0, inside=False):
            out = od2_()
            for row, ch in tree.items():
                here = inside or (depth == 0 and any(R2_.match(r_.pat, row) is not None for r_ in ov_specific))
                ch = sow2(ch, srng, depth + 1, here) if ch else od2_()
                if here and depth >= 1 and ch and srng.random() < 0.8:
                    ch = od2_(ch)
                    ch["gz k%d x%d" % (srng.randint(1, 3), srng.randint(1, 2))] = od2_()
                out[row] = ch
            return out
        same = new is old
        old = sow2(old, random.Random(seed ^ 0x0E1))
        new = old if same else sow2(new, random.Random(seed ^ 0x0E2))
    if gn_host is not None:
        from vf.ref import rulelang as R_
        from collections import OrderedDict as odict_

        def sow(tree, srng, top=True):
            out = odict_()
            for row, ch in tree.items():
                ch = sow(ch, srng, False) if ch else odict_()
                if (not top or R_.match(gn_host.pat, row) is not None) and not row.startswith(("gd ", "gs ")) and (ch or top) and srng.random() < 0.7:
                    ch = odict_(ch)
                    ch["gd k%d x%d" % (srng.randint(1, 3), srng.randint(1, 2))] = odict_()
                out[row] = ch
            return out
        same = new is old
        old = sow(old, random.Random(seed ^ 0x50E))
        new = old if same else sow(new, random.Random(seed ^ 0x50F))
    if icase:
        # one %ignore_case leaf rule per level it lands on (its own rows stay lower-case: lower-casing them is the identity);
        # sibling rows carry upper-case words, which the diff must leave alone
        marked = 0
        for lvl_rules in [rules] + [r.children for r in rules if r.children]:
            cands = [r for r in lvl_rules if not r.children and not r.ordered and not r.rewrite and not r.glob and r.pat != "~"]
            if cands and rng.random() < 0.8:
                rng.choice(cands).extra = "%ignore_case"
                marked += 1
        same = new is old
        old = _upper_some(rng, old, rules)
        new = old if same else _upper_some(rng, new, rules)
    return vname, rules, old, new


def _sprinkle(rng, tree):
    for row in list(tree):
        if rng.random() < 0.2:
            tree["i9 " + rng.choice(G.KEYS)] = type(tree)()
        if tree[row]:
            _sprinkle(rng, tree[row])


def _all_rows(t):
    for r, c in t:
        yield r
        yield from _all_rows(c)


def check_case(seed, acc, icase=False, gnest=False, overlap=False):
    from annet.annlib.patching import make_diff, strip_unchanged, make_pre
    from annet.annlib.diff import gen_pre_as_diff
    vname, rules, old, new = make_case(seed, icase, gnest, overlap)
    if overlap and any(r.pat == "gz ~" for r0 in rules for r in (r0.children or [])):
        acc.count("rulebooks_with_a_specific_rule_bringing_its_own_global_rule")
        acc.count("rows_of_the_specific_rules_global_family", sum(1 for t_ in (plain(old), plain(new)) for p_ in _all_rows(t_) if p_.startswith("gz ")))
    if gnest and any(r.pat == "gd ~" for r in rules):
        acc.count("rulebooks_with_global_rules_on_two_levels")
    if icase and G.has_feature(rules, lambda r: "%ignore_case" in r.extra):
        acc.count("ignore_case_rulebooks")
    v, prefix, exitw, hw, fmt = c01.vendor_env(vname)
    text = RB.render(rules)
    po, pn = plain(old), plain(new)
    w = {"seed": seed, "icase": icase, "gnest": gnest, "overlap": overlap, "vendor": vname, "rulebook": text, "old": po, "new": pn}
    if icase:
        # what annet is given: the rows of %ignore_case rules in another letter case (each side on its own)
        n_ = [0]
        crng = random.Random(seed ^ 0xCA9)
        old_in = _cap_ic(crng, old, rules, (), n_)
        new_in = old_in if new is old else _cap_ic(crng, new, rules, (), n_)
        acc.count("rows_of_ignore_case_rules_spelled_in_another_case", n_[0])
        w["old_as_given"], w["new_as_given"] = plain(old_in), plain(new_in)
    else:
        old_in, new_in = old, new
    pio, pin = plain(old_in), plain(new_in)
    try:
        rb = c01.compile_rb(text, vname)
        d = make_diff(old_in, new_in, rb, [])
        ds = strip_unchanged(d)
    except Exception as e:
        acc.violation("C03/exception/%s" % type(e).__name__, "make_diff raised on an in-domain input", dict(w, error=repr(e)[:300]))
        return None
    if plain(old_in) != pio or plain(new_in) != pin:
        acc.violation("C03/inputs-modified", "make_diff modified its arguments", w)
    full = norm(d)
    stripped = norm(ds)
    w["diff"] = RD.canon(stripped)
    n, depths = depth_stats(stripped)
    acc.case([vname, text, po, pn], nontrivial=(n >= 2 and len(depths) >= 2))
    acc.count("diffs_compared")
    acc.count("moved_entries", sum(1 for e in RD._walk(stripped) if e[0] == "MOVED"))
    l, g = RB.split_level(rules)
    probs = []
    check_projection(full, po, pn, l, g, "old", probs)
    check_projection(full, po, pn, l, g, "new", probs)
    check_ops(full, po, pn, probs)
    if probs:
        acc.violation("C03/%s" % probs[0][0], "the diff does not allow reconstructing both inputs / reports a wrong operation",
                      dict(w, problems=probs[:4]))
        return w
    # strip_unchanged removes exactly the UNCHANGED entries, at every depth
    if stripped != RD.strip(full):
        acc.violation("C03/strip_unchanged-not-exact", "strip_unchanged drops or keeps something other than the unchanged entries",
                      dict(w, full=RD.canon(full), stripped=RD.canon(stripped)))
        return w
    # L3
    if po == pn:
        acc.count("self_diffs")
        if stripped:
            acc.violation("C03/self-diff-not-empty", "comparing a configuration with itself reports changes", w)
    else:
        try:
            sd = norm(strip_unchanged(make_diff(new, new, rb, [])))
            acc.count("self_diffs")
            if sd:
                acc.violation("C03/self-diff-not-empty", "comparing a configuration with itself reports changes", dict(w, old=pn, diff=RD.canon(sd)))
        except Exception as e:
            acc.violation("C03/exception/%s" % type(e).__name__, "make_diff(x,x) raised", dict(w, error=repr(e)[:300]))
    # L4
    ref = RD.mark_unchanged(RD.diff(po, pn, l, g))
    if any(e[0] != "AFFECTED" and True for e in []):
        pass
    if RD.canon(ref) != RD.canon(full):
        acc.violation("C03/differs-from-reference-diff", "operations/nesting of the diff differ from the reference (MOVED iff preceding sequence differs; rewrite units; UNCHANGED marking)",
                      dict(w, expected=RD.canon(RD.strip(ref)), got=RD.canon(stripped)))
        return w
    acc.count("rewrite_units_changed", 1 if any(e[0] == "MOVED" for e in RD._walk(stripped)) and G.has_feature(rules, lambda r: r.rewrite) else 0)
    # L5 text views
    try:
        lines = fmt.diff(ds)
        back = read_formatter_diff(lines, fmt._indent, vname in BRACE)
        if back != stripped:
            acc.violation("C03/formatter-diff-text", "the deploy confirmation text read back does not give the diff entries (signs/nesting)",
                          dict(w, text=lines[:40], read_back=RD.canon(back)))
        pre_text = "".join(gen_pre_as_diff(make_pre(ds), False, "  ", True))
        back2 = read_pre_diff(pre_text, "  ")
        if RD.canon(back2) != RD.canon(stripped):
            acc.violation("C03/pre-diff-text", "the `annet diff` text read back does not give the diff entries (per level, as a multiset)",
                          dict(w, text=pre_text.split("\n")[:40], read_back=RD.canon(back2)))
        acc.count("text_views_checked")
        # devices are shown together (`= sw1, sw2`) only when their diffs are the same: same entries at the same depth
        blk = next((i for i, e in enumerate(ds) if e[2]), None)
        if blk is not None:
            from annet.diff import collapse_diffs
            from vf import harness_gen as H
            e = ds[blk]
            flatter = list(ds[:blk]) + [(e[0], e[1], [], e[3])] + list(e[2]) + list(ds[blk + 1:])  # the same signed lines in the same order, one block opened up
            d1, d2, d3 = H.FakeDevice(hw), H.FakeDevice(hw), H.FakeDevice(hw)
            d1.hostname, d2.hostname, d3.hostname = "sw1", "sw2", "sw3"
            d1.fqdn, d2.fqdn, d3.fqdn = "sw1.x", "sw2.x", "sw3.x"
            groups = collapse_diffs({d1: ds, d2: flatter, d3: ds})
            acc.count("collapsed_device_groups_checked")
            by = {tuple(sorted(x.hostname for x in k)) for k in groups}
            if by != {("sw1", "sw3"), ("sw2",)}:
                acc.violation("C03/devices-with-different-diffs-shown-together", "devices are grouped under one diff although their diffs differ in nesting (or equal diffs are not grouped)",
                              dict(w, groups=sorted(map(list, by))))
            else:
                # what `annet diff` prints for the run: the items are collected first and written out afterwards, each under its own devices
                import types as _t
                from annet.diff import gen_sort_diff
                items = list(gen_sort_diff({d1: ds, d2: flatter, d3: ds}, _t.SimpleNamespace(no_collapse=False, show_rules=False, indent="  ", no_color=True)))
                texts = {name: (t_ if isinstance(t_, str) else "".join(t_)) for name, t_, _ in items}
                acc.count("diff_texts_of_several_devices_checked", len(texts))
                want = {name: RD.canon(norm(df_)) for name, df_ in ((next(n_ for n_ in texts if "sw2" in n_), flatter), (next(n_ for n_ in texts if "sw1" in n_), ds))} if len(texts) == 2 else {}
                for name, cn in want.items():
                    if RD.canon(read_pre_diff(texts[name], "  ")) != cn:
                        acc.violation("C03/diff-text-of-another-device", "in a run over several devices the text printed under a device is not that device's diff",
                                      dict(w, label=name, text=texts[name].split("\n")[:30], expected=cn))
                        break
                if not want:
                    acc.violation("C03/diff-text-of-another-device", "a run over three devices with two different diffs does not print two texts", dict(w, labels=sorted(texts)))
    except Exception as e:
        acc.violation("C03/text-exception/%s" % type(e).__name__, "rendering the diff raised", dict(w, error=repr(e)[:300]))
    return w


def check_acl_case(seed, acc):
    """make_diff with an ACL that covers everything: the diff is the ACL-less diff, except that a REMOVED row whose governing
    ACL rule is not deletable is shown as kept (AFFECTED) with its removed children; ADDED / MOVED rows keep their operation"""
    from annet.annlib.patching import make_diff, strip_unchanged
    from annet.annlib.rbparser.acl import compile_acl_text
    from vf.ref import acl as A
    vname, rules, old, new = make_case(seed)
    v, prefix, exitw, hw, fmt = c01.vendor_env(vname)
    rng = random.Random(seed ^ 0xAC1)
    level = []
    for r in rules:
        if r.pat == "~" or r.ignore or r.pat.startswith(prefix + " "):
            continue
        x = rng.random()
        pat = r.pat
        level.append(A.AclRule(pat, cant_delete=([True] if x < 0.4 else [False] if x < 0.6 else None)))
    level.append(A.AclRule("~", glob=True))
    text = RB.render(rules)
    atext = A.render(level)
    po, pn = plain(old), plain(new)
    w = {"seed": seed, "acl_case": True, "vendor": vname, "rulebook": text, "acl": atext, "old": po, "new": pn}
    try:
        rb = c01.compile_rb(text, vname)
        d = make_diff(old, new, rb, [compile_acl_text(atext, vname)])
    except Exception as e:
        acc.violation("C03/exception/%s" % type(e).__name__, "make_diff with an ACL raised", dict(w, error=repr(e)[:300]))
        return
    acc.count("acl_diffs_compared")
    l, g = RB.split_level(rules)
    al, ag = A.compile_level(level, ideal=False)

    def acl_pass(entries, locals_, globals_):
        out = []
        for op, row, ch in entries:
            ms = A.ranked(row, locals_, globals_, prefix)
            if not ms:
                continue
            rule = ms[0][0]
            if op == "REMOVED" and rule.cant_delete and all(rule.cant_delete):
                op = "AFFECTED"
                acc.count("removals_of_not_deletable_rows")
            cl, cg = A.children_rules(ms, globals_, "winner")
            out.append((op, row, acl_pass(ch, cl, cg)))
        return out
    exp = RD.mark_unchanged(acl_pass(RD.diff(po, pn, l, g), al, ag))
    got = norm(d)
    n, depths = depth_stats(norm(strip_unchanged(d)))
    acc.case(["acl", vname, text, atext, po, pn], nontrivial=(n >= 2))
    if RD.canon(exp) != RD.canon(got):
        acc.violation("C03/acl-diff-differs-from-reference", "with an all-covering ACL the diff is not the plain diff with removals of not-deletable rows shown as kept",
                      dict(w, expected=RD.canon(RD.strip(exp)), got=RD.canon(RD.strip(got))))


def check_worker_case(seed, acc):
    """the production `annet diff` worker (old_new front end, order_config on the generated side, make_diff, strip_unchanged) on a generated
    rulebook: its diff is make_diff(old, new) with the new side in generated order (negated rows first, as order_config puts them)"""
    import annet.rulebook as ARB
    from annet.annlib.patching import make_diff, strip_unchanged
    from vf import harness_gen as H
    from collections import OrderedDict as odict
    vname, rules, old, new = make_case(seed)
    v, prefix, exitw, hw, fmt = c01.vendor_env(vname)
    text = RB.render(rules)
    po, pn = plain(old), plain(new)
    w = {"seed": seed, "worker": True, "vendor": vname, "rulebook": text, "old": po, "new": pn}

    def negfirst(tree):
        items = [(r, negfirst(c)) for r, c in tree.items()]
        return odict([x for x in items if x[0].startswith(prefix + " ")] + [x for x in items if not x[0].startswith(prefix + " ")])
    orig = ARB.get_rulebook
    try:
        rb = c01.compile_rb(text, vname)
        ARB.get_rulebook = lambda hw_: rb
        dev = H.FakeDevice(hw)
        gens = [H.make_partial("GenAll", vname, "~ %global", H.tree_runner(pn))]
        got = H.run_diff_worker(dev, gens, fmt.join(old), no_acl_exclusive=True)
        exp = strip_unchanged(make_diff(old, negfirst(new), rb, []))
        # `annet file-diff` on the two configurations saved to files: its text holds exactly the entries of the diff, one line each
        import os, tempfile, types, shutil
        from annet import api
        from vf.props import c16
        td = tempfile.mkdtemp(prefix="vf_c03_")
        try:
            op_, np_ = os.path.join(td, "old.cfg"), os.path.join(td, "new.cfg")
            open(op_, "w").write(fmt.join(old))
            open(np_, "w").write(fmt.join(new))
            fargs = types.SimpleNamespace(hw=hw, add_comments=False, indent="  ", show_rules=False, no_color=True, old=op_, new=np_)
            fd = list(api.file_diff_worker((op_, np_), fargs))
        finally:
            shutil.rmtree(td, ignore_errors=True)
        ftext = fd[0][1] if fd else ""
        fown = c16.own_diff_lines(strip_unchanged(make_diff(old, new, rb, [])))
    except Exception as e:
        acc.violation("C03/worker-exception/%s" % type(e).__name__, "the diff worker raised on an in-domain input", dict(w, error=repr(e)[:300]))
        return
    finally:
        ARB.get_rulebook = orig
    acc.count("diff_worker_runs")
    g_, e_ = norm(got or []), norm(exp)
    if any(e[0] == "MOVED" for e in RD._walk(e_)):
        acc.count("diff_worker_runs_with_moved_rows")
    acc.case(["worker", vname, text, po, pn], nontrivial=bool(e_))
    def fam(entries):
        # entries of different rules may come in either order (the diff is built per diff logic, and which logic goes first depends on the rows both
        # sides hold, e.g. completed defaults); the entries of one command family keep their order
        out = {}
        for op, row, ch in entries:
            out.setdefault(row.split()[1] if row.startswith(prefix + " ") and len(row.split()) > 1 else row.split()[0], []).append((op, row, fam(ch)))
        return out
    acc.count("file_diff_texts_checked")
    if sorted(x.rstrip() for x in ftext.split("\n") if x.strip()) != sorted(fown):
        acc.violation("C03/file-diff-text-lacks-entries", "the text `annet file-diff` prints does not hold exactly the entries (added, removed, affected, moved rows) of the diff of the two files",
                      dict(w, printed=ftext.split("\n")[:40], entries=fown[:40]))
        return
    if fam(g_) != fam(e_):
        acc.violation("C03/diff-worker-differs-from-make_diff", "the `annet diff` worker reports other entries than make_diff gives for the device's and the generated configuration",
                      dict(w, worker=RD.canon(g_), expected=RD.canon(e_)))


def check_big_block(seed, acc):
    """one block holding hundreds of rows (long ACLs, prefix lists, explicit paths): the laws do not depend on the size"""
    from annet.annlib.patching import make_diff, strip_unchanged
    from collections import OrderedDict as odict
    rng = random.Random(seed)
    vname = rng.choice(["huawei", "cisco", "arista"])
    ordered = rng.random() < 0.7
    rules = [RB.Rule("acl *", children=[RB.Rule("rule ~", ordered=ordered)]), RB.Rule("x *")]
    text = RB.render(rules)
    n = rng.choice([40, 200, 258, 300, 600])
    rows = ["rule %d permit ip source 10.%d.%d.0" % (i, i // 250, i % 250) for i in range(n)]
    old = odict([("acl k1", odict((r, odict()) for r in rows)), ("x k1", odict())])
    kind = rng.choice(["same", "append", "insert", "drop", "swap"])
    nr = list(rows)
    pos = rng.randrange(n)
    if kind == "append":
        nr.append("rule 9999 deny ip")
    elif kind == "insert":
        nr.insert(pos, "rule 9999 deny ip")
    elif kind == "drop":
        del nr[pos]
    elif kind == "swap" and n > 1:
        q = (pos + 1) % n
        nr[pos], nr[q] = nr[q], nr[pos]
    new = odict([("acl k1", odict((r, odict()) for r in nr)), ("x k1", odict())])
    po, pn = plain(old), plain(new)
    w = {"seed": seed, "big": True, "vendor": vname, "rulebook": text, "rows": n, "ordered": ordered, "edit": kind, "position": pos}
    try:
        rb = c01.compile_rb(text, vname)
        d = make_diff(old, new, rb, [])
    except Exception as e:
        acc.violation("C03/exception/%s" % type(e).__name__, "make_diff raised on a large block", dict(w, error=repr(e)[:300]))
        return
    acc.count("big_blocks_compared")
    acc.case(["big", vname, n, ordered, kind, pos], nontrivial=(kind != "same"))
    l, g = RB.split_level(rules)
    ref = RD.mark_unchanged(RD.diff(po, pn, l, g))
    got = norm(d)
    if RD.canon(ref) != RD.canon(got):
        gs, rs = RD.canon(RD.strip(got)), RD.canon(RD.strip(ref))
        acc.violation("C03/differs-from-reference-diff", "operations/nesting of the diff differ from the reference (MOVED iff preceding sequence differs; rewrite units; UNCHANGED marking)",
                      dict(w, expected_entries=sum(1 for _ in RD._walk(rs)), got_entries=sum(1 for _ in RD._walk(gs)), expected_head=rs[:2], got_head=[[e[0], e[1], e[2][:3]] for e in gs[:2]]))


def check_deploy_confirmation(seed, acc):
    """the text the operator confirms before a deploy (Deployer.diff_lines) holds, under each group of devices, the lines formatter.diff gives for
    their diff - also for lines that the grouping step masks for its own comparison (the cipher of an `snmp-agent ... cipher X ...` line)"""
    import types as _t
    from annet import api
    from annet.annlib.patching import make_diff, strip_unchanged
    from annet.annlib.netdev.views.hardware import HardwareView
    from annet.vendors import registry_connector
    from annet import rulebook
    from vf import harness_gen as H
    rng = random.Random(seed)
    hw = HardwareView("Huawei CE6870", "")
    fmt = registry_connector.get().match(hw).make_formatter()
    rb = rulebook.get_rulebook(hw)
    devs, diffs = [], {}
    for i in range(rng.randint(1, 3)):
        c_old, c_new = rng.choice(["AAA", "BBB"]), rng.choice(["CCC", "DDD", "AAA"])
        old = unplain([["snmp-agent community read cipher %s acl 2000" % c_old, []], ["sysname a%d" % rng.randint(1, 2), []], ["ntp-service unicast-server 1.1.1.1", []]])
        new = unplain([["snmp-agent community read cipher %s acl 2000" % c_new, []], ["sysname b", []], ["ntp-service unicast-server 1.1.1.1", []]])
        d_ = H.FakeDevice(hw)
        d_.hostname, d_.fqdn = "sw%d" % i, "sw%d.x" % i
        devs.append(d_)
        diffs[d_] = strip_unchanged(make_diff(old, new, rb, []))
    dep = api.Deployer(_t.SimpleNamespace(no_ask_deploy=False))
    dep._collapseable_diffs = dict(diffs)
    try:
        lines = dep.diff_lines()
    except Exception as e:
        acc.violation("C03/text-exception/%s" % type(e).__name__, "rendering the deploy confirmation raised", {"deploy_confirmation": True, "seed": seed, "error": repr(e)[:300]})
        return
    acc.count("deploy_confirmations_checked")
    acc.case(["confirmation", [RD.canon(norm(x)) for x in diffs.values()]], nontrivial=True)
    # split into groups: a `= host, host` line, an empty line, the diff lines, an empty line
    groups, cur = [], None
    for ln in lines:
        if ln.startswith("= "):
            cur = {"hosts": sorted(h.strip() for h in ln[2:].split(",")), "lines": []}
            groups.append(cur)
        elif cur is not None and ln != "":
            cur["lines"].append(ln)
    # (devices whose diffs differ in a masked cipher only are shown together, under the text of one of them)
    by_host = {d_.hostname: list(fmt.diff(df)) for d_, df in diffs.items()}
    for d_ in diffs:
        if sum(1 for g in groups if d_.hostname in g["hosts"]) != 1:
            acc.violation("C03/confirmation-text-differs-from-the-diff", "a device is not shown under exactly one group of the confirmation text",
                          {"deploy_confirmation": True, "seed": seed, "device": d_.hostname, "groups": [g["hosts"] for g in groups]})
            return
    for g in groups:
        if not any(g["lines"] == by_host.get(h) for h in g["hosts"]):
            acc.violation("C03/confirmation-text-differs-from-the-diff", "the text shown for confirmation under a group of devices is not the rendering of the diff of any of them",
                          {"deploy_confirmation": True, "seed": seed, "devices": g["hosts"], "shown": g["lines"], "diff_lines": {h: by_host.get(h) for h in g["hosts"]}})
            return


def run_shard(spec, acc):
    if spec["mode"] == "replay" and spec["witness"].get("deploy_confirmation"):
        return check_deploy_confirmation(spec["witness"]["seed"], acc)
    if spec["mode"] == "replay" and spec["witness"].get("big"):
        return check_big_block(spec["witness"]["seed"], acc)
    if spec["mode"] == "replay":
        if spec["witness"].get("worker"):
            return check_worker_case(spec["witness"]["seed"], acc)
        if spec["witness"].get("acl_case"):
            check_acl_case(spec["witness"]["seed"], acc)
            return
        check_case(spec["witness"]["seed"], acc, icase=bool(spec["witness"].get("icase")), gnest=bool(spec["witness"].get("gnest")), overlap=bool(spec["witness"].get("overlap")))
        return
    tier, k, n = spec["tier"], spec["shard"], spec["nshards"]
    total = 8000 if tier == "quick" else 160000
    rng = random.Random("C03/%s/%s" % (spec["seed"], k))
    orng = random.Random("C03/overlap/%s/%s" % (spec["seed"], k))
    for j in range(total // n):
        w = check_case(rng.randrange(1 << 48), acc)
        if j < 2 and w:
            acc.sample({k2: w[k2] for k2 in ("vendor", "rulebook", "old", "new", "diff")})
        if j % 5 == 4:
            check_case(rng.randrange(1 << 48), acc, icase=True)
        if j % 5 == 3:
            check_case(rng.randrange(1 << 48), acc, gnest=True)
        if j % 10 == 7:
            check_deploy_confirmation(orng.randrange(1 << 48), acc)
        if j % 5 in (0, 2):
            check_case(orng.randrange(1 << 48), acc, overlap=True)
        if j % 5 == 2:
            check_acl_case(rng.randrange(1 << 48), acc)
        if j % 25 == 3:
            check_big_block(rng.randrange(1 << 48), acc)
        if j % 5 == 1:
            check_worker_case(rng.randrange(1 << 48), acc)
