"""C05 - offside rule. Oracle: vf.ref.offside (R5) vs annet parse_to_tree on the same text."""
import itertools
import random

from vf.ref import offside
from vf.util import plain

LEVEL = "exploration"
RULE = ("exhaustive over indentation vectors (columns 0..6) of <=6 lines (quick) / <=7 lines (thorough) x word "
        "assignments (all distinct / colliding / three-word cycle), plus for every vector of <=4 (quick) / <=5 (thorough) "
        "lines every single insertion of a blank, '!'-comment, indented '#'-comment, column-0 '#' section break, "
        "a common leading offset and a tab variant, plus seeded random texts of <=40 lines produced by a stack walk with "
        "10% illegal dedents; each under comment sets ('!','#'), ('#',), ('!',), (). Non-trivial: the text uses >=2 "
        "distinct indentation columns. Distinct: hash of (text, comment set).")
ASSUMPTIONS = [
    "reference model R5 (vf/ref/offside.py) is the meaning of the offside rule; a tab counts one column",
    "errors are compared by type (ParserError vs reference error), never by message",
    "lines are separated by \\n; no \\r",
]
EXHAUSTIVE = {"quick": True, "thorough": True}
FLOORS = {"quick": {"errors_agreed": 1000, "trees_agreed": 1000, "section_breaks": 100},
          "thorough": {"errors_agreed": 1000, "trees_agreed": 1000, "section_breaks": 100}}
COMMENT_SETS = [("!", "#"), ("#",), ("!",), ()]
NSHARD = {"quick": 8, "thorough": 16}


def plan(tier, seed):
    n = NSHARD[tier]
    return [{"mode": "main", "tier": tier, "seed": seed, "shard": k, "nshards": n} for k in range(n)]


def check_case(text, comments, acc):
    from annet.annlib.tabparser import parse_to_tree, CommonFormatter, ParserError
    comments = tuple(comments)
    try:
        ref = plain(offside.parse(text, comments))
        ref_err = False
    except offside.RefParseError:
        ref, ref_err = None, True
    try:
        got = plain(parse_to_tree(text, CommonFormatter().split, comments))
        got_err = False
    except ParserError:
        got, got_err = None, True
    except Exception as e:  # any other exception type is not the documented refusal
        acc.violation("C05/other-exception/%s" % type(e).__name__, "parse_to_tree raised %s instead of a tree/ParserError" % type(e).__name__,
                      {"text": text, "comments": list(comments)})
        return
    cols = {offside.indent_of(l) for l in text.split("\n") if l.strip()}
    acc.case(nontrivial=len(cols) >= 2, hashed=None, case=[text, list(comments)])
    if ref_err and got_err:
        acc.count("errors_agreed")
    elif ref_err and not got_err:
        acc.violation("C05/bad-indentation-accepted", "text with an inconsistent dedent was parsed instead of refused",
                      {"text": text, "comments": list(comments), "got": got})
    elif got_err and not ref_err:
        acc.violation("C05/wellformed-text-refused", "well-formed indentation raised ParserError",
                      {"text": text, "comments": list(comments), "expected": ref})
    elif ref != got:
        acc.violation("C05/wrong-tree", "line attached to the wrong parent / rows not merged as the offside rule says",
                      {"text": text, "comments": list(comments), "expected": ref, "got": got})
    else:
        acc.count("trees_agreed")


WORDSETS = [
    lambda i: "w%d" % i,             # all distinct
    lambda i: "ab"[i % 2],           # colliding -> merges
    lambda i: ("x y", "x", "z")[i % 3],
]


def texts_for_vector(vec, tier):
    nw = 2 if tier == "quick" else 3
    for ws in WORDSETS[:nw]:
        yield "\n".join(" " * c + ws(i) for i, c in enumerate(vec))


def variants(vec):
    base = [" " * c + "w%d" % (i % 3) for i, c in enumerate(vec)]
    ins = ["", "   ", "! note", "   ! note", "  # note", "#", "# sec", "!x", "#w0"]
    for pos in range(len(base) + 1):
        for x in ins:
            yield "\n".join(base[:pos] + [x] + base[pos:])
    yield "\n".join("   " + l for l in base)             # common offset
    yield "\n".join("\t" * c + "w%d" % i for i, c in enumerate(vec))  # tabs
    yield "\n".join(base) + "\n"
    yield "\n" + "\n".join(base)


def random_text(rng):
    n = rng.randint(5, 40)
    cols = [rng.choice([0, 0, 0, 1, 3])]
    lines = []
    words = ["a", "b", "c", "a b", "d"]
    for _ in range(n):
        r = rng.random()
        if r < 0.07:
            lines.append(rng.choice(["", "  ", "! c", "  ! c", "   # c"]))
            continue
        if r < 0.11:
            lines.append(rng.choice(["#", "# x"]))
            cols = None
            continue
        if cols is None:
            cols = [rng.choice([0, 0, 2])]
        else:
            r2 = rng.random()
            if r2 < 0.35:
                cols.append(cols[-1] + rng.randint(1, 4))
            elif r2 < 0.6:
                pass
            elif r2 < 0.9:
                k = rng.randrange(len(cols))
                cols = cols[:k + 1]
            else:
                c = rng.randint(0, cols[-1] + 1)  # possibly illegal
                if c in cols:
                    cols = cols[:cols.index(c) + 1]
                elif c > cols[-1]:
                    cols.append(c)
                else:
                    lines.append(" " * c + rng.choice(words))
                    break  # after an illegal dedent the parse stops anyway
        lines.append(" " * cols[-1] + rng.choice(words))
    return "\n".join(lines)


def run_shard(spec, acc):
    if spec["mode"] == "replay":
        w = spec["witness"]
        check_case(w["text"], w["comments"], acc)
        return
    tier, k, n = spec["tier"], spec["shard"], spec["nshards"]
    maxlen = 6 if tier == "quick" else 7
    varlen = 4 if tier == "quick" else 5
    i = 0
    for ln in range(1, maxlen + 1):
        for vec in itertools.product(range(7), repeat=ln):
            i += 1
            if i % n != k:
                continue
            for text in texts_for_vector(vec, tier):
                check_case(text, ("!", "#"), acc)
            acc.count("vectors")
            if ln <= varlen:
                for text in variants(vec):
                    for cs in COMMENT_SETS:
                        if "\n#" in "\n" + text and "#" in cs:
                            acc.count("section_breaks")
                        check_case(text, cs, acc)
    rng = random.Random("C05/%s/%d" % (spec["seed"], k))
    nrand = (5000 if tier == "quick" else 500000) // n
    for j in range(nrand):
        text = random_text(rng)
        cs = COMMENT_SETS[j % 4]
        check_case(text, cs, acc)
        if j < 3:
            acc.sample({"text": text, "comments": list(cs)})
    acc.count("random_texts", nrand)
