"""C14 - shipped routing-policy generators emit ACL-covered, self-consistent config.

Random RouteMap programs (documented R.* conditions and rule.* actions) over random, type-consistent entity sets are fed
to the shipped policy / community / prefix-list / as-path / rd generators for huawei and arista (through
_run_partial_generator with use_acl=True, as production does) and to the cumulus text generator. Monitors:
  (1) no generator output line is refused by the generator's own ACL;
  (2) the parsed output has the nesting the generator yielded (block path recorded at every yield);
  (3) refs(policy output) is a subset of defs(list generators' output), per namespace;
  (4) error-before-lines: the stream is segmented per condition / action at the input boundary (recording proxies on
      statement.match / statement.then); an error must not follow lines already emitted for the same construct.
"""
import random
import re

LEVEL = "exploration"
RULE = ("random RouteMaps: 1-3 policies x 1-4 numbered statements; conditions from community/large_community/extcommunity_rt/extcommunity_soo has/has_any over 1-3 lists, "
        "match_v4/match_v6 with and without or_longer, as_path_filter, as_path_length ==,>=,<=,between, rd, protocol, metric, interface, local_pref<, net_len; actions from "
        "community/large_community/extcommunity(+deprecated rt/soo) set/add/remove, as_path set/prepend/delete/expand/expand_last_as, next_hop self/peer/discard/ipv4/ipv6/mapped, "
        "metric set/add, local_pref, origin, tag, mpls_label, metric_type, rpki_valid_state, resolution; results allow/deny/next/next_policy; entity sets with types "
        "BASIC/RT/SOO/LARGE x AND/OR x regex flag (type-consistent use); vendors huawei, arista (PartialGenerators with ACL) and cumulus (text). "
        "Non-trivial: >=1 list reference or >=1 rejected construct. Distinct: hash of (vendor, program, entities).")
ASSUMPTIONS = [
    "lists are used with the condition/action family of their own type; a regex list has one member (other uses are outside the domain)",
    "reference readers of the three vendors' policy / list syntaxes are in this module (namespaces per list kind)",
]
FLOORS = {"quick": {"generator_runs": 2000, "policy_runs": 500, "refs_checked": 1000, "constructs_rejected": 100, "actions_segmented": 1000, "combined_operation_actions": 100, "wildcard_only_as_path_filter_refs": 50, "shared_policy_inputs_checked": 800, "reused_generator_objects": 1500, "reused_generator_objects_after_a_refused_run": 100, "annotated_runs": 1500, "cases_with_included_route_maps": 800, "prefix_matches_with_a_zero_bound": 150, "route_maps_applied_three_times": 2000, "programs_with_punctuated_policy_names": 500},
          "thorough": {"generator_runs": 100000, "policy_runs": 25000, "refs_checked": 50000, "constructs_rejected": 5000, "actions_segmented": 50000, "combined_operation_actions": 5000, "wildcard_only_as_path_filter_refs": 2500, "shared_policy_inputs_checked": 40000}}
VENDORS = ["huawei", "arista", "cumulus"]
MODELS = {"huawei": ("Huawei CE6870-48S6CQ-EI", "VRP V200R001C00SPC700"), "arista": ("Arista DCS-7368", "EOS 4.29.9.1M"),
          "cumulus": ("Mellanox SN3700-VS2RO", "Cumulus Linux 5.4.0")}


def plan(tier, seed):
    n = 8 if tier == "quick" else 16
    return [{"mode": "random", "tier": tier, "seed": seed, "shard": k, "nshards": n} for k in range(n)]


# ---- programs as data -------------------------------------------------------------------------------
def gen_entities(rng):
    from annet.rpl_generators import CommunityList, CommunityType, CommunityLogic, AsPathFilter, RDFilter, ip_prefix_list
    comms = []
    for t, pfx in (("BASIC", "CB"), ("RT", "CR"), ("SOO", "CS"), ("LARGE", "CL")):
        for i in range(3):
            rx = rng.random() < 0.2
            members = ["6500%d:%d" % (i, rng.randint(1, 99))] if rx else ["6500%d:%d" % (i, j) for j in range(rng.randint(1, 2))]
            if t == "LARGE":
                members = [m + ":1" for m in members]
            if rx:
                members = [members[0].replace(":", ":.") + ".*"][:1]
            comms.append(dict(name="%s%d" % (pfx, i), members=members, type=t, logic=rng.choice(["AND", "OR"]), use_regex=rx))
    pl4 = [dict(name="P4_%d" % i, members=["10.%d.0.0/16" % i, "192.168.%d.0/24" % i][: rng.randint(1, 2)]) for i in range(3)]
    pl6 = [dict(name="P6_%d" % i, members=["2001:db8:%d::/48" % i]) for i in range(2)]
    asp = [dict(name="ASP%d" % i, filters=[str(65000 + i), ".*"][: rng.randint(1, 2)]) for i in range(2)]
    rds = [dict(name="RD%d" % i, number=10 + i, members=["100:%d" % i]) for i in range(2)]
    return {"comms": comms, "pl4": pl4, "pl6": pl6, "asp": asp, "rds": rds}


def build_entities(e):
    from annet.rpl_generators import CommunityList, CommunityType, CommunityLogic, AsPathFilter, RDFilter, ip_prefix_list
    comms = [CommunityList(c["name"], c["members"], CommunityType[c["type"]], CommunityLogic[c["logic"]], c["use_regex"]) for c in e["comms"]]
    pls = [ip_prefix_list(p["name"], p["members"]) for p in e["pl4"] + e["pl6"]]
    asp = [AsPathFilter(a["name"], a["filters"]) for a in e["asp"]]
    rds = [RDFilter(r["name"], r["number"], r["members"]) for r in e["rds"]]
    return comms, pls, asp, rds


def gen_safe_program(rng, e, vendor):
    """programs from the subset every back-end expresses, so that most runs reach the reference/definition comparison"""
    def names(t, k):
        pool = [c for c in e["comms"] if c["type"] == t]
        first = rng.choice(pool)
        same = [c["name"] for c in pool if c["use_regex"] == first["use_regex"]]
        return rng.sample(same, min(k, len(same)))
    pols = []
    for pi in range(rng.randint(1, 3)):
        stmts = []
        for si in range(rng.randint(1, 4)):
            conds, acts, used = [], [], set()
            for _ in range(rng.randint(1, 3)):
                r = rng.random()
                if r < 0.45:
                    fam, t = rng.choice([("community", "BASIC"), ("large_community", "LARGE"), ("extcommunity_rt", "RT"), ("extcommunity_soo", "SOO")])
                    if fam in used:
                        continue
                    used.add(fam)
                    multi = vendor != "huawei" and rng.random() < 0.5
                    conds.append(["comm", fam, "has_any" if multi else rng.choice(["has", "has_any"]), names(t, rng.randint(2, 3) if multi else 1)])
                elif r < 0.75:
                    v6 = rng.random() < 0.4
                    if ("v6" if v6 else "v4") in used:
                        continue
                    used.add("v6" if v6 else "v4")
                    pool = [p["name"] for p in (e["pl6"] if v6 else e["pl4"])]
                    ol = rng.choice([None, None, (24, 32), (None, 32), (25, None)])
                    conds.append(["prefix", "v6" if v6 else "v4", rng.sample(pool, rng.randint(1, len(pool))), ol])
                elif r < 0.85 and "aspf" not in used:
                    used.add("aspf")
                    conds.append(["aspf", rng.choice(e["asp"])["name"]])
                elif r < 0.9 and vendor == "huawei" and "rd" not in used:
                    used.add("rd")
                    conds.append(["rd", [rng.choice(e["rds"])["name"]]])
                elif "simple" not in used:
                    used.add("simple")
                    conds.append(["simple", rng.choice(["protocol", "metric", "interface"]), rng.choice([1, 100, "bgp", "lo0"])])
            aused = set()
            for _ in range(rng.randint(0, 3)):
                r = rng.random()
                if r < 0.35 and "community" not in aused:
                    aused.add("community")
                    acts.append(["comm", "community", [[rng.choice(["add", "remove"]), names("BASIC", rng.randint(1, 2))]]])
                elif r < 0.45 and "large" not in aused:
                    aused.add("large")
                    acts.append(["comm", "large_community", [["add", names("LARGE", 1)]]])
                elif r < 0.55 and "aspath" not in aused:
                    aused.add("aspath")
                    acts.append(["aspath", [["prepend", [65001]]]])
                elif r < 0.7 and "nexthop" not in aused:
                    aused.add("nexthop")
                    acts.append(["nexthop", rng.choice(["self", "peer", "discard", "ipv4_addr", "ipv6_addr", "mapped_ipv4"])])
                else:
                    m = rng.choice(["set_metric", "set_local_pref", "set_origin", "set_tag"])
                    if m not in aused:
                        aused.add(m)
                        acts.append(["simple", m])
            stmts.append({"number": (si + 1) * 10, "name": "s%d" % si, "conds": conds, "acts": acts, "result": rng.choice(["allow", "deny", "next"])})
        pols.append({"name": "POL%d" % pi, "stmts": stmts})
    return pols


def gen_program(rng, e):
    def names(t, k):
        pool = [c["name"] for c in e["comms"] if c["type"] == t]
        return rng.sample(pool, min(k, len(pool)))
    pols = []
    for pi in range(rng.randint(1, 3)):
        stmts = []
        for si in range(rng.randint(1, 4)):
            conds, acts = [], []
            for _ in range(rng.randint(0, 3)):
                r = rng.random()
                if r < 0.35:
                    fam, t = rng.choice([("community", "BASIC"), ("large_community", "LARGE"), ("extcommunity_rt", "RT"), ("extcommunity_soo", "SOO")])
                    conds.append(["comm", fam, rng.choice(["has", "has_any"]), names(t, rng.randint(1, 3))])
                elif r < 0.55:
                    v6 = rng.random() < 0.4
                    pool = [p["name"] for p in (e["pl6"] if v6 else e["pl4"])]
                    ol = rng.choice([None, None, (rng.choice([24, None]), rng.choice([32, None]))])
                    conds.append(["prefix", "v6" if v6 else "v4", rng.sample(pool, rng.randint(1, len(pool))), ol])
                elif r < 0.63:
                    conds.append(["aspf", rng.choice(e["asp"])["name"]])
                elif r < 0.73:
                    conds.append(["aspl", rng.choice(["==", ">=", "<=", "between"]), rng.randint(1, 5)])
                elif r < 0.8:
                    conds.append(["rd", [r_["name"] for r_ in rng.sample(e["rds"], rng.randint(1, 2))]])
                else:
                    conds.append(["simple", rng.choice(["protocol", "metric", "interface", "local_pref", "net_len", "family"]), rng.choice([1, 100, "bgp", "lo0"])])
            for _ in range(rng.randint(0, 3)):
                r = rng.random()
                if r < 0.4:
                    fam, t = rng.choice([("community", ["BASIC"]), ("large_community", ["LARGE"]), ("extcommunity", ["RT", "SOO"]), ("extcommunity", ["RT"]),
                                         ("extcommunity_rt", ["RT"]), ("extcommunity_soo", ["SOO"])])
                    ops = []
                    for op in rng.sample(["set", "add", "remove"], rng.randint(1, 2)):
                        pool = [c["name"] for c in e["comms"] if c["type"] in t]
                        ops.append([op, rng.sample(pool, rng.randint(0 if op == "set" else 1, 2))])
                    acts.append(["comm", fam, ops])
                elif r < 0.6:
                    ops = []
                    for op in rng.sample(["set", "prepend", "delete", "expand", "expand_last_as"], rng.randint(1, 2)):
                        ops.append([op, [65001, 65002][: rng.randint(0 if op == "set" else 1, 2)]])
                    acts.append(["aspath", ops])
                elif r < 0.75:
                    acts.append(["nexthop", rng.choice(["self", "peer", "discard", "ipv4_addr", "ipv6_addr", "mapped_ipv4"])])
                else:
                    acts.append(["simple", rng.choice(["set_metric", "add_metric", "set_local_pref", "set_origin", "set_tag", "set_mpls_label", "set_metric_type",
                                                        "set_rpki_valid_state", "set_resolution"])])
            stmts.append({"number": (si + 1) * 10, "name": "s%d" % si, "conds": conds, "acts": acts,
                          "result": rng.choice(["allow", "allow", "deny", "next", "next", "next_policy"])})
        pols.append({"name": "POL%d" % pi, "stmts": stmts})
    return pols


def build_routemap(program, nested=False):
    """nested: the policies are spread over included sub-maps (RouteMap.include), two levels deep, as larger policy sets are written"""
    from annet.rpl import RouteMap, R
    rm = RouteMap()

    def make(pol):
        kept = {}      # conditions built once and reused by every run of the handler (the "reuse conditions" way of writing policies)

        def handler(device, route):
            for st in pol["stmts"]:
                conds = []
                for c in st["conds"]:
                    if c[0] == "comm":
                        conds.append(getattr(getattr(R, c[1]), c[2])(*c[3]))
                    elif c[0] == "prefix":
                        f = R.match_v6 if c[1] == "v6" else R.match_v4
                        conds.append(f(*c[2], or_longer=tuple(c[3])) if c[3] else f(*c[2]))
                    elif c[0] == "aspf":
                        conds.append(R.as_path_filter(c[1]))
                    elif c[0] == "aspl":
                        if c[1] == "between":
                            conds.append(R.as_path_length.between_included((c[2], c[2] + 2)))
                        else:
                            conds.append({"==": R.as_path_length.eq, ">=": R.as_path_length.ge, "<=": R.as_path_length.le}[c[1]](c[2]))
                    elif c[0] == "rd":
                        conds.append(R.rd.has(*c[1]))
                    elif c[0] == "simple":
                        fld = getattr(R, c[1])
                        conds.append(fld.lt(c[2]) if c[1] == "local_pref" else fld.eq(c[2]))
                if len(pol["stmts"]) % 2 == 0 and len(conds) >= 2:
                    # the first condition lives outside the handler as an and-condition of its own; the others are and-ed to it on every run
                    from annet.rpl.condition import AndCondition
                    first = kept.setdefault(st["number"], AndCondition(conds[0]))
                    combined = first
                    for c_ in conds[1:]:
                        combined = combined & c_
                    conds = [combined]
                with route(*conds, number=st["number"], name=st["name"]) as rule:
                    for a in st["acts"]:
                        if a[0] == "comm":
                            import warnings
                            with warnings.catch_warnings():
                                warnings.simplefilter("ignore")
                                b = getattr(rule, a[1])
                            for op, ns in a[2]:
                                getattr(b, op)(*ns)
                        elif a[0] == "aspath":
                            for op, vals in a[1]:
                                if op == "expand_last_as":
                                    rule.as_path.expand_last_as(vals[0])
                                else:
                                    getattr(rule.as_path, op)(*vals)
                        elif a[0] == "nexthop":
                            t = a[1]
                            if t in ("self", "peer", "discard"):
                                getattr(rule.next_hop, t)()
                            else:
                                getattr(rule.next_hop, t)("10.0.0.1" if "ipv4" in t or "mapped" in t else "2001:db8::1")
                        elif a[0] == "simple":
                            m = a[1]
                            if m == "set_mpls_label":
                                rule.set_mpls_label()
                            elif m in ("set_origin", "set_metric_type", "set_rpki_valid_state", "set_resolution"):
                                getattr(rule, m)({"set_origin": "igp", "set_metric_type": "type-1", "set_rpki_valid_state": "valid", "set_resolution": "x"}[m])
                            else:
                                getattr(rule, m)(100)
                    getattr(rule, st["result"])()
        handler.__name__ = pol["name"]
        return handler
    if not nested:
        for pol in program:
            rm(make(pol), name=pol["name"])
        return rm
    sub1, sub2 = RouteMap(), RouteMap()
    for i, pol in enumerate(program):
        (rm, sub1, sub2)[i % 3 if i else 1](make(pol), name=pol["name"])   # the first policy already sits in an included map
    sub1.include(sub2)
    rm.include(sub1)
    return rm


# ---- recording proxies ---------------------------------------------------------------------------------
class Recorder:
    def __init__(self):
        self.lines = 0
        self.marks = []  # (kind, label, lines_at_request)


def wrap_policies(policies, rec):
    from annet.rpl.action import Action
    from annet.rpl.condition import AndCondition

    class PAction(Action):
        def __iter__(self_):
            for a in self_.actions:
                rec.marks.append(("action", str(a.field), rec.lines))
                yield a
            rec.marks.append(("end", "", rec.lines))

    class PCond(AndCondition):
        def __iter__(self_):
            for c in self_.conditions:
                rec.marks.append(("condition", str(c.field), rec.lines))
                yield c
            rec.marks.append(("end", "", rec.lines))
    for p in policies:
        for st in p.statements:
            a = PAction()
            a.actions = list(st.then.actions)
            st.then = a
            c = PCond()
            c.conditions = list(st.match.conditions)
            st.match = c
    return policies


def policies_snapshot(policies):
    return [[p.name, [[getattr(st, "name", None), [repr(c) for c in st.match.conditions], [repr(a) for a in st.then.actions]] for st in p.statements]] for p in policies]


def make_generators(vendor, program, ents, nested=False):
    from annet import rpl_generators as RG
    from vf.harness_gen import FakeStorage
    comms, pls, asp, rds = build_entities(ents)
    rm = build_routemap(program, nested)
    shared = {}

    class Mixin:
        vf_shared = shared

        def get_policies(self, device):
            # the policies are built once per device and handed to every generator (what a provider that caches them does):
            # generators only read them
            if nested:
                return rm.apply(device)  # every generator asks the route map itself (what annet.rpl_generators.get_policies does): each time the same policies
            if "policies" not in shared:
                shared["policies"] = rm.apply(device)
                shared["snapshot"] = policies_snapshot(shared["policies"])
            return shared["policies"]

        def get_prefix_lists(self, device):
            return pls

        def get_community_lists(self, device):
            return comms

        def get_as_path_filters(self, device):
            return asp

        def get_rd_filters(self, device):
            return rds

    if vendor == "cumulus":
        class Cum(Mixin, RG.CumulusPolicyGenerator):
            pass
        return {"cumulus": Cum()}
    out = {}
    for nm, base in (("policy", RG.RoutingPolicyGenerator), ("community", RG.CommunityListGenerator), ("prefix", RG.PrefixListFilterGenerator),
                     ("aspath", RG.AsPathFilterGenerator), ("rd", RG.RDFilterFilterGenerator)):
        cls = type("Vf" + nm.capitalize(), (Mixin, base), {})
        out[nm] = cls(storage=FakeStorage())
    return out


# ---- readers of the vendors' syntaxes ---------------------------------------------------------------------
def refs_defs(vendor, policy_lines, list_lines):
    refs, defs = set(), set()
    if vendor == "huawei":
        for ln in policy_lines:
            w = ln.split()
            pats = [(r"^if-match community-filter (\S+)", "comm"), (r"^if-match large-community-filter (\S+)", "lcomm"), (r"^if-match extcommunity-filter (\S+)", "rt"),
                    (r"^if-match extcommunity-list soo (\S+)", "soo"), (r"^if-match rd-filter (\S+)", "rd"), (r"^if-match ip-prefix (\S+)", "pl4"),
                    (r"^if-match ipv6 address prefix-list (\S+)", "pl6"), (r"^if-match as-path-filter (\S+)", "asp"), (r"^apply comm-filter (\S+) delete", "comm"),
                    (r"^apply extcommunity-filter rt (\S+) delete", "rt")]
            for rx, ns in pats:
                m = re.match(rx, ln)
                if m:
                    refs.add((ns, m.group(1)))
        for ln in list_lines:
            for rx, ns in [(r"^ip community-filter (?:basic|advanced) (\S+)", "comm"), (r"^ip large-community-filter (?:basic|advanced) (\S+)", "lcomm"),
                           (r"^ip extcommunity-filter (?:basic|advanced) (\S+)", "rt"), (r"^ip extcommunity-list soo (?:basic|advanced) (\S+)", "soo"),
                           (r"^ip rd-filter (\S+)", "rd"), (r"^ip ip-prefix (\S+)", "pl4"), (r"^ip ipv6-prefix (\S+)", "pl6"), (r"^ip as-path-filter (\S+)", "asp")]:
                m = re.match(rx, ln)
                if m:
                    defs.add((ns, m.group(1)))
    elif vendor == "arista":
        for ln in policy_lines:
            m = re.match(r"^match (community|extcommunity|large-community) (.+)$", ln)
            if m:
                ns = {"community": "comm", "extcommunity": "ext", "large-community": "lcomm"}[m.group(1)]
                refs.update((ns, n) for n in m.group(2).split())
            for rx, ns in [(r"^match ip address prefix-list (\S+)", "pl4"), (r"^match ipv6 address prefix-list (\S+)", "pl6"), (r"^match as-path (?!length)(\S+)", "asp")]:
                m = re.match(rx, ln)
                if m:
                    refs.add((ns, m.group(1)))
            m = re.match(r"^set community community-list (.+?)( additive)?$", ln)
            if m:
                refs.update(("comm", n) for n in m.group(1).split())
            m = re.match(r"^set large-community large-community-list (.+?)( additive| delete)?$", ln)
            if m:
                refs.update(("lcomm", n) for n in m.group(1).split())
        for ln in list_lines:
            for rx, ns in [(r"^ip community-list (?:regexp )?(\S+)", "comm"), (r"^ip extcommunity-list (?:regexp )?(\S+)", "ext"), (r"^ip large-community-list (?:regexp )?(\S+)", "lcomm"),
                           (r"^ip prefix-list (\S+)", "pl4"), (r"^ipv6 prefix-list (\S+)", "pl6"), (r"^ip as-path access-list (\S+)", "asp")]:
                m = re.match(rx, ln)
                if m:
                    defs.add((ns, m.group(1)))
    else:  # cumulus: one text
        for ln in policy_lines:
            ln = ln.strip()
            for rx, ns in [(r"^match community (\S+)", "comm"), (r"^match large-community-list (\S+)", "lcomm"), (r"^match extcommunity (\S+)", "ext"),
                           (r"^match ip address prefix-list (\S+)", "pl4"), (r"^match ipv6 address prefix-list (\S+)", "pl6"), (r"^match as-path (\S+)", "asp"),
                           (r"^set comm-list (\S+) delete", "comm")]:
                m = re.match(rx, ln)
                if m:
                    refs.add((ns, m.group(1)))
            for rx, ns in [(r"^bgp community-list (?:standard|expanded) (\S+)", "comm"), (r"^bgp large-community-list (?:standard|expanded) (\S+)", "lcomm"),
                           (r"^bgp extcommunity (?:standard|expanded) (\S+)", "ext"), (r"^ip prefix-list (\S+)", "pl4"), (r"^ipv6 prefix-list (\S+)", "pl6"),
                           (r"^ip as-path access-list (\S+)", "asp")]:
                m = re.match(rx, ln)
                if m:
                    defs.add((ns, m.group(1)))
    return refs, defs


def stream(gen_iter, rec, track=None):
    """pull a generator stream to the end; returns (items, error). Items are (text, block_path)"""
    items = []
    try:
        for x in gen_iter:
            rec.lines += 1
            items.append((x, tuple(track()) if track else ()))
    except Exception as e:  # the stream ended with an error
        return items, e
    return items, None


def text_of(x):
    from annet.generators.base import _filter_str
    from annet.lib import flatten
    if isinstance(x, tuple):
        return " ".join(map(_filter_str, flatten(x)))
    return _filter_str(x)


def segment_verdict(rec, err):
    """lines emitted for the construct being processed when the error was raised"""
    if err is None or not rec.marks:
        return 0, None
    kind, label, at = rec.marks[-1]
    if kind == "end":
        return 0, None
    return rec.lines - at, (kind, label)


MECH = {
    ("huawei", "next_hop"): "C14/huawei/next_hop-falls-through-to-not-supported",
}


def check_reuse_and_annotate(seed, vendor, program, ents, dev, acc, w):
    """(5) one generator object serves several devices one after the other (also after a run that was refused): the result for a device is
    what a fresh object gives; (6) with annotate=True (`annet gen --annotate`) the configuration, annotations removed, is the same"""
    from annet.generators import _run_partial_generator
    from annet.types import GeneratorPartialRunArgs
    from annet.annlib.lib import strip_annotation
    from vf.util import plain
    rng2 = random.Random(seed ^ 0x600D)
    good = gen_safe_program(rng2, ents, vendor)

    def strip(tree):
        return [[strip_annotation(r), strip(c)] for r, c in tree]
    for name in ("policy", "prefix"):
        try:
            fresh = _run_partial_generator(make_generators(vendor, good, ents)[name], GeneratorPartialRunArgs(dev, use_acl=True))
        except Exception:
            return False  # the second program is not expressible either: nothing to compare
        if fresh is None:
            continue
        g = make_generators(vendor, program, ents)[name]
        first_failed = False
        try:
            _run_partial_generator(g, GeneratorPartialRunArgs(dev, use_acl=True))
        except Exception:
            first_failed = True
        donor = make_generators(vendor, good, ents)[name]
        g.get_policies = donor.get_policies  # the object now meets another device (other policies)
        try:
            again = _run_partial_generator(g, GeneratorPartialRunArgs(dev, use_acl=True))
        except Exception as e:
            acc.violation("C14/%s/%s/reused-generator-object-fails" % (vendor, name), "a generator object that served another device before fails where a fresh object succeeds",
                          dict(w, second_program=good, first_run_failed=first_failed, error=repr(e)[:200]))
            return True
        acc.count("reused_generator_objects")
        if first_failed:
            acc.count("reused_generator_objects_after_a_refused_run")
        if plain(again.config) != plain(fresh.config):
            acc.violation("C14/%s/%s/result-depends-on-earlier-run-of-the-object" % (vendor, name), "a generator object that served another device before gives other lines than a fresh object",
                          dict(w, second_program=good, first_run_failed=first_failed, reused=plain(again.config)[:12], fresh=plain(fresh.config)[:12]))
            return True
        try:
            ann = _run_partial_generator(make_generators(vendor, good, ents)[name], GeneratorPartialRunArgs(dev, use_acl=True, annotate=True))
        except Exception as e:
            acc.violation("C14/%s/%s/annotated-run-fails" % (vendor, name), "the run that succeeds plainly fails with annotate=True", dict(w, second_program=good, error=repr(e)[:200]))
            return True
        acc.count("annotated_runs")
        if strip(plain(ann.config)) != plain(fresh.config):
            acc.violation("C14/%s/%s/annotated-run-differs" % (vendor, name), "with annotate=True the generated configuration (annotations removed) is not the one generated without",
                          dict(w, second_program=good, annotated=plain(ann.config)[:12], plain=plain(fresh.config)[:12]))
            return True
    return False


def check_case(seed, acc):
    from annet.generators import _run_partial_generator, GeneratorError
    from annet.types import GeneratorPartialRunArgs
    from annet.annlib.patching import AclError
    from annet.annlib.netdev.views.hardware import HardwareView
    from vf import harness_gen as H
    from vf.util import plain, paths
    rng = random.Random(seed)
    vendor = rng.choice(VENDORS)
    ents = gen_entities(rng)
    x = rng.random()
    if x < 0.5:
        program = gen_safe_program(rng, ents, vendor)
    elif x < 0.8:
        # an expressible program with exactly one construct drawn from the full grammar, so that the stream reaches it
        program = gen_safe_program(rng, ents, vendor)
        donor = gen_program(rng, ents)
        st = rng.choice(rng.choice(program)["stmts"])
        dst = rng.choice(rng.choice(donor)["stmts"])
        crng = random.Random(seed ^ 0xC0B0)
        if crng.random() < 0.3:
            # one action combining several operations of one attribute (the builder keeps both only in this call order):
            # back-ends that cannot express the combination must refuse it before the first line
            def cn(t, k=1):
                pool = [c["name"] for c in ents["comms"] if c["type"] in t]
                return crng.sample(pool, min(k, len(pool)))
            fam, t = crng.choice([("community", ["BASIC"]), ("large_community", ["LARGE"]), ("extcommunity", ["RT", "SOO"]), ("extcommunity_rt", ["RT"]), ("extcommunity_soo", ["SOO"])])
            a = crng.choice([
                ["aspath", [["set", [65001]], ["prepend", [65002]]]], ["aspath", [["set", [65001, 65002]], ["expand", [65003]]]],
                ["aspath", [["set", [65001]], ["delete", [65002]]]], ["aspath", [["set", [65001]], ["expand_last_as", [65002]]]],
                ["aspath", [["prepend", [65001]], ["delete", [65002]]]], ["aspath", [["prepend", [65001]], ["expand", [65002]]]],
                ["aspath", [["prepend", [65001]], ["expand_last_as", [65002]]]], ["aspath", [["delete", [65001]], ["expand", [65002]]]],
                ["comm", fam, [["set", cn(t)], ["add", cn(t)]]], ["comm", fam, [["set", cn(t)], ["remove", cn(t)]]], ["comm", fam, [["add", cn(t)], ["remove", cn(t)]]],
                # single operations of the deprecated per-type attributes (the only way some back-ends name a list in an action)
                ["comm", "extcommunity_rt", [["remove", cn(["RT"])]]], ["comm", "extcommunity_soo", [["remove", cn(["SOO"])]]],
                ["comm", "extcommunity_rt", [["add", cn(["RT"])]]], ["comm", "large_community", [["remove", cn(["LARGE"])]]],
            ])
            st["acts"] = [x_ for x_ in st["acts"] if x_[0] != a[0] or (a[0] in ("comm",) and x_[1] != a[1])] + [a]
            acc.count("combined_operation_actions")
        elif dst["acts"] and rng.random() < 0.7:
            a = rng.choice(dst["acts"])
            st["acts"] = [x_ for x_ in st["acts"] if x_[0] != a[0] or (a[0] in ("comm",) and x_[1] != a[1])] + [a]
        elif dst["conds"]:
            c = rng.choice(dst["conds"])
            st["conds"] = [x_ for x_ in st["conds"] if x_[0] != c[0]] + [c]
    else:
        program = gen_program(rng, ents)
    # a wildcard-only as-path filter is a filter like any other: defined by the list generator when a statement refers to it
    ents["asp"].append(dict(name="ASP_ANY", filters=[".*"]))
    arng = random.Random(seed ^ 0xA5)
    for pol in program:
        for st in pol["stmts"]:
            for c in st["conds"]:
                if c[0] == "aspf" and arng.random() < 0.4:
                    c[1] = "ASP_ANY"
                    acc.count("wildcard_only_as_path_filter_refs")
    # a zero bound in an or_longer override (`greater-equal 0 less-equal 24`, covering a default route) is a bound like any other
    zrng = random.Random(seed ^ 0x0B0)
    for pol in program:
        for st in pol["stmts"]:
            for c in st["conds"]:
                if c[0] == "prefix" and c[3] and zrng.random() < 0.35:
                    c[3] = zrng.choice([(0, 24), (0, 32), (0, None)]) if c[1] == "v4" else zrng.choice([(0, 64), (0, None)])
                    acc.count("prefix_matches_with_a_zero_bound")
    model, soft = MODELS[vendor]
    mrng = random.Random(seed ^ 0x30DE)
    if vendor == "huawei":
        # the Huawei back-end serves every hardware family of the vendor
        model = mrng.choice([model, model, "Huawei NE40E-X8", "Huawei Quidway S5352C-EI", "Huawei S6720-30C-EI-24S-AC", "Huawei CE12804"])
    acc.distinct("hardware_models", model)
    if mrng.random() < 0.3:
        # policy names as operators write them: with dashes, dots and colons (the route map's name is a free text)
        ren = {pol["name"]: pol["name"] + mrng.choice(["-V4", ".in", "-IMPORT-1", ":x"]) for pol in program}
        for pol in program:
            pol["name"] = ren[pol["name"]]
        acc.count("programs_with_punctuated_policy_names")
    dev = H.FakeDevice(HardwareView(model, soft), pc=(vendor == "cumulus"))
    w = {"seed": seed, "vendor": vendor, "program": program, "entities": ents}
    nested = seed % 3 == 1
    if nested:
        acc.count("cases_with_included_route_maps")
    gens = make_generators(vendor, program, ents, nested)
    rejected = 0
    nrefs = 0
    # (4) raw streams with recording proxies
    for name, g in gens.items():
        rec = Recorder()
        if name in ("policy", "cumulus"):
            orig = g.get_policies
            g.get_policies = lambda device, _o=orig, _r=rec: wrap_policies(_o(device), _r)
        try:
            it = g.generate_cumulus_rpl(dev) if vendor == "cumulus" else g.run(dev)
            items, err = stream(it, rec, (lambda _g=g: _g._block_path) if vendor != "cumulus" else None)
        except Exception as e:
            items, err = [], e
        if name in ("policy", "cumulus"):
            g.get_policies = orig
            acc.count("policy_runs")
            acc.count("actions_segmented", sum(1 for m in rec.marks if m[0] in ("action", "condition")))
        if err is not None:
            rejected += 1
            acc.count("constructs_rejected")
            n, what = segment_verdict(rec, err)
            if n > 0:
                key = MECH.get((vendor, what[1].split(".")[-1]), "C14/%s/error-after-lines/%s-%s" % (vendor, what[0], what[1].split(".")[-1]))
                acc.violation(key, "a construct the back-end cannot express is rejected only after lines for it were emitted",
                              dict(w, generator=name, construct=list(what), lines_before_error=n, error=repr(err)[:200],
                                   emitted=[text_of(x) for x, _ in items[-n:]]))
                return w
    # (1)-(3) through the production ACL step
    outputs = {}
    for name, g in gens.items():
        if vendor == "cumulus":
            try:
                outputs[name] = [text_of(x) for x in g.generate_cumulus_rpl(dev)]
            except Exception:
                outputs[name] = None
            continue
        # nesting as yielded
        yielded = None
        try:
            g2 = make_generators(vendor, program, ents, nested)[name]
            rec2 = Recorder()
            entered = set()
            orig_block = g2.block

            def block(*tokens, _ob=orig_block, _g=g2, **kw):
                cm = _ob(*tokens, **kw)

                class W:
                    def __enter__(self_):
                        r = cm.__enter__()
                        entered.add(tuple(_g._block_path))
                        return r

                    def __exit__(self_, *a):
                        return cm.__exit__(*a)
                return W()
            g2.block = block
            items, err = stream(g2.run(dev), rec2, lambda _g=g2: _g._block_path)
            if err is None:
                yielded = set(entered)
                for x, bp in items:
                    for i in range(1, len(bp) + 1):
                        yielded.add(tuple(bp[:i]))
                    yielded.add(tuple(bp) + (text_of(x),))
        except Exception:
            yielded = None
        acc.count("generator_runs")
        try:
            res = _run_partial_generator(g, GeneratorPartialRunArgs(dev, use_acl=True))
        except GeneratorError as e:
            cause = e.__cause__
            if isinstance(cause, AclError):
                acc.violation("C14/%s/%s/line-not-covered-by-own-acl" % (vendor, name), "a generated line is refused by the generator's own ACL",
                              dict(w, generator=name, line=str(cause)))
                return w
            outputs[name] = None
            continue
        except Exception as e:
            acc.violation("C14/%s/%s/exception-%s" % (vendor, name, type(e).__name__), "_run_partial_generator raised an unexpected exception", dict(w, generator=name, error=repr(e)[:200]))
            return w
        if res is None:
            outputs[name] = []  # the generator does not support this vendor: it defines nothing
            continue
        got_paths = set(paths(res.config))
        norm = lambda p: tuple(" ".join(str(r).split()) for r in p)
        if yielded is not None and {norm(p) for p in got_paths} != {norm(p) for p in yielded}:
            acc.violation("C14/%s/%s/nesting-differs" % (vendor, name), "the parsed generator output does not have the block structure it was generated in",
                          dict(w, generator=name, parsed=sorted(map(list, got_paths))[:20], yielded=sorted(map(list, yielded))[:20]))
            return w
        outputs[name] = [" ".join(p[-1].split()) for p in sorted(got_paths, key=len)] if name != "prefix" or vendor != "arista" else [" ".join(p[0].split()) for p in got_paths]
    # (3)
    if vendor == "cumulus":
        pol = outputs.get("cumulus")
        lists = pol
    else:
        pol = outputs.get("policy")
        lists = None if any(outputs.get(k) is None for k in ("community", "prefix", "aspath", "rd")) else sum((outputs[k] for k in ("community", "prefix", "aspath", "rd")), [])
    if pol is not None and lists is not None:
        refs, defs = refs_defs(vendor, pol, lists)
        nrefs = len(refs)
        acc.count("refs_checked", len(refs))
        missing = sorted(refs - defs)
        if missing:
            acc.violation("C14/%s/undefined-reference/%s" % (vendor, missing[0][0]), "a policy statement refers to a named list that the matching list generator does not define under that name",
                          dict(w, missing=[list(m) for m in missing], defined=sorted(map(list, defs))[:30]))
            return w
    # "fed the same inputs": every generator asks the route map for the policies itself, so running the handlers again gives the same policies
    # (or the same refusal) as the first time
    rm_ = build_routemap(program, nested)
    shots = []
    for _ in range(3):
        try:
            shots.append(("ok", policies_snapshot(rm_.apply(dev))))
        except Exception as e:
            shots.append(("error", type(e).__name__, str(e)[:200]))
    acc.count("route_maps_applied_three_times")
    if shots[1] != shots[0] or shots[2] != shots[0]:
        k_ = 1 if shots[1] != shots[0] else 2
        acc.violation("C14/%s/handlers-give-other-policies-on-a-later-run" % vendor, "running the same policy handlers again for the same device gives other policies (or a refusal) than the first run: the generators are not fed the same inputs",
                      dict(w, run=k_ + 1, first=[shots[0][0], shots[0][1][:2] if shots[0][0] == "ok" else list(shots[0][1:])], later=[shots[k_][0], shots[k_][1][:2] if shots[k_][0] == "ok" else list(shots[k_][1:])]))
        return w
    if vendor != "cumulus":
        bad = check_reuse_and_annotate(seed, vendor, program, ents, dev, acc, w)
        if bad:
            return w
    # the policies handed to the generators are inputs: every generator may read them, none may change them
    sh = next(iter(gens.values())).vf_shared
    if "policies" in sh:
        acc.count("shared_policy_inputs_checked")
        after = policies_snapshot(sh["policies"])
        if after != sh["snapshot"]:
            diff = [(a_[0], x[0]) for a_, b_ in zip(sh["snapshot"], after) for x, y in zip(a_[1], b_[1]) if x != y]
            acc.violation("C14/%s/generator-modified-its-input-policies" % vendor, "a generator changed the policy objects it was given (a later generator, or a second run, sees other policies)",
                          dict(w, changed_statements=[list(x) for x in diff][:5]))
            return w
    acc.case([vendor, program, ents], nontrivial=(nrefs >= 1 or rejected >= 1))
    return w


def run_shard(spec, acc):
    if spec["mode"] == "replay":
        check_case(spec["witness"]["seed"], acc)
        return
    tier, k, n = spec["tier"], spec["shard"], spec["nshards"]
    total = 4000 if tier == "quick" else 90000
    rng = random.Random("C14/%s/%s" % (spec["seed"], k))
    for j in range(total // n):
        w = check_case(rng.randrange(1 << 48), acc)
        if j < 2 and w:
            acc.sample({"vendor": w["vendor"], "program": w["program"][:1]})
