"""C13 - JSON fragments stay inside their pointers and JSON patches reproduce the target.

Oracles (own RFC 6901 glob resolver, no use of annet's): for r = apply_json_fragment(old, f, acl):
  (1) for every pattern the (pointer -> value) selected in r equals the one selected in f;
  (2) every leaf of old outside the selected pointers is unchanged in r and nothing new appears outside;
  (3) apply_json_fragment(r, f, acl) == r;
  (4) apply_patch(dumps(old), dumps(make_patch(old, new))) == new, compared as strict JSON (types matter);
  (5) apply_acl_filters(d, F) is a sub-document of d;
  (6) chaining two generators over one file (RunGeneratorResult.new_json_fragment_files) == applying their fragments in turn.
"""
import copy
import fnmatch
import json
import random

LEVEL = "exploration"
RULE = ("documents drawn from one random schema (objects <=3 deep, arrays of scalars and of objects, scalars incl. bool/int/float/null/strings; keys from "
        "{a, b, c, 'a/b', 'm~n', 'x|y', '*', '0', 'Ethernet0'}), fragments of the same schema, pattern lists with literal segments and globs (*, prefix*, ?); classes: "
        "objects-only patterns, array-descending patterns, patterns reaching scalars. Patch pairs (old,new) of one schema incl. array edits, type-only changes (1 vs true vs 1.0). "
        "Non-trivial: >=1 pattern with a glob and old != fragment below it. Distinct: hash of (old, fragment, acl) / (old, new).")
ASSUMPTIONS = [
    "own resolver: pattern segments are RFC 6901-unescaped, matched with fnmatchcase against object keys (array indices as decimal strings); scalars are never descended into",
    "a pattern selects nothing in a document that lacks the path",
    "strict JSON equality: json.dumps(sort_keys=True) text",
    "array elements (and members of objects inside arrays) avoid bool/float values equal to ints: the third-party jsonpatch library diffs arrays with Python ==",
]
FLOORS = {"quick": {"fragments_applied": 3000, "patches_applied": 2000, "filters_applied": 1500, "glob_patterns": 2000, "chains": 300, "chains_with_descending_reload_prio": 100, "runner_cases": 300, "deploy_uploads": 150, "interleaved_two_file_chains": 400},
          "thorough": {"fragments_applied": 150000, "patches_applied": 100000, "filters_applied": 70000, "glob_patterns": 90000, "chains": 15000, "chains_with_descending_reload_prio": 5000, "runner_cases": 15000, "deploy_uploads": 8000}}
KEYS = ["a", "b", "c", "a/b", "m~n", "x|y", "*", "0", "Ethernet0", "Ethernet4"]
SCALARS = [0, 1, 2, True, False, None, 1.0, "s", "xyz", "", "1"]


def plan(tier, seed):
    n = 8 if tier == "quick" else 16
    return [{"mode": "random", "tier": tier, "seed": seed, "shard": k, "nshards": n} for k in range(n)]


def esc(k):
    return k.replace("~", "~0").replace("/", "~1")


def unesc(k):
    return k.replace("~1", "/").replace("~0", "~")


def resolve(pattern, doc):
    """-> list of paths (tuples of str) existing in doc"""
    parts = [unesc(p) for p in pattern.split("/")[1:]] if pattern else []
    cur = [((), doc)]
    for part in parts:
        nxt = []
        for path, d in cur:
            if isinstance(d, dict):
                for k in d:
                    if fnmatch.fnmatchcase(k, part):
                        nxt.append((path + (k,), d[k]))
            elif isinstance(d, list):
                for i in range(len(d)):
                    if fnmatch.fnmatchcase(str(i), part):
                        nxt.append((path + (str(i),), d[i]))
        cur = nxt
    return [p for p, _ in cur]


def get(doc, path):
    for k in path:
        doc = doc[int(k)] if isinstance(doc, list) else doc[k]
    return doc


def leaves(doc, path=()):
    if isinstance(doc, dict) and doc:
        for k, v in doc.items():
            yield from leaves(v, path + (k,))
    elif isinstance(doc, list) and doc:
        for i, v in enumerate(doc):
            yield from leaves(v, path + (str(i),))
    else:
        yield path, doc


def J(x):
    return json.dumps(x, sort_keys=True)


# ---- schema-driven generation -----------------------------------------------------------------------
def gen_schema(rng, depth=0):
    r = rng.random()
    if depth >= 3 or r < 0.3:
        return ("scalar",)
    if r < 0.75:
        return ("object", {k: gen_schema(rng, depth + 1) for k in rng.sample(KEYS, rng.randint(1, 4))})
    if r < 0.9:
        return ("array", ("scalar",))
    return ("array", ("object", {k: ("scalar",) for k in rng.sample(KEYS[:4], rng.randint(1, 2))}))


ARRAY_SCALARS = [0, 2, 5, "s", "xyz", None, "1"]  # no bool/float next to equal ints: the jsonpatch library compares array elements with ==


def gen_doc(rng, schema, p_key=0.7, in_array=False):
    if schema[0] == "scalar":
        return rng.choice(ARRAY_SCALARS if in_array else SCALARS)
    if schema[0] == "object":
        return {k: gen_doc(rng, s, p_key, in_array) for k, s in schema[1].items() if rng.random() < p_key}
    return [gen_doc(rng, schema[1], p_key, True) for _ in range(rng.randint(0, 3))]


def gen_patterns(rng, schema, allow_arrays):
    pats = []

    def walk(s, parts):
        if parts and rng.random() < 0.35:
            pats.append("/" + "/".join(parts))
        if s[0] == "object":
            for k, sub in s[1].items():
                seg = esc(k)
                r = rng.random()
                if r < 0.3:
                    seg = "*"
                elif r < 0.4 and len(k) > 1:
                    seg = esc(k[:1]) + "*"
                elif r < 0.45:
                    seg = "?" * len(k)
                if rng.random() < 0.6:
                    walk(sub, parts + [seg])
        elif s[0] == "array" and allow_arrays and rng.random() < 0.5:
            walk(s[1], parts + [rng.choice(["*", "0", "1"])])
        elif s[0] == "scalar" and rng.random() < 0.05:
            pats.append("/" + "/".join(parts + ["*"]))  # a glob that reaches a scalar selects nothing
    if schema[0] == "object":
        walk(schema, [])
    if not pats and schema[0] == "object":
        pats.append("/" + esc(rng.choice(list(schema[1]))))
    rng.shuffle(pats)
    return pats[:4]


def has_array_step(pattern, docs):
    for d in docs:
        parts = [unesc(p) for p in pattern.split("/")[1:]]
        cur = [d]
        for part in parts:
            nxt = []
            for x in cur:
                if isinstance(x, list):
                    return True
                if isinstance(x, dict):
                    nxt += [v for k, v in x.items() if fnmatch.fnmatchcase(k, part)]
            cur = nxt
    return False


def through_array(docs, path):
    for d in docs:
        cur = d
        for k in path:
            if isinstance(cur, list):
                return True
            try:
                cur = cur[k] if isinstance(cur, dict) else None
            except Exception:
                cur = None
            if cur is None:
                break
    return False


def classify_fragment(acl, old, frag, pointers=None):
    """mechanism key of a deviation: only when the deviating pointers themselves lie inside an array selected by a pattern"""
    if not any(has_array_step(p, [old, frag]) for p in acl):
        return None
    if pointers is not None and not any(through_array([old, frag], tuple(p)) for p in pointers):
        return None
    return "array-elements-selected-by-pattern"


def check_fragment(rng, schema, acc, seed):
    from annet.annlib import jsontools
    old = gen_doc(rng, schema)
    frag = gen_doc(rng, schema, 0.6)
    if not isinstance(old, dict) or not isinstance(frag, dict):
        return
    allow_arrays = rng.random() < 0.25
    acl = gen_patterns(rng, schema, allow_arrays)
    w = {"seed": seed, "op": "fragment", "old": old, "fragment": frag, "acl": acl}
    globby = any(("*" in p.replace("~0", "").replace("~1", "") or "?" in p) for p in acl)
    acc.count("fragments_applied")
    if globby:
        acc.count("glob_patterns")
    o0, f0 = J(old), J(frag)
    try:
        r = jsontools.apply_json_fragment(old, frag, acl)
    except Exception as e:
        special = any(("/" in k or "~" in k) for d in (old, frag) for p, _ in leaves(d) for k in p)
        mech = classify_fragment(acl, old, frag) or ("key-needs-rfc6901-escaping" if (special and type(e).__name__ == "JsonPointerException") else None)
        str_scalar = any(isinstance(v, str) and v for d in (old, frag) for _, v in leaves(d))
        key = "C13/fragment/" + (mech or ("glob-descends-into-string-scalar" if (type(e).__name__ == "TypeError" and str_scalar) else "exception-" + type(e).__name__))
        acc.violation(key, "apply_json_fragment raised on documents of one schema", dict(w, error=repr(e)[:200]))
        return
    if J(old) != o0 or J(frag) != f0:
        acc.violation("C13/fragment/inputs-modified", "apply_json_fragment modified its arguments", w)
        return
    sel_f = {p for pat in acl for p in resolve(pat, frag)}
    sel_o = {p for pat in acl for p in resolve(pat, old)}
    nontrivial = globby and any(J(get(frag, p)) != J(get(old, p)) if p in sel_o else True for p in sel_f) if sel_f else False
    acc.case([old, frag, acl], nontrivial=bool(nontrivial))
    bad = None
    # (1) selected parts equal the fragment's
    for pat in acl:
        rf, rr = set(resolve(pat, frag)), set(resolve(pat, r))
        if rf != rr:
            bad = ("selected-parts-differ", "under a pattern the result does not hold exactly the fragment's pointers (lacking keys must be removed)", {"pattern": pat, "in_fragment": sorted(rf), "in_result": sorted(rr)})
            break
        for p in rf:
            if J(get(frag, p)) != J(get(r, p)):
                bad = ("selected-value-differs", "under a pattern the result's value differs from the fragment's", {"pattern": pat, "pointer": list(p)})
                break
        if bad:
            break
    # (2) everything else equals old
    if not bad:
        sel = sel_f | sel_o

        def outside(path):
            return not any(path[:len(s)] == s for s in sel)
        lo = {p: v for p, v in leaves(old) if outside(p)}
        lr = {p: v for p, v in leaves(r) if outside(p)}
        # empty containers created on the way to a selected pointer are not "new content"
        lr = {p: v for p, v in lr.items() if not (v in ({}, []) and any(s[:len(p)] == p for s in sel))}
        lo = {p: v for p, v in lo.items() if not (v in ({}, []) and any(s[:len(p)] == p for s in sel))}
        if {p: J(v) for p, v in lo.items()} != {p: J(v) for p, v in lr.items()}:
            diffk = sorted(set(lo) ^ set(lr) | {p for p in set(lo) & set(lr) if J(lo[p]) != J(lr[p])})
            bad = ("outside-changed", "a part of the document outside the generator's pointer patterns changed", {"pointers": [list(p) for p in diffk[:5]]})
    # (3) idempotence
    if not bad:
        try:
            r2 = jsontools.apply_json_fragment(r, frag, acl)
            if J(r2) != J(r):
                bad = ("not-idempotent", "merging the same fragment again changes the document", {"twice": r2})
        except Exception as e:
            bad = ("exception-second-merge", "second merge raised", {"error": repr(e)[:200]})
    if bad:
        ptrs = None
        if bad[0] == "selected-parts-differ":
            ptrs = sorted(set(map(tuple, bad[2]["in_fragment"])) ^ set(map(tuple, bad[2]["in_result"])))
        elif bad[0] == "selected-value-differs":
            ptrs = [tuple(bad[2]["pointer"])]
        elif bad[0] == "outside-changed":
            ptrs = [tuple(p) for p in bad[2]["pointers"]]
        mech = classify_fragment(acl, old, frag, ptrs) if ptrs is not None else None
        acc.violation("C13/fragment/" + (mech or bad[0]), bad[1], dict(w, result=r, detail=bad[2], law=bad[0]))


def check_patch(rng, schema, acc, seed):
    from annet.annlib import jsontools
    old = gen_doc(rng, schema)
    x = rng.random()
    if x < 0.5:
        new = gen_doc(rng, schema)
    else:
        new = copy.deepcopy(old)
        mutate(rng, new, schema)
    if not isinstance(old, dict) or not isinstance(new, dict):
        return
    w = {"seed": seed, "op": "patch", "old": old, "new": new}
    acc.count("patches_applied")
    acc.case(["patch", old, new], nontrivial=J(old) != J(new))
    has_arrays = any(isinstance(v, list) for d in (old, new) for v in walk_values(d))
    # the third-party jsonpatch library itself does not round-trip some array-of-object edits: such inputs cannot be judged
    import jsonpatch
    try:
        lib_ok = J(jsonpatch.JsonPatch(json.loads(json.dumps(jsonpatch.make_patch(old, new).patch))).apply(copy.deepcopy(old))) == J(new)
    except Exception:
        lib_ok = False
    if not lib_ok:
        acc.count("skipped_jsonpatch_library_does_not_roundtrip")
        return
    try:
        patch = jsontools.make_patch(old, new)
        out = jsontools.apply_patch(json.dumps(old).encode(), json.dumps(patch).encode())
        got = json.loads(out)
    except Exception as e:
        key = "C13/patch/" + ("operations-resorted-by-path" if has_arrays else "exception-" + type(e).__name__)
        acc.violation(key, "applying the generated JSON patch to the old document raised", dict(w, error=repr(e)[:200]))
        return
    if J(got) != J(new):
        key = "C13/patch/" + ("operations-resorted-by-path" if has_arrays and resorted(old, new) else "result-differs-from-target")
        acc.violation(key, "the JSON patch produced for (old, new), applied to old, does not yield new", dict(w, patch=patch, got=got))


def resorted(old, new):
    import jsonpatch
    ops = jsonpatch.make_patch(old, new).patch
    return ops != sorted(ops, key=lambda o: o["path"])


def walk_values(d):
    yield d
    if isinstance(d, dict):
        for v in d.values():
            yield from walk_values(v)
    elif isinstance(d, list):
        for v in d:
            yield from walk_values(v)


def mutate(rng, doc, schema, in_array=False):
    if schema[0] == "object" and isinstance(doc, dict):
        for k, s in schema[1].items():
            r = rng.random()
            if k in doc and r < 0.2:
                del doc[k]
            elif k in doc and r < 0.6:
                if s[0] == "scalar" and in_array:
                    doc[k] = rng.choice(ARRAY_SCALARS)
                elif s[0] == "scalar":
                    v = doc[k]
                    # type-only changes are changes: 1 vs True vs 1.0
                    doc[k] = rng.choice([True, 1, 1.0, False, 0, 0.0]) if rng.random() < 0.4 else rng.choice(SCALARS)
                else:
                    mutate(rng, doc[k], s, in_array)
            elif k not in doc and r < 0.5:
                doc[k] = gen_doc(rng, s, 0.7, in_array)
    elif schema[0] == "array" and isinstance(doc, list):
        r = rng.random()
        if doc and r < 0.3:
            del doc[rng.randrange(len(doc))]
        if r < 0.6:
            doc.insert(rng.randint(0, len(doc)), gen_doc(rng, schema[1], 0.7, True))
        if doc and r > 0.5:
            i = rng.randrange(len(doc))
            if schema[1][0] == "scalar":
                doc[i] = rng.choice(ARRAY_SCALARS)
            else:
                mutate(rng, doc[i], schema[1], True)
        if len(doc) > 1 and rng.random() < 0.2:
            rng.shuffle(doc)


def _has(doc, path, value):
    try:
        return J(get(doc, path)) == J(value)
    except Exception:
        return False


def is_subdoc(sub, doc):
    if isinstance(sub, dict):
        return isinstance(doc, dict) and all(k in doc and is_subdoc(v, doc[k]) for k, v in sub.items())
    return J(sub) == J(doc)


def check_filter(rng, schema, acc, seed):
    from annet.annlib import jsontools
    d = gen_doc(rng, schema)
    if not isinstance(d, dict):
        return
    allow_arrays = rng.random() < 0.2
    filters = gen_patterns(rng, schema, allow_arrays) + ([""] if rng.random() < 0.2 else [])
    w = {"seed": seed, "op": "filter", "doc": d, "filters": filters}
    acc.count("filters_applied")
    acc.case(["filter", d, filters], nontrivial=any("*" in f for f in filters))
    d0 = J(d)
    try:
        out = jsontools.apply_acl_filters(d, filters)
    except Exception as e:
        special = any(("/" in k or "~" in k) for p, _ in leaves(d) for k in p)
        mech = "key-needs-rfc6901-escaping" if (special and type(e).__name__ == "JsonPointerException") else classify_fragment(filters, d, d)
        acc.violation("C13/filter/" + (mech or "exception-" + type(e).__name__), "apply_acl_filters raised", dict(w, error=repr(e)[:200]))
        return
    if J(d) != d0:
        acc.violation("C13/filter/input-modified", "apply_acl_filters modified the filtered document", w)
        return
    if not is_subdoc(out, d):
        mech = classify_fragment(filters, d, d)
        acc.violation("C13/filter/" + (mech or "not-a-subdocument"), "the filter result contains something that is not part of the filtered document", dict(w, result=out))
        return
    # nothing but the selected parts (object-only patterns)
    if not any(has_array_step(f.strip(), [d]) for f in filters if f.strip()):
        sel = {p for f in filters if f.strip() for p in resolve(f.strip(), d)}
        extra = [p for p, v in leaves(out) if p and not any(p[:len(s_)] == s_ for s_ in sel) and not (v in ({}, []) and any(s_[:len(p)] == p for s_ in sel))]
        if extra:
            acc.violation("C13/filter/unselected-part-passed", "the filter result contains a part of the document that no filter pattern selects", dict(w, result=out, pointers=[list(p) for p in extra[:5]]))
            return
    # completeness for object-only patterns: every selected pointer is present with its value
    for f in filters:
        if not f.strip() or has_array_step(f, [d]):
            continue
        for p in resolve(f.strip(), d):
            try:
                ok = J(get(out, p)) == J(get(d, p))
            except Exception:
                ok = False
            if not ok:
                mech = None
                acc.violation("C13/filter/" + (mech or "selected-part-missing"), "a part selected by a filter pattern is missing from the filter result", dict(w, result=out, pointer=list(p)))
                return


def check_chain(rng, schema, acc, seed):
    """several generators over one file: new_json_fragment_files == merging their fragments in listing order"""
    from annet.generators.result import RunGeneratorResult
    from annet.annlib import jsontools
    import types
    if schema[0] != "object":
        return
    old = gen_doc(rng, schema)
    res = RunGeneratorResult()
    frs = []
    prng = random.Random(seed ^ 0x5EED)  # reload priorities: any order, ties, zero (they choose the reload command, never the content)
    prios = []
    for i in range(rng.randint(2, 3)):
        frag = gen_doc(rng, schema, 0.6)
        acl = [p for p in gen_patterns(rng, schema, False)]
        frs.append((frag, acl))
        prios.append(prng.choice([0, 1, 5, 5, 10, 100 - i]))
        res.add_json_fragment(types.SimpleNamespace(name="g%d" % i, path="/etc/x.json", acl=acl, acl_safe=acl, config=frag, reload="r%d" % i, reload_prio=prios[-1]))
    w = {"seed": seed, "op": "chain", "old": old, "fragments": frs, "reload_prios": prios}
    if prios != sorted(prios):
        acc.count("chains_with_descending_reload_prio")
    try:
        files = res.new_json_fragment_files({"/etc/x.json": old})
        exp = old
        for frag, acl in frs:
            exp = jsontools.apply_json_fragment(exp, frag, acl)
    except Exception as e:
        docs = [old] + [f for f, _ in frs]
        if any(has_array_step(p, docs) for _, a in frs for p in a):
            # the listed finding (a pattern step selects array elements), met through the chained front end
            acc.violation("C13/fragment/array-elements-selected-by-pattern", "apply_json_fragment raised on documents of one schema", dict(w, error=repr(e)[:200]))
        else:
            acc.violation("C13/chain/exception-%s" % type(e).__name__, "chaining fragments raised", dict(w, error=repr(e)[:200]))
        return
    acc.count("chains")
    acc.case(["chain", old, frs], nontrivial=True)
    if J(files["/etc/x.json"][0]) != J(exp):
        acc.violation("C13/chain/differs-from-sequential-merge", "several generators over one file do not give the result of merging their fragments one after another",
                      dict(w, got=files["/etc/x.json"][0], expected=exp))
        return
    # the reload command: of the generators that changed the document, a strictly highest priority wins
    cur, changed = old, []
    for i, (frag, acl) in enumerate(frs):
        nxt = jsontools.apply_json_fragment(cur, frag, acl)
        if J(nxt) != J(cur):
            changed.append(i)
        cur = nxt
    if changed:
        top = max(prios[i] for i in changed)
        winners = [i for i in changed if prios[i] == top]
        if len(winners) == 1 and top > 0 and files["/etc/x.json"][1] != "r%d" % winners[0]:
            acc.violation("C13/chain/wrong-reload-command", "the reload command is not that of the highest-priority generator that changed the file",
                          dict(w, got=files["/etc/x.json"][1], expected="r%d" % winners[0]))


def check_interleaved(seed, acc):
    """generators of two files listed in an interleaved order (A, B, A ...): each file's document is the sequential merge of ITS generators' fragments"""
    from annet.generators.result import RunGeneratorResult
    from annet.annlib import jsontools
    import types
    rng = random.Random(seed)
    schema = ("object", {k: gen_schema(rng, 1) for k in rng.sample(KEYS, rng.randint(2, 4))})
    paths_ = ["/etc/a.json", "/etc/b.json"]
    old = {p_: (gen_doc(rng, schema) if rng.random() < 0.8 else None) for p_ in paths_}
    seq = rng.choice([[0, 1, 0], [0, 1, 1, 0], [1, 0, 1], [0, 1, 0, 1], [0, 0, 1, 0]])
    res = RunGeneratorResult()
    frs = []
    for i, fi in enumerate(seq):
        frag = gen_doc(rng, schema, 0.6)
        acl = [p for p in gen_patterns(rng, schema, False)]
        frs.append((paths_[fi], frag, acl))
        res.add_json_fragment(types.SimpleNamespace(name="g%d" % i, path=paths_[fi], acl=acl, acl_safe=acl, config=frag, reload="r%d" % i, reload_prio=10 + i))
    w = {"seed": seed, "op": "interleaved", "old": old, "fragments": frs}
    docs = [d for d in old.values() if d is not None] + [f for _, f, _ in frs]
    if any(has_array_step(p, docs) for _, _, a in frs for p in a):
        acc.count("interleaved_skipped_array_step")
        return
    try:
        files = res.new_json_fragment_files(dict(old))
        exp = {}
        for p_ in paths_:
            cur = old[p_] if old[p_] is not None else {}
            for fp, frag, acl in frs:
                if fp == p_:
                    cur = jsontools.apply_json_fragment(cur, frag, acl)
            exp[p_] = cur
    except Exception as e:
        acc.violation("C13/chain/exception-%s" % type(e).__name__, "chaining fragments raised", dict(w, error=repr(e)[:200]))
        return
    acc.count("interleaved_two_file_chains")
    acc.case(["interleaved", old, frs], nontrivial=True)
    for p_ in paths_:
        if p_ not in files or J(files[p_][0]) != J(exp[p_]):
            acc.violation("C13/chain/differs-from-sequential-merge", "several generators over one file do not give the result of merging their fragments one after another",
                          dict(w, file=p_, got=files.get(p_, [None])[0], expected=exp[p_]))
            return


def check_runner_and_deploy(seed, acc):
    """real JSONFragment generators through run_file_generators -> new_json_fragment_files (plain and --acl-safe) ->
    PCDeployerJob: the uploaded JSON patch applied to what the device has (file absent / {} / a document) gives the merged document"""
    import types
    import annet.deploy as AD
    from annet import api, cli_args
    from annet.annlib import jsontools
    from annet.annlib.netdev.views.hardware import HardwareView
    from annet.generators import run_file_generators
    from annet.generators.jsonfragment import JSONFragment
    from annet.types import OldNewResult
    from vf import harness_gen as H
    from vf.props import c19
    c19.setup_connectors()
    rng = random.Random(seed)
    schema = ("object", {k: gen_schema(rng, 1) for k in rng.sample(KEYS, rng.randint(2, 4))})
    x = rng.random()
    old = None if x < 0.3 else ({} if x < 0.45 else gen_doc(rng, schema))
    path = "/etc/sonic/config_db.json"
    specs, gens = [], []
    for i in range(rng.randint(1, 2)):
        frag = gen_doc(rng, schema, 0.6)
        acl = gen_patterns(rng, schema, False)
        safe = [p for p in acl if rng.random() < 0.5] or acl[:1]
        acl_v = acl[0] if (len(acl) == 1 and rng.random() < 0.7) else list(acl)
        safe_v = safe[0] if (len(safe) == 1 and rng.random() < 0.7) else list(safe)
        specs.append({"fragment": frag, "acl": acl_v, "acl_safe": safe_v, "reload_prio": rng.choice([1, 50, 100])})
        ns = {"path": lambda self, device, _p=path: _p, "acl": lambda self, device, _a=acl_v: _a, "acl_safe": lambda self, device, _a=safe_v: _a,
              "run": lambda self, device, _f=frag: iter([json.loads(json.dumps(_f))]), "reload": lambda self, device, _i=i: "reload%d" % _i,
              "process_scalar_value": lambda self, value: value, "reload_prio": specs[-1]["reload_prio"], "TAGS": []}
        cls = types.new_class("Frag%d" % i, (JSONFragment,), {}, lambda d, _ns=ns: d.update(_ns))
        gens.append(cls(storage=H.FakeStorage()))
    w = {"seed": seed, "op": "runner", "old": old, "generators": specs}
    docs = [old or {}] + [s_["fragment"] for s_ in specs]
    if any(has_array_step(p, docs) for s_ in specs for p in ([s_["acl"]] if isinstance(s_["acl"], str) else s_["acl"])):
        acc.count("runner_skipped_array_step")
        return
    dev = H.FakeDevice(HardwareView("PC", "Linux"), pc=True)
    try:
        res = run_file_generators(gens, dev)
        got = {safe: res.new_json_fragment_files({path: old}, safe=safe) for safe in (False, True)}
    except Exception as e:
        acc.violation("C13/runner/exception-%s" % type(e).__name__, "running JSON fragment generators raised", dict(w, error=repr(e)[:200]))
        return
    acc.count("runner_cases")
    acc.case(["runner", old, specs], nontrivial=True)
    for safe in (False, True):
        exp = old if old is not None else {}
        for s_ in specs:
            a = s_["acl_safe"] if safe else s_["acl"]
            exp = jsontools.apply_json_fragment(exp, s_["fragment"], [a] if isinstance(a, str) else a)
        if path not in got[safe]:
            acc.violation("C13/runner/file-of-a-generator-missing-from-the-result", "a file that JSON fragment generators own is missing from the result (its generators' fragments and ACLs were not applied)",
                          dict(w, safe=safe, files=sorted(got[safe]), expected=exp))
            return
        if J(got[safe][path][0]) != J(exp):
            acc.violation("C13/runner/%s-result-differs-from-sequential-merge" % ("acl-safe" if safe else "plain"),
                          "the document built from the generators (through run_file_generators) is not the sequential merge of their fragments under their %s" % ("safe ACLs" if safe else "ACLs"),
                          dict(w, got=got[safe][path][0], expected=exp))
            return
    # deploy: the uploaded patch reproduces the target on the device
    orig = AD.get_deployer
    AD.get_deployer = lambda: c19._Driver()
    try:
        job = api.PCDeployerJob(dev, types.SimpleNamespace(acl_safe=False, entire_reload=cli_args.EntireReloadFlag.yes))
        job.parse_result(OldNewResult(device=dev, old_json_fragment_files={path: old}, new_json_fragment_files=got[False]))
    except Exception as e:
        # the third-party jsonpatch library itself raises on some documents (a string key "0" beside array edits: it compares its own keys with >)
        import jsonpatch
        try:
            jsonpatch.make_patch(old if old is not None else {}, got[False][path][0])
            lib_raises = False
        except Exception as le:
            lib_raises = type(le) is type(e)
        if lib_raises:
            acc.count("skipped_jsonpatch_library_raises")
            return
        acc.violation("C13/deploy/exception-%s" % type(e).__name__, "PCDeployerJob.parse_result raised on JSON fragment files", dict(w, error=repr(e)[:200]))
        return
    finally:
        AD.get_deployer = orig
    target = got[False][path][0]
    up = job.deploy_cmds.get(dev, {"files": {}})["files"].get(path)
    acc.count("deploy_jobs")
    if up is None:
        if J(old if old is not None else None) != J(target) and jsontools.format_json(old) != jsontools.format_json(target):
            acc.violation("C13/deploy/changed-file-not-uploaded", "the merged document differs from the device's but nothing is uploaded", dict(w, target=target))
        return
    acc.count("deploy_uploads")
    # the third-party jsonpatch library itself does not round-trip some array-of-object edits: such inputs cannot be judged
    import jsonpatch
    try:
        lib_ok = J(jsonpatch.JsonPatch(json.loads(json.dumps(jsonpatch.make_patch(old, target).patch))).apply(copy.deepcopy(old))) == J(target)
    except Exception:
        lib_ok = False
    if not lib_ok:
        acc.count("skipped_jsonpatch_library_does_not_roundtrip")
        return
    try:
        after = json.loads(jsontools.apply_patch(None if old is None else json.dumps(old).encode(), up))
    except Exception as e:
        acc.violation("C13/deploy/uploaded-patch-does-not-apply", "the uploaded JSON patch cannot be applied to what the device has", dict(w, patch=up.decode()[:400], error=repr(e)[:200]))
        return
    if J(after) != J(target):
        acc.violation("C13/deploy/uploaded-patch-gives-other-document", "applying the uploaded JSON patch on the device does not give the merged document",
                      dict(w, patch=up.decode()[:400], after=after, target=target))


def run_case(seed, acc):
    rng = random.Random(seed)
    schema = ("object", {k: gen_schema(rng, 1) for k in rng.sample(KEYS, rng.randint(2, 4))})
    op = rng.random()
    if op < 0.45:
        check_fragment(rng, schema, acc, seed)
    elif op < 0.75:
        check_patch(rng, schema, acc, seed)
    elif op < 0.93:
        check_filter(rng, schema, acc, seed)
    else:
        check_chain(rng, schema, acc, seed)


def run_shard(spec, acc):
    if spec["mode"] == "replay":
        if spec["witness"].get("op") == "runner":
            check_runner_and_deploy(spec["witness"]["seed"], acc)
        elif spec["witness"].get("op") == "interleaved":
            check_interleaved(spec["witness"]["seed"], acc)
        else:
            run_case(spec["witness"]["seed"], acc)
        return
    tier, k, n = spec["tier"], spec["shard"], spec["nshards"]
    total = 18000 if tier == "quick" else 400000
    rng = random.Random("C13/%s/%s" % (spec["seed"], k))
    for j in range(total // n):
        s = rng.randrange(1 << 48)
        run_case(s, acc)
        if j < 2:
            acc.sample({"seed": s})
        if j % 10 == 0:
            check_runner_and_deploy(rng.randrange(1 << 48), acc)
        if j % 10 == 5:
            check_interleaved(rng.randrange(1 << 48), acc)
