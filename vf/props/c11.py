"""C11 - VLAN-list commands change exactly the VLANs that differ.

The real _diff_and_patch runs over the SHIPPED huawei / cisco / nexus rulebooks on a block holding the VLAN lines; the
emitted command rows are parsed by an independent reader (own range syntax parsers) into add / remove / remove-all /
set-none actions and folded over S_old: the final set must be S_new and every intermediate set must contain
S_old & S_new. Also expand(collapse(S)) == S for the helpers.
"""
import itertools
import random
import re
from collections import OrderedDict as odict

from vf.props import c01

LEVEL = "exploration"
RULE = ("exhaustive over all ordered pairs (S_old, S_new) of subsets of a 5-element (quick) / 8-element (thorough) universe chosen to create ranges, x splittings of each "
        "set's sorted elements into 1-2 (quick) / 1-4 (thorough, sampled) consecutive groups = config lines, for the rule kinds huawei multi (vlan batch), multi_all "
        "(trunk allow-pass, hybrid tagged/untagged), single (stp instance), cisco/nexus simple (vlan) and swtrunk (allowed vlan / allowed vlan add); plus random sets over 1..4094 "
        "with chunking. Non-trivial: the sets differ and at least one side spans >=2 lines. Distinct: hash of (kind, model, old lines, new lines).")
ASSUMPTIONS = [
    "device semantics of the emitted commands: '<prefix> LIST' / '... add LIST' adds, 'undo <prefix> LIST' / 'no <prefix> [remove] LIST' removes, '... all' removes everything, '... none' empties; a bare 'switchport trunk allowed vlan LIST' replaces the list",
    "lines of one list hold disjoint groups of the sorted set (the canonical way devices print long lists)",
]
EXHAUSTIVE = {"quick": True, "thorough": False}
FLOORS = {"quick": {"patches_simulated": 20000, "commands_parsed": 20000, "multi_line_cases": 10000, "helper_roundtrips": 2000, "block_cases": 10000, "block_cases_with_changed_blocks": 5000, "lag_member_cases": 1500, "lists_spelled_with_blanks": 3000, "long_first_lists": 40, "cases_with_rows_of_another_diff_logic_between_rows_of_the_lists_logic": 2000, "patches_computed_under_an_acl": 5000, "cases_with_a_range_across_a_power_of_ten": 80},
          "thorough": {"patches_simulated": 600000, "commands_parsed": 600000, "multi_line_cases": 300000, "helper_roundtrips": 50000, "block_cases": 300000, "block_cases_with_changed_blocks": 150000, "lag_member_cases": 40000}}
U_QUICK = [2, 3, 4, 7, 8]
U_THOROUGH = [2, 3, 4, 7, 8, 10, 11, 20]

KINDS = {
    # kind: (model, block path, line prefix, syntax, max lines per list)
    "huawei-multi": ("Huawei CE6870", (), "vlan batch", "huawei", 4),
    "huawei-multi_all-trunk": ("Huawei CE6870", ("interface 10GE1/0/1",), "port trunk allow-pass vlan", "huawei", 4),
    "huawei-multi_all-tagged": ("Huawei Quidway S5300", ("interface GigabitEthernet0/0/1",), "port hybrid tagged vlan", "huawei", 4),
    "huawei-multi_all-untagged": ("Huawei", ("interface GigabitEthernet0/0/1",), "port hybrid untagged vlan", "huawei", 4),
    "huawei-single": ("Huawei CE6870", ("stp region-configuration",), "instance 1 vlan", "huawei", 1),
    "cisco-simple": ("Cisco Catalyst 2960", (), "vlan", "cisco", 4),
    "nexus-simple": ("Cisco Nexus 9316", (), "vlan", "cisco", 4),
    "cisco-vlangroup": ("Cisco Catalyst 2960", (), "vlan group G1 vlan-list", "cisco", 2),
    "nexus-vlangroup": ("Cisco Nexus 9316", (), "vlan group G1 vlan-list", "cisco", 2),
    "cisco-swtrunk": ("Cisco Catalyst 2960", ("interface GigabitEthernet0/1",), "switchport trunk allowed vlan", "cisco-add", 4),
    "nexus-swtrunk": ("Cisco Nexus 9316", ("interface Ethernet1/1",), "switchport trunk allowed vlan", "cisco-add", 4),
    "huawei-multi_all-untagged-quidway": ("Huawei Quidway S5300", ("interface GigabitEthernet0/0/1",), "port hybrid untagged vlan", "huawei", 4),  # (universe with VLAN 1, the default VLAN of a hybrid port)
    "cisco-swtrunk-stacked": ("Cisco Catalyst 2960", ("interface GigabitEthernet1/0/1",), "switchport trunk allowed vlan", "cisco-add", 4),  # (a port of a switch stack: three numbers)
}
UNIVERSE = {"huawei-multi_all-untagged-quidway": {"quick": [1, 2, 3, 7, 8], "thorough": [1, 2, 3, 4, 7, 8, 10, 11]}}
# rows that stand AFTER the VLAN lines in the same block on both sides, unchanged: first one that the rulebook diffs with another %diff_logic than the
# VLAN lines, then one more of the VLAN lines' own logic (so the rows of one logic are not contiguous)
NEIGHBOURS = {
    "huawei-multi": [("sysname x", []), ("vlan 3999", ["description z"])],
    "huawei-multi_all-trunk": [("ip source check user-bind enable", []), ("stp edged-port enable", [])],
    "huawei-multi_all-tagged": [("ip source check user-bind enable", []), ("stp edged-port enable", [])],
    "huawei-multi_all-untagged": [("ip source check user-bind enable", []), ("stp edged-port enable", [])],
    "cisco-simple": [("interface GigabitEthernet0/5", ["description x"]), ("router bgp 1", [])],
    "nexus-simple": [("interface Ethernet1/5", ["description x"]), ("router bgp 1", [])],
    "cisco-vlangroup": [("interface GigabitEthernet0/5", ["description x"]), ("router bgp 1", [])],
    "nexus-vlangroup": [("interface Ethernet1/5", ["description x"]), ("router bgp 1", [])],
}


def plan(tier, seed):
    specs = []
    per = 2 if tier == "quick" else 4
    for kind in KINDS:
        for k in range(per):
            specs.append({"mode": "kind", "tier": tier, "seed": seed, "kind": kind, "shard": k, "nshards": per})
    for kind in BLOCK_KINDS:
        for k in range(per):
            specs.append({"mode": "blocks", "tier": tier, "seed": seed, "kind": kind, "shard": k, "nshards": per})
    specs.append({"mode": "helpers", "tier": tier, "seed": seed})
    return specs


# ---- own range syntax ------------------------------------------------------------------------------
def ranges(elems):
    out = []
    for e in sorted(elems):
        if out and out[-1][1] == e - 1:
            out[-1][1] = e
        else:
            out.append([e, e])
    return out


def fmt_ranges(elems, syntax):
    rs = ranges(elems)
    if syntax == "huawei":
        return " ".join("%d" % a if a == b else "%d to %d" % (a, b) for a, b in rs)
    return ",".join("%d" % a if a == b else "%d-%d" % (a, b) for a, b in rs)


def parse_list(text, syntax):
    s = set()
    if syntax == "huawei":
        toks = text.split()
        i = 0
        while i < len(toks):
            if i + 2 < len(toks) and toks[i + 1] == "to":
                s.update(range(int(toks[i]), int(toks[i + 2]) + 1))
                i += 3
            else:
                s.add(int(toks[i]))
                i += 1
        return s
    for part in text.replace(" ", "").split(","):
        if "-" in part:
            a, b = part.split("-")
            s.update(range(int(a), int(b) + 1))
        else:
            s.add(int(part))
    return s


def lines_for(groups, prefix, syntax):
    out = []
    for i, g in enumerate(groups):
        if syntax == "cisco-add" and i > 0:
            out.append("%s add %s" % (prefix, fmt_ranges(g, "cisco")))
        else:
            out.append("%s %s" % (prefix, fmt_ranges(g, "cisco" if syntax.startswith("cisco") else "huawei")))
    return out


def splittings(elems, maxlines):
    elems = sorted(elems)
    n = len(elems)
    if n == 0:
        yield []
        return
    for k in range(1, min(maxlines, n) + 1):
        for cuts in itertools.combinations(range(1, n), k - 1):
            b = [0] + list(cuts) + [n]
            yield [elems[b[i]:b[i + 1]] for i in range(k)]


def build_tree(path, lines, neighbours=()):
    from collections import OrderedDict
    root = OrderedDict()
    node = root
    for p in path:
        node[p] = OrderedDict()
        node = node[p]
    for ln in lines:
        node[ln] = OrderedDict()
    for row, ch in neighbours:
        node[row] = OrderedDict((c, OrderedDict()) for c in ch)
    return root


def read_command(cmd, prefix, syntax, neg):
    """-> ('add'|'remove'|'remove_all'|'set'|'none', set) or None when the command is not about this list"""
    syn = "cisco" if syntax.startswith("cisco") else "huawei"
    inst = None
    if prefix.startswith("instance "):
        inst = " ".join(prefix.split()[:2])
    if cmd.startswith(neg + " "):
        body = cmd[len(neg) + 1:]
        if inst and body == inst:
            return ("remove_all", set())
        if not body.startswith(prefix):
            return None
        rest = body[len(prefix):].strip()
        if rest == "all":
            return ("remove_all", set())
        if rest.startswith("remove "):
            rest = rest[7:]
        if rest == "":
            return ("remove_all", set())
        return ("remove", parse_list(rest, syn))
    if not cmd.startswith(prefix):
        return None
    rest = cmd[len(prefix):].strip()
    if rest == "none":
        return ("none", set())
    if rest.startswith("add "):
        return ("add", parse_list(rest[4:], syn))
    if syntax == "cisco-add":
        return ("set", parse_list(rest, syn))
    return ("add", parse_list(rest, syn))


LAG_LINE = "channel-group 1 mode active"


def check_case(kind, old_groups, new_groups, acc, lag=None, spaced=None, neigh=False, acl=False):
    """lag: None | 'leaving' | 'joining' | 'staying' - the port is (also) a member of a port-channel on that side;
    spaced: None | 'old' | 'both' - the device (and the generator) spell the list with a blank after each comma, as some IOS versions print it"""
    from annet.api import _diff_and_patch
    from annet.annlib.netdev.views.hardware import HardwareView
    from annet.vendors import registry_connector
    model, path, prefix, syntax, _ = KINDS[kind]
    hw = HardwareView(model, "")
    v = registry_connector.get().match(hw)
    fmt = v.make_formatter()
    S_old = set(e for g in old_groups for e in g)
    S_new = set(e for g in new_groups for e in g)
    lo, ln = lines_for(old_groups, prefix, syntax), lines_for(new_groups, prefix, syntax)
    if spaced:
        lo = [x.replace(",", ", ") for x in lo]
        if spaced == "both":
            ln = [x.replace(",", ",  ") for x in ln]
        acc.count("lists_spelled_with_blanks", sum(1 for x in lo + ln if ", " in x))
    nb = NEIGHBOURS.get(kind, ()) if neigh else ()
    if nb:
        acc.count("cases_with_rows_of_another_diff_logic_between_rows_of_the_lists_logic")
    old = build_tree(path, lo + ([LAG_LINE] if lag in ("leaving", "staying") else []), nb)
    new = build_tree(path, ln + ([LAG_LINE] if lag in ("joining", "staying") else []), nb)
    w = {"kind": kind, "model": model, "old_groups": old_groups, "new_groups": new_groups, "old_lines": lo, "new_lines": ln, "lag": lag, "spaced": spaced, "neigh": neigh, "acl": acl}
    if lag:
        acc.count("lag_member_cases")
    acl_rules = None
    if acl:
        # the front end always hands an ACL over (here one that lets everything through)
        from annet.annlib.rbparser.acl import compile_acl_text
        acl_rules = compile_acl_text("~ %global", v.NAME)
        acc.count("patches_computed_under_an_acl")
    try:
        _, patch = _diff_and_patch(c01.Dev(hw), old, new, acl_rules, None, False)
        cmds = [p for p in fmt.cmd_paths(patch)]
    except Exception as e:
        acc.violation("C11/%s/exception-%s" % (kind.split("-")[0], type(e).__name__), "patch computation raised on a VLAN list change", dict(w, error=repr(e)[:300]))
        return
    acc.count("patches_simulated")
    multi_line = len(old_groups) >= 2 or len(new_groups) >= 2
    if multi_line:
        acc.count("multi_line_cases")
    acc.case([kind, lo, ln, lag], nontrivial=(S_old != S_new and multi_line))
    S = set(S_old)
    keep = S_old & S_new
    w["commands"] = [list(p) for p in cmds]
    for p in cmds:
        if tuple(p[:-1]) != tuple(path):
            continue
        try:
            act = read_command(p[-1], prefix, syntax, v.reverse)
        except ValueError:
            acc.violation("C11/%s/malformed-command" % kind, "an emitted VLAN command does not hold a well-formed VLAN list", dict(w, command=p[-1]))
            return
        if act is None:
            continue
        acc.count("commands_parsed")
        a, vs = act
        if a == "add":
            S |= vs
        elif a == "remove":
            S -= vs
        elif a in ("remove_all", "none"):
            S = set()
        elif a == "set":
            S = set(vs)
        if not keep <= S:
            mech = "remove-all-shortcut" if a in ("remove_all", "none") else "removes-common-vlans"
            acc.violation("C11/%s/%s" % (kind, mech), "a VLAN present in both the old and the new set is removed (at least transiently) by the emitted commands",
                          dict(w, lost=sorted(keep - S), after_command=p[-1]))
            return
    if S != S_new:
        acc.violation("C11/%s/final-set-wrong" % kind, "executing the emitted add/remove commands on the old VLAN set does not yield the new set",
                      dict(w, got=sorted(S), expected=sorted(S_new)))


def run_kind(spec, acc):
    tier, kind = spec["tier"], spec["kind"]
    maxlines = min(KINDS[kind][4], 2 if tier == "quick" else 4)
    U = U_QUICK if tier == "quick" else U_THOROUGH
    U = UNIVERSE.get(kind, {}).get(tier, U)
    subsets = [[u for i, u in enumerate(U) if m >> i & 1] for m in range(1 << len(U))]
    rng = random.Random("C11/%s/%s/%s" % (spec["seed"], kind, spec["shard"]))
    i = 0
    for so in subsets:
        for sn in subsets:
            i += 1
            if i % spec["nshards"] != spec["shard"]:
                continue
            sp_o, sp_n = list(splittings(so, maxlines)), list(splittings(sn, maxlines))
            combos = [(a, b) for a in sp_o for b in sp_n]
            if tier == "thorough" and len(combos) > 4:
                combos = rng.sample(combos, 4)
            for a, b in combos:
                check_case(kind, a, b, acc)
                # (NX-OS keeps switchport lines on port-channel members; the Catalyst logic drops them by design: members inherit them)
                if KINDS[kind][3].startswith("cisco") and i % 3 == 1:
                    check_case(kind, a, b, acc, spaced=("old", "both")[(i // 3) % 2])
                if i % 4 == 1:
                    check_case(kind, a, b, acc, acl=True)
                if kind in NEIGHBOURS and i % 3 == 2:
                    check_case(kind, a, b, acc, neigh=True)
                if kind == "nexus-swtrunk" and i % 2 == 0:
                    check_case(kind, a, b, acc, lag=("leaving", "joining", "staying")[(i // 2) % 3])
    # random large sets with chunking (>10 / >5 / >15 ranges per command)
    for _ in range(40 if tier == "quick" else 1500):
        n1, n2 = rng.randint(0, 60), rng.randint(0, 60)
        base = rng.sample(range(1, 4095), 80)
        so = sorted(set(rng.sample(base, min(n1, 80)) + [x + 1 for x in rng.sample(base, 10)]))
        sn = sorted(set(rng.sample(base, min(n2, 80)) + [x + 1 for x in rng.sample(base, 10) if x < 4094]))
        so = [x for x in so if x <= 4094]
        if _ % 4 == 1:
            # ranges whose bounds have a different number of digits (`8 to 12`, `95 to 105`, `995 to 1003`), one end moving
            lo_, hi_ = rng.choice([(8, 12), (95, 105), (995, 1003), (5, 21), (98, 101)])
            so = sorted(set(so) | set(range(lo_, hi_ + 1)))
            sn = sorted(set(sn) | set(range(lo_, hi_ + 1 - rng.choice([1, 2]))))
            acc.count("cases_with_a_range_across_a_power_of_ten")
        if _ % 4 == 3:
            so = []        # the port (or the device) had no list at all: every range of a long first list must survive the later commands
            acc.count("long_first_lists", 1 if len(ranges(sn)) > 5 else 0)
        sp = lambda s: [s] if KINDS[kind][4] == 1 or len(s) < 4 else [s[:len(s) // 3], s[len(s) // 3: 2 * len(s) // 3], s[2 * len(s) // 3:]]
        check_case(kind, [g for g in sp(so) if g], [g for g in sp(sn) if g], acc)
        acc.count("random_large_cases")
    acc.sample({"kind": kind, "universe": U, "example_old_lines": lines_for([[2, 3], [7]], KINDS[kind][2], KINDS[kind][3])})


# ---- VLAN lists together with per-VLAN blocks --------------------------------------------------------------
BLOCK_KINDS = {
    # kind: (model, list prefix, syntax, negation word)
    "huawei-batch+blocks": ("Huawei CE6870", "vlan batch", "huawei"),
    "huawei-quidway-batch+blocks": ("Huawei Quidway S5300", "vlan batch", "huawei"),
    "cisco-catalyst-vlan+blocks": ("Cisco Catalyst 2960", "vlan", "cisco"),
    "nexus-vlan+blocks": ("Cisco Nexus 9316", "vlan", "cisco"),
}


def gen_side(rng, kind, U):
    """-> (groups of the list lines, {vlan: [child rows]})"""
    syntax = BLOCK_KINDS[kind][2]
    listed = sorted(u for u in U if rng.random() < 0.5)
    blocks = {}
    for u in rng.sample(U, rng.randint(0, 2)):
        ch = ["name v%d%s" % (u, rng.choice(["", "x"]))]
        if syntax == "huawei" and rng.random() < 0.25:
            ch = []  # a bare `vlan N` line
        blocks[u] = ch
    if "catalyst" in kind:
        listed = [u for u in listed if u not in blocks]  # Catalysts do not repeat in the list the VLANs that have a block of their own
    else:
        listed = sorted(set(listed) | set(blocks))       # Huawei / Nexus print every VLAN in the list, and a block for those with options
    sp = list(splittings(listed, 2 if syntax == "cisco" else 3))
    groups = rng.choice(sp) if sp else []
    return groups, blocks


def no_row_collision(side, syntax, other_blocks=()):
    """a list line holding exactly one VLAN that also has a block would be the same row as the block header (`vlan 4`): merge such a
    group into a neighbour, or drop the block when it is the only group"""
    groups, blocks = [list(g) for g in side[0]], dict(side[1])
    if syntax != "cisco":
        return groups, blocks
    changed = True
    while changed:
        changed = False
        for i, g in enumerate(groups):
            if len(g) == 1 and (g[0] in blocks or g[0] in other_blocks):
                if len(groups) > 1:
                    j = i - 1 if i > 0 else i + 1
                    groups[j] = sorted(groups[j] + g)
                    del groups[i]
                elif g[0] in blocks and g[0] not in other_blocks:
                    del blocks[g[0]]
                else:
                    return None
                changed = True
                break
    return groups, blocks


def check_blocks_case(kind, old_side, new_side, acc):
    """effective VLAN set = VLANs of the list lines + VLANs with a block; fold the emitted commands over it"""
    from annet.api import _diff_and_patch
    from annet.annlib.netdev.views.hardware import HardwareView
    from annet.vendors import registry_connector
    model, prefix, syntax = BLOCK_KINDS[kind]
    hw = HardwareView(model, "")
    v = registry_connector.get().match(hw)
    fmt = v.make_formatter()
    neg = v.reverse

    def tree(side):
        groups, blocks = side
        t = odict()
        for ln in lines_for(groups, prefix, syntax):
            t[ln] = odict()
        for n in sorted(blocks):
            t["vlan %d" % n] = odict((c, odict()) for c in blocks[n])
        return t

    def eff(side):
        return set(e for g in side[0] for e in g) | set(side[1])
    S_old, S_new = eff(old_side), eff(new_side)
    w = {"blocks": True, "kind": kind, "model": model, "old_side": [old_side[0], {str(k): v_ for k, v_ in old_side[1].items()}],
         "new_side": [new_side[0], {str(k): v_ for k, v_ in new_side[1].items()}], "old_lines": list(tree(old_side)), "new_lines": list(tree(new_side))}
    try:
        _, patch = _diff_and_patch(c01.Dev(hw), tree(old_side), tree(new_side), None, None, False)
        cmds = [tuple(p) for p in fmt.cmd_paths(patch)]
    except Exception as e:
        acc.violation("C11/%s/exception-%s" % (kind, type(e).__name__), "patch computation raised on a VLAN list change", dict(w, error=repr(e)[:300]))
        return
    acc.count("patches_simulated")
    acc.count("block_cases")
    if old_side[1] != new_side[1]:
        acc.count("block_cases_with_changed_blocks")
    acc.case([kind, w["old_side"], w["new_side"]], nontrivial=(S_old != S_new or old_side[1] != new_side[1]))
    w["commands"] = [list(p) for p in cmds]
    S = set(S_old)
    children = {n: list(ch) for n, ch in old_side[1].items()}
    keep = S_old & S_new
    syn = "cisco" if syntax == "cisco" else "huawei"
    for p in cmds:
        cmd = p[-1]
        if len(p) == 1:
            m_blk = re.fullmatch(r"vlan (\d+)", cmd)
            m_unblk = re.fullmatch(re.escape(neg) + r" vlan (\d+)", cmd)
            act = None
            if syntax == "huawei" and m_blk:
                act = ("add", {int(m_blk.group(1))})
            elif syntax == "huawei" and m_unblk:
                act = ("remove", {int(m_unblk.group(1))})
            else:
                try:
                    act = read_command(cmd, prefix, syntax, neg)
                except ValueError:
                    acc.violation("C11/%s/malformed-command" % kind, "an emitted VLAN command does not hold a well-formed VLAN list", dict(w, command=cmd))
                    return
            if act is None:
                continue
            acc.count("commands_parsed")
            a, vs = act
            if a == "add":
                S |= vs
            elif a == "remove":
                S -= vs
                for n in vs:
                    children.pop(n, None)
            elif a in ("remove_all", "none"):
                S = set()
                children = {}
            if not keep <= S:
                acc.violation("C11/%s/removes-common-vlans" % kind, "a VLAN present in both the old and the new set is removed (at least transiently) by the emitted commands",
                              dict(w, lost=sorted(keep - S), after_command=cmd))
                return
        elif len(p) == 2 and re.fullmatch(r"vlan \d+", p[0]):
            n = int(p[0].split()[1])
            if cmd in (v.exit,):
                continue
            cur = children.setdefault(n, [])
            if cmd.startswith(neg + " "):
                word = cmd[len(neg) + 1:].split()[0]
                cur[:] = [c for c in cur if c.split()[0] != word]
            else:
                cur[:] = [c for c in cur if c.split()[0] != cmd.split()[0]] + [cmd]
    if S != S_new:
        acc.violation("C11/%s/final-set-wrong" % kind, "executing the emitted add/remove commands on the old VLAN set does not yield the new set",
                      dict(w, got=sorted(S), expected=sorted(S_new)))
        return
    for n in sorted(S_new):
        want = new_side[1].get(n, [])
        if sorted(children.get(n, [])) != sorted(want):
            acc.violation("C11/%s/vlan-block-content-wrong" % kind, "after the patch a VLAN's own block does not hold the desired lines",
                          dict(w, vlan=n, got=children.get(n, []), expected=want))
            return


def run_blocks(spec, acc):
    kind, tier = spec["kind"], spec["tier"]
    rng = random.Random("C11/blocks/%s/%s/%s" % (spec["seed"], kind, spec["shard"]))
    U = U_QUICK
    for j in range((4000 if tier == "quick" else 120000) // spec["nshards"]):
        o = gen_side(rng, kind, U)
        if rng.random() < 0.5:
            # derived: move VLANs between the list and blocks, drop / add a few
            groups, blocks = [list(g) for g in o[0]], {k: list(v) for k, v in o[1].items()}
            n = gen_side(rng, kind, U)
            keepb = {k: v for k, v in blocks.items() if rng.random() < 0.5}
            n = (n[0], {**n[1], **keepb})
            if "catalyst" in kind:
                n = ([[e for e in g if e not in n[1]] for g in n[0]], n[1])
                n = ([g for g in n[0] if g], n[1])
            else:
                missing = sorted(set(n[1]) - set(e for g in n[0] for e in g))
                if missing:
                    n = (n[0] + [missing], n[1])
        else:
            n = gen_side(rng, kind, U)
        syn = BLOCK_KINDS[kind][2]
        o2 = no_row_collision(o, syn, n[1])
        n2 = no_row_collision(n, syn, (o2 or o)[1])
        o2 = o2 and n2 and no_row_collision(o2, syn, n2[1])
        if not o2 or not n2:
            acc.count("block_cases_skipped_row_collision")
            continue
        check_blocks_case(kind, o2, n2, acc)
    acc.sample({"kind": kind, "example": gen_side(rng, kind, U)[0]})


def run_helpers(spec, acc):
    from annet.annlib import lib
    rng = random.Random("C11/helpers/%s" % spec["seed"])
    n = 2500 if spec["tier"] == "quick" else 60000
    for j in range(n):
        k = rng.randint(1, 40)
        S = set(rng.sample(range(1, 4095), k)) | {x + 1 for x in rng.sample(range(1, 4094), rng.randint(0, 10))}
        acc.count("helper_roundtrips")
        acc.case(["helpers", sorted(S)], nontrivial=len(S) >= 2)
        for name, col, exp, join in (("huawei", lib.huawei_collapse_vlandb, lib.huawei_expand_vlandb, " "),
                                     ("cisco", lib.cisco_collapse_vlandb, lib.cisco_expand_vlandb, ","),
                                     ("cisco-notiny", lambda s: lib.cisco_collapse_vlandb(s, False), lib.cisco_expand_vlandb, ",")):
            try:
                text = join.join(col(S))
                back = exp(text)
                mine = parse_list(text, "huawei" if name == "huawei" else "cisco")
            except Exception as e:
                acc.violation("C11/helpers/%s-exception" % name, "collapse/expand raised", {"helpers": True, "set": sorted(S), "error": repr(e)[:200]})
                continue
            if back != S or mine != S:
                acc.violation("C11/helpers/%s-roundtrip" % name, "expanding a collapsed range list does not give back the original set",
                              {"helpers": True, "set": sorted(S), "text": text, "expanded": sorted(back), "read_by_reference": sorted(mine)})
        # chunked collapse
        for cl in (3, 10):
            chunks = lib.huawei_collapse_vlandb(S, cl)
            flat = set()
            for ch in chunks:
                flat |= parse_list(" ".join(ch), "huawei")
                if len(ch) > cl:
                    acc.violation("C11/helpers/chunk-too-long", "a chunk holds more ranges than asked", {"helpers": True, "set": sorted(S)})
            if flat != S:
                acc.violation("C11/helpers/chunked-roundtrip", "chunked collapse loses or invents VLANs", {"helpers": True, "set": sorted(S), "chunks": chunks})


def run_shard(spec, acc):
    if spec["mode"] == "replay":
        w = spec["witness"]
        if w.get("helpers"):
            return run_helpers({"tier": "quick", "seed": 0}, acc)
        if w.get("blocks"):
            back = lambda side: (side[0], {int(k): v for k, v in side[1].items()})
            check_blocks_case(w["kind"], back(w["old_side"]), back(w["new_side"]), acc)
            return
        check_case(w["kind"], w["old_groups"], w["new_groups"], acc, lag=w.get("lag"), spaced=w.get("spaced"), neigh=bool(w.get("neigh")), acl=bool(w.get("acl")))
        return
    if spec["mode"] == "blocks":
        return run_blocks(spec, acc)
    if spec["mode"] == "helpers":
        return run_helpers(spec, acc)
    run_kind(spec, acc)
