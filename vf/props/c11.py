"""C11 - VLAN-list commands change exactly the VLANs that differ.

The real _diff_and_patch runs over the SHIPPED huawei / cisco / nexus rulebooks on a block holding the VLAN lines; the
emitted command rows are parsed by an independent reader (own range syntax parsers) into add / remove / remove-all /
set-none actions and folded over S_old: the final set must be S_new and every intermediate set must contain
S_old & S_new. Also expand(collapse(S)) == S for the helpers.
"""
import itertools
import random
import re
from collections import OrderedDict as odict

from vf.props import c01

LEVEL = "exploration"
RULE = ("exhaustive over all ordered pairs (S_old, S_new) of subsets of a 5-element (quick) / 8-element (thorough) universe chosen to create ranges, x splittings of each "
        "set's sorted elements into 1-2 (quick) / 1-4 (thorough, sampled) consecutive groups = config lines, for the rule kinds huawei multi (vlan batch), multi_all "
        "(trunk allow-pass, hybrid tagged/untagged), single (stp instance), cisco/nexus simple (vlan) and swtrunk (allowed vlan / allowed vlan add); plus random sets over 1..4094 "
        "with chunking. Non-trivial: the sets differ and at least one side spans >=2 lines. Distinct: hash of (kind, model, old lines, new lines).")
ASSUMPTIONS = [
    "device semantics of the emitted commands: '<prefix> LIST' / '... add LIST' adds, 'undo <prefix> LIST' / 'no <prefix> [remove] LIST' removes, '... all' removes everything, '... none' empties; a bare 'switchport trunk allowed vlan LIST' replaces the list",
    "lines of one list hold disjoint groups of the sorted set (the canonical way devices print long lists)",
]
EXHAUSTIVE = {"quick": True, "thorough": False}
FLOORS = {"quick": {"patches_simulated": 20000, "commands_parsed": 20000, "multi_line_cases": 10000, "helper_roundtrips": 2000},
          "thorough": {"patches_simulated": 600000, "commands_parsed": 600000, "multi_line_cases": 300000, "helper_roundtrips": 50000}}
U_QUICK = [2, 3, 4, 7, 8]
U_THOROUGH = [2, 3, 4, 7, 8, 10, 11, 20]

KINDS = {
    # kind: (model, block path, line prefix, syntax, max lines per list)
    "huawei-multi": ("Huawei CE6870", (), "vlan batch", "huawei", 4),
    "huawei-multi_all-trunk": ("Huawei CE6870", ("interface 10GE1/0/1",), "port trunk allow-pass vlan", "huawei", 4),
    "huawei-multi_all-tagged": ("Huawei Quidway S5300", ("interface GigabitEthernet0/0/1",), "port hybrid tagged vlan", "huawei", 4),
    "huawei-multi_all-untagged": ("Huawei", ("interface GigabitEthernet0/0/1",), "port hybrid untagged vlan", "huawei", 4),
    "huawei-single": ("Huawei CE6870", ("stp region-configuration",), "instance 1 vlan", "huawei", 1),
    "cisco-simple": ("Cisco Catalyst 2960", (), "vlan", "cisco", 4),
    "nexus-simple": ("Cisco Nexus 9316", (), "vlan", "cisco", 4),
    "cisco-swtrunk": ("Cisco Catalyst 2960", ("interface GigabitEthernet0/1",), "switchport trunk allowed vlan", "cisco-add", 4),
    "nexus-swtrunk": ("Cisco Nexus 9316", ("interface Ethernet1/1",), "switchport trunk allowed vlan", "cisco-add", 4),
}


def plan(tier, seed):
    specs = []
    per = 2 if tier == "quick" else 4
    for kind in KINDS:
        for k in range(per):
            specs.append({"mode": "kind", "tier": tier, "seed": seed, "kind": kind, "shard": k, "nshards": per})
    specs.append({"mode": "helpers", "tier": tier, "seed": seed})
    return specs


# ---- own range syntax ------------------------------------------------------------------------------
def ranges(elems):
    out = []
    for e in sorted(elems):
        if out and out[-1][1] == e - 1:
            out[-1][1] = e
        else:
            out.append([e, e])
    return out


def fmt_ranges(elems, syntax):
    rs = ranges(elems)
    if syntax == "huawei":
        return " ".join("%d" % a if a == b else "%d to %d" % (a, b) for a, b in rs)
    return ",".join("%d" % a if a == b else "%d-%d" % (a, b) for a, b in rs)


def parse_list(text, syntax):
    s = set()
    if syntax == "huawei":
        toks = text.split()
        i = 0
        while i < len(toks):
            if i + 2 < len(toks) and toks[i + 1] == "to":
                s.update(range(int(toks[i]), int(toks[i + 2]) + 1))
                i += 3
            else:
                s.add(int(toks[i]))
                i += 1
        return s
    for part in text.replace(" ", "").split(","):
        if "-" in part:
            a, b = part.split("-")
            s.update(range(int(a), int(b) + 1))
        else:
            s.add(int(part))
    return s


def lines_for(groups, prefix, syntax):
    out = []
    for i, g in enumerate(groups):
        if syntax == "cisco-add" and i > 0:
            out.append("%s add %s" % (prefix, fmt_ranges(g, "cisco")))
        else:
            out.append("%s %s" % (prefix, fmt_ranges(g, "cisco" if syntax.startswith("cisco") else "huawei")))
    return out


def splittings(elems, maxlines):
    elems = sorted(elems)
    n = len(elems)
    if n == 0:
        yield []
        return
    for k in range(1, min(maxlines, n) + 1):
        for cuts in itertools.combinations(range(1, n), k - 1):
            b = [0] + list(cuts) + [n]
            yield [elems[b[i]:b[i + 1]] for i in range(k)]


def build_tree(path, lines):
    from collections import OrderedDict
    root = OrderedDict()
    node = root
    for p in path:
        node[p] = OrderedDict()
        node = node[p]
    for ln in lines:
        node[ln] = OrderedDict()
    return root


def read_command(cmd, prefix, syntax, neg):
    """-> ('add'|'remove'|'remove_all'|'set'|'none', set) or None when the command is not about this list"""
    syn = "cisco" if syntax.startswith("cisco") else "huawei"
    inst = None
    if prefix.startswith("instance "):
        inst = " ".join(prefix.split()[:2])
    if cmd.startswith(neg + " "):
        body = cmd[len(neg) + 1:]
        if inst and body == inst:
            return ("remove_all", set())
        if not body.startswith(prefix):
            return None
        rest = body[len(prefix):].strip()
        if rest == "all":
            return ("remove_all", set())
        if rest.startswith("remove "):
            rest = rest[7:]
        if rest == "":
            return ("remove_all", set())
        return ("remove", parse_list(rest, syn))
    if not cmd.startswith(prefix):
        return None
    rest = cmd[len(prefix):].strip()
    if rest == "none":
        return ("none", set())
    if rest.startswith("add "):
        return ("add", parse_list(rest[4:], syn))
    if syntax == "cisco-add":
        return ("set", parse_list(rest, syn))
    return ("add", parse_list(rest, syn))


def check_case(kind, old_groups, new_groups, acc):
    from annet.api import _diff_and_patch
    from annet.annlib.netdev.views.hardware import HardwareView
    from annet.vendors import registry_connector
    model, path, prefix, syntax, _ = KINDS[kind]
    hw = HardwareView(model, "")
    v = registry_connector.get().match(hw)
    fmt = v.make_formatter()
    S_old = set(e for g in old_groups for e in g)
    S_new = set(e for g in new_groups for e in g)
    lo, ln = lines_for(old_groups, prefix, syntax), lines_for(new_groups, prefix, syntax)
    old, new = build_tree(path, lo), build_tree(path, ln)
    w = {"kind": kind, "model": model, "old_groups": old_groups, "new_groups": new_groups, "old_lines": lo, "new_lines": ln}
    try:
        _, patch = _diff_and_patch(c01.Dev(hw), old, new, None, None, False)
        cmds = [p for p in fmt.cmd_paths(patch)]
    except Exception as e:
        acc.violation("C11/%s/exception-%s" % (kind.split("-")[0], type(e).__name__), "patch computation raised on a VLAN list change", dict(w, error=repr(e)[:300]))
        return
    acc.count("patches_simulated")
    multi_line = len(old_groups) >= 2 or len(new_groups) >= 2
    if multi_line:
        acc.count("multi_line_cases")
    acc.case([kind, lo, ln], nontrivial=(S_old != S_new and multi_line))
    S = set(S_old)
    keep = S_old & S_new
    w["commands"] = [list(p) for p in cmds]
    for p in cmds:
        if tuple(p[:-1]) != tuple(path):
            continue
        act = read_command(p[-1], prefix, syntax, v.reverse)
        if act is None:
            continue
        acc.count("commands_parsed")
        a, vs = act
        if a == "add":
            S |= vs
        elif a == "remove":
            S -= vs
        elif a in ("remove_all", "none"):
            S = set()
        elif a == "set":
            S = set(vs)
        if not keep <= S:
            mech = "remove-all-shortcut" if a in ("remove_all", "none") else "removes-common-vlans"
            acc.violation("C11/%s/%s" % (kind, mech), "a VLAN present in both the old and the new set is removed (at least transiently) by the emitted commands",
                          dict(w, lost=sorted(keep - S), after_command=p[-1]))
            return
    if S != S_new:
        acc.violation("C11/%s/final-set-wrong" % kind, "executing the emitted add/remove commands on the old VLAN set does not yield the new set",
                      dict(w, got=sorted(S), expected=sorted(S_new)))


def run_kind(spec, acc):
    tier, kind = spec["tier"], spec["kind"]
    maxlines = min(KINDS[kind][4], 2 if tier == "quick" else 4)
    U = U_QUICK if tier == "quick" else U_THOROUGH
    subsets = [[u for i, u in enumerate(U) if m >> i & 1] for m in range(1 << len(U))]
    rng = random.Random("C11/%s/%s/%s" % (spec["seed"], kind, spec["shard"]))
    i = 0
    for so in subsets:
        for sn in subsets:
            i += 1
            if i % spec["nshards"] != spec["shard"]:
                continue
            sp_o, sp_n = list(splittings(so, maxlines)), list(splittings(sn, maxlines))
            combos = [(a, b) for a in sp_o for b in sp_n]
            if tier == "thorough" and len(combos) > 4:
                combos = rng.sample(combos, 4)
            for a, b in combos:
                check_case(kind, a, b, acc)
    # random large sets with chunking (>10 / >5 / >15 ranges per command)
    for _ in range(40 if tier == "quick" else 1500):
        n1, n2 = rng.randint(0, 60), rng.randint(0, 60)
        base = rng.sample(range(1, 4095), 80)
        so = sorted(set(rng.sample(base, min(n1, 80)) + [x + 1 for x in rng.sample(base, 10)]))
        sn = sorted(set(rng.sample(base, min(n2, 80)) + [x + 1 for x in rng.sample(base, 10) if x < 4094]))
        so = [x for x in so if x <= 4094]
        sp = lambda s: [s] if KINDS[kind][4] == 1 or len(s) < 4 else [s[:len(s) // 3], s[len(s) // 3: 2 * len(s) // 3], s[2 * len(s) // 3:]]
        check_case(kind, [g for g in sp(so) if g], [g for g in sp(sn) if g], acc)
        acc.count("random_large_cases")
    acc.sample({"kind": kind, "universe": U, "example_old_lines": lines_for([[2, 3], [7]], KINDS[kind][2], KINDS[kind][3])})


def run_helpers(spec, acc):
    from annet.annlib import lib
    rng = random.Random("C11/helpers/%s" % spec["seed"])
    n = 2500 if spec["tier"] == "quick" else 60000
    for j in range(n):
        k = rng.randint(1, 40)
        S = set(rng.sample(range(1, 4095), k)) | {x + 1 for x in rng.sample(range(1, 4094), rng.randint(0, 10))}
        acc.count("helper_roundtrips")
        acc.case(["helpers", sorted(S)], nontrivial=len(S) >= 2)
        for name, col, exp, join in (("huawei", lib.huawei_collapse_vlandb, lib.huawei_expand_vlandb, " "),
                                     ("cisco", lib.cisco_collapse_vlandb, lib.cisco_expand_vlandb, ","),
                                     ("cisco-notiny", lambda s: lib.cisco_collapse_vlandb(s, False), lib.cisco_expand_vlandb, ",")):
            try:
                text = join.join(col(S))
                back = exp(text)
                mine = parse_list(text, "huawei" if name == "huawei" else "cisco")
            except Exception as e:
                acc.violation("C11/helpers/%s-exception" % name, "collapse/expand raised", {"helpers": True, "set": sorted(S), "error": repr(e)[:200]})
                continue
            if back != S or mine != S:
                acc.violation("C11/helpers/%s-roundtrip" % name, "expanding a collapsed range list does not give back the original set",
                              {"helpers": True, "set": sorted(S), "text": text, "expanded": sorted(back), "read_by_reference": sorted(mine)})
        # chunked collapse
        for cl in (3, 10):
            chunks = lib.huawei_collapse_vlandb(S, cl)
            flat = set()
            for ch in chunks:
                flat |= parse_list(" ".join(ch), "huawei")
                if len(ch) > cl:
                    acc.violation("C11/helpers/chunk-too-long", "a chunk holds more ranges than asked", {"helpers": True, "set": sorted(S)})
            if flat != S:
                acc.violation("C11/helpers/chunked-roundtrip", "chunked collapse loses or invents VLANs", {"helpers": True, "set": sorted(S), "chunks": chunks})


def run_shard(spec, acc):
    if spec["mode"] == "replay":
        w = spec["witness"]
        if w.get("helpers"):
            return run_helpers({"tier": "quick", "seed": 0}, acc)
        check_case(w["kind"], w["old_groups"], w["new_groups"], acc)
        return
    if spec["mode"] == "helpers":
        return run_helpers(spec, acc)
    run_kind(spec, acc)
