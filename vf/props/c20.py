"""C20 - results are independent of processing history; inputs are left unmodified.

Differential monitor: every job (hardware, old, new, optional ACL) is computed (i) alone in a fresh interpreter and
(ii) at some position of a sequence of jobs inside one process (other vendors, other hardware of the same vendor, the
same job again, shared compiled ACL objects); the canonical results must be equal. Snapshot monitors: deep, order-aware
snapshots of old, new and a structural signature of the compiled rulebook before each call == after it.
"""
import hashlib
import json
import os
import random
import re
import subprocess
import sys
import concurrent.futures as cf

from vf.util import plain, unplain
from vf.props import c01

LEVEL = "exploration"
RULE = ("jobs = fixture corpus pairs x (stub hardware + hardware families of the same vendor the templates branch on) + hand-written pairs exercising the "
        "rule-mutating logics (huawei bgp undo_commit, cisco ssh_key, arista default_instead_undo on several keys) + variants with a compiled ACL; sequences of "
        "8-16 jobs drawn so that they contain >=2 vendors, two hardware families of one vendor and a repeated job. Each job's result = (diff entries, ordered "
        "command paths, order_config(new)). Non-trivial: the sequence position is >=1 and the job has a non-empty patch. Distinct: hash of (job, history before it).")
ASSUMPTIONS = [
    "PYTHONHASHSEED is fixed (0) in both the sequence process and the fresh baseline process",
    "for compiled ACLs only result equality under reuse is required (matching overwrites their scratch 'match' field)",
]
FLOORS = {"quick": {"jobs_in_sequences": 60, "fresh_baselines": 30, "snapshots_compared": 180, "repeated_jobs": 6, "same_vendor_other_hw": 6, "acl_jobs": 6, "rule_mutating_logic_jobs": 4, "nested_dropped_row_jobs": 8, "reference_tracker_jobs": 6, "shared_compiled_acl_jobs": 36, "overlay_provider_jobs": 30, "reference_tracker_jobs_with_a_silent_generator": 6, "collecting_logic_pair_jobs": 12, "collecting_logic_jobs_refused": 6, "jobs_with_a_software_release": 40, "jobs_with_one_deep_acl_text_for_several_vendors": 20, "jobs_with_rows_matched_by_two_ordering_rules": 12, "overlay_providers_with_a_lazy_directory_list": 4, "jobs_of_a_vendor_that_borrows_another_vendors_rule_text": 16, "port_channel_member_jobs_around_other_vendors_of_the_family": 16},
          "thorough": {"jobs_in_sequences": 2500, "fresh_baselines": 400, "snapshots_compared": 7500, "repeated_jobs": 200, "same_vendor_other_hw": 200, "acl_jobs": 200}}
NPROC = {"quick": 8, "thorough": 16}
FAMILIES = {"huawei": ["Huawei", "Huawei CE6870", "Huawei NE40E-X8", "Huawei Quidway S5300"], "huawei ce": ["Huawei CE0000", "Huawei NE40E-X8", "Huawei Quidway S5700"],
            "cisco": ["Cisco Catalyst", "Cisco Catalyst 2960"], "nexus": ["Cisco Nexus", "Cisco Nexus 3432"], "asr": ["Cisco ASR", "Cisco XRv"], "iosxr": ["Cisco XR", "Cisco ASR 9010"]}
HAND = [
    {"kind": "hand", "model": "Huawei CE6870", "old": "bgp 100\n peer 1.1.1.1 as-number 1\n", "new": ""},
    {"kind": "hand", "model": "Huawei CE6870", "old": "", "new": "bgp 200\n peer 2.2.2.2 as-number 2\n"},
    {"kind": "hand", "model": "Huawei NE40E-X8", "old": "bgp 100\n peer 1.1.1.1 as-number 1\n", "new": "bgp 200\n peer 2.2.2.2 as-number 2\n"},
    {"kind": "hand", "model": "Cisco Catalyst 2960", "old": "", "new": "ip ssh version 2\nhostname a\n"},
    {"kind": "hand", "model": "Cisco Catalyst", "old": "ip ssh version 2\n", "new": "hostname b\n"},
    {"kind": "hand", "model": "Arista", "old": "ip load-sharing trident fields ip\nip load-sharing trident fields ipv6\n", "new": "ip load-sharing trident fields mac\n"},
    {"kind": "hand", "model": "Arista", "old": "", "new": "ip load-sharing trident fields ip\n"},
    {"kind": "hand", "model": "Huawei Quidway S5700", "old": "interface GE1/0/1\n trust dscp\n stp edged-port enable\n", "new": "interface GE1/0/1\n trust 8021p\n"},
    {"kind": "hand", "model": "Huawei CE6870", "old": "interface 10GE1/0/1\n trust dscp\n stp edged-port enable\n", "new": "interface 10GE1/0/1\n trust 8021p\n"},
    {"kind": "hand", "model": "Huawei NE40E-X8", "old": "interface GE1/0/1\n trust dscp\n stp edged-port enable\n", "new": "interface GE1/0/1\n trust 8021p\n"},
]

# rows below the top level that rule matching drops from its working copy (ignored / unknown to the rulebook) or that a
# vendor diff logic filters (LAG members): a diff that works on the caller's own sub-trees shows up only on these
NESTED = [
    {"kind": "hand", "model": "Cisco Catalyst", "old": "interface GigabitEthernet1\n no ip address\n description a\n", "new": "interface GigabitEthernet1\n no ip address\n description b\n"},
    {"kind": "hand", "model": "Arista", "old": "router bgp 1\n no neighbor 1.1.1.1 shutdown\n neighbor 1.1.1.1 remote-as 2\n", "new": "router bgp 1\n no neighbor 1.1.1.1 shutdown\n neighbor 1.1.1.1 remote-as 3\n"},
    {"kind": "hand", "model": "Cisco Nexus", "old": "interface Ethernet1/1\n channel-group 1 mode active\n mtu 9000\ninterface port-channel1\n mtu 9000\n",
     "new": "interface Ethernet1/1\n channel-group 1 mode active\n mtu 9100\ninterface port-channel1\n mtu 9100\n"},
    {"kind": "hand", "model": "Huawei OptiXtrans", "old": "foo bar\n baz qux\n  deep er\n", "new": "foo bar\n baz qux\n  deep er\n quux 1\n"},
    {"kind": "hand", "model": "B4com", "old": "foo bar\n baz qux\n", "new": "foo bar\n baz quz\n"},
]

# vendors that no corpus sample covers: H3C takes another vendor's rule text (an alias) and has no ordering text of its own
ALIAS_JOBS = [
    {"kind": "hand", "model": "H3C", "old": "", "new": "bgp 200\n peer 2.2.2.2 as-number 2\nvlan batch 10 20\ninterface GE1/0/1\n port link-type trunk\n port trunk allow-pass vlan 10\nsysname a\n"},
    {"kind": "hand", "model": "H3C S6850", "old": "interface GE1/0/1\n port link-type trunk\n description a\nvlan batch 10\nntp-service unicast-server 1.1.1.1\n",
     "new": "interface GE1/0/1\n description b\nvlan batch 20\nntp-service unicast-server 2.2.2.2\nsysname b\n"},
    {"kind": "hand", "model": "H3C", "old": "sysname a\nacl number 3000\n rule 5 permit ip\n", "new": "sysname b\nacl number 3000\n rule 5 deny ip\ninterface GE1/0/2\n description x\n"},
    {"kind": "hand", "model": "Nokia", "old": "system {\n    name \"a\"\n}\n", "new": "system {\n    name \"b\"\n    location \"x\"\n}\n"},
    {"kind": "hand", "model": "Ribbon", "old": "system {\n    host-name a;\n}\n", "new": "system {\n    host-name b;\n    location x;\n}\n"},
]

# vendor logic modules that are loaded when the first rulebook naming them is compiled and that borrow from each other (cisco <- nexus, iosxr, b4com, arista):
# a port-channel member whose own speed / storm-control / sflow lines change, before and after the other vendors' first jobs
MEMBER_JOBS = [
    {"kind": "hand", "model": "Cisco Catalyst 2960", "old": "interface GigabitEthernet0/1\n channel-group 1 mode active\n speed 1000\n storm-control broadcast level 1.00\n mtu 9000\ninterface Port-channel1\n mtu 9000\n",
     "new": "interface GigabitEthernet0/1\n channel-group 1 mode active\n speed 10000\n storm-control broadcast level 2.00\n sflow enable\n mtu 9000\ninterface Port-channel1\n mtu 9000\n"},
    {"kind": "hand", "model": "Cisco ASR 9010", "old": "interface TenGigE0/0/0/1\n bundle id 1 mode active\n channel-group 1 mode active\n speed 1000\n lldp-agent x\n",
     "new": "interface TenGigE0/0/0/1\n bundle id 1 mode active\n channel-group 1 mode active\n speed 10000\n lldp-agent y\n"},
]
OTHER_FAMILY_JOBS = [
    {"kind": "hand", "model": "B4com", "old": "interface xe1\n speed 1000\n", "new": "interface xe1\n speed 10000\n description a\n"},
    {"kind": "hand", "model": "Cisco Nexus 9316", "old": "interface Ethernet1/1\n mtu 9000\n", "new": "interface Ethernet1/1\n mtu 9100\n"},
    {"kind": "hand", "model": "Arista", "old": "interface Ethernet1\n mtu 9000\n", "new": "interface Ethernet1\n mtu 9100\n"},
]

# jobs sharing ONE compiled ACL object (compile_acl_text is cached per text): job A has a row matched by two ACL rules whose
# children carry the same child rule with different flags (matching merges them), job B a row matched by one of them only
SHARED_ACL = "interface */Ethernet\\S+/  %cant_delete=1\n    mtu *  %cant_delete=1\n    description ~\ninterface */\\S+\\.\\d+/  %cant_delete=1\n    mtu *  %cant_delete=0\n    description ~ %cant_delete=1\n"
ACL_PAIRS = [
    [{"kind": "hand", "model": m, "old": "interface Ethernet1.100\n mtu 9000\n description a\n", "new": "interface Ethernet1.100\n", "acl": SHARED_ACL},
     {"kind": "hand", "model": m, "old": "interface Ethernet1\n mtu 9000\n description a\n", "new": "interface Ethernet1\n", "acl": SHARED_ACL}]
    for m in ("Cisco Catalyst 2960", "Arista", "Cisco Nexus")
]
# two overlapping rules of nearly equal specificity with different flags; job A's configuration reaches the broader rule first
# through its negated form (an `undo ...` / `no ...` row), job B's removal is governed by the narrower, deletable rule
ACL_PAIRS += [
    [{"kind": "hand", "model": "Huawei CE6870", "old": "undo snmp-agent protocol source-status all-interface\nsnmp-agent\nsnmp-agent trap source LoopBack0\n",
      "new": "snmp-agent\nsnmp-agent trap source LoopBack0\n", "acl": "snmp-agent ~ %cant_delete=1\nsnmp-agent trap ~\n"},
     {"kind": "hand", "model": "Huawei CE6870", "old": "snmp-agent trap source LoopBack0\n", "new": "", "acl": "snmp-agent ~ %cant_delete=1\nsnmp-agent trap ~\n"}],
    [{"kind": "hand", "model": "Cisco Catalyst 2960", "old": "no logging console\nlogging buffered 4096\nlogging host 10.0.0.1\n",
      "new": "logging buffered 4096\nlogging host 10.0.0.1\n", "acl": "logging ~ %cant_delete=1\nlogging host ~\n"},
     {"kind": "hand", "model": "Cisco Catalyst 2960", "old": "logging host 10.0.0.1\n", "new": "", "acl": "logging ~ %cant_delete=1\nlogging host ~\n"}],
    [{"kind": "hand", "model": "Arista", "old": "no ntp authenticate\nntp server 10.0.0.1\n", "new": "ntp server 10.0.0.1\n", "acl": "ntp ~ %cant_delete=1\nntp server ~\n"},
     {"kind": "hand", "model": "Arista", "old": "ntp server 10.0.0.1\n", "new": "", "acl": "ntp ~ %cant_delete=1\nntp server ~\n"}],
]
# vendor logic that parses VLAN lists: job A keeps one list line and adds a continuation line, job B (another port, same list
# text) grows the list in place; a parse result cached and then updated in place by A would make B lose its addition
VLAN_PAIRS = [
    [{"kind": "hand", "model": m, "old": "interface %s1\n switchport trunk allowed vlan 10,20\n" % ifn,
      "new": "interface %s1\n switchport trunk allowed vlan 10,20\n switchport trunk allowed vlan add 30\n" % ifn},
     {"kind": "hand", "model": m, "old": "interface %s2\n switchport trunk allowed vlan 10,20\n" % ifn, "new": "interface %s2\n switchport trunk allowed vlan 10,20,30\n" % ifn}]
    for m, ifn in (("Cisco Catalyst 2960", "GigabitEthernet0/"), ("Cisco Nexus", "Ethernet1/"))
] + [
    [{"kind": "hand", "model": "Huawei CE6870", "old": "interface 10GE1/0/1\n port trunk allow-pass vlan 10 20\n",
      "new": "interface 10GE1/0/1\n port trunk allow-pass vlan 10 20\n port trunk allow-pass vlan 30\n"},
     {"kind": "hand", "model": "Huawei CE6870", "old": "interface 10GE1/0/2\n port trunk allow-pass vlan 10 20\n", "new": "interface 10GE1/0/2\n port trunk allow-pass vlan 10 20 30\n"}]
]
# jobs run with a reference tracker (the configs of a referring and a defining generator order the patch) followed by a job of
# the same hardware without one, whose rows occur in those configs
REF_PAIRS = [
    [{"kind": "hand", "model": m, "old": "", "new": "service dhcp\ninterface Vlan10\n ip access-group FOO in\nip access-list extended FOO\n permit ip any any\n",
      "refs": [[[["interface Vlan10", [["ip access-group FOO in", []]]]], [["ip access-list extended FOO", []]]]]},
     {"kind": "hand", "model": m, "old": "", "new": "ip access-list extended FOO\n permit ip any any\nservice dhcp\ninterface Vlan10\n description x\nhostname h\n"}]
    for m in ("Cisco Catalyst", "Cisco Catalyst 2960")
] + [
    [{"kind": "hand", "model": "Huawei CE6870", "old": "", "new": "acl number 3000\n rule 5 permit ip\ninterface Vlanif10\n traffic-filter inbound acl 3000\nsysname h\n",
      "refs": [[[["interface Vlanif10", [["traffic-filter inbound acl 3000", []]]]], [["acl number 3000", []]]]]},
     {"kind": "hand", "model": "Huawei CE6870", "old": "", "new": "sysname h\ninterface Vlanif10\n description x\nacl number 3000\n rule 5 permit ip\n"}]
]
# ... and by a device whose tracker knows the same edge between the same two generator classes, but where the defining generator produced
# nothing (no config registered for it): the patch is ordered as without references
for _pair in REF_PAIRS:
    _pair.append(dict(_pair[0], refs=[[_pair[0]["refs"][0][0], None]]))
# vendor logic that collects several lines into one command (Aruba AP management parameters): job A carries all five parameters, job B
# (another AP) lacks two of them and is refused when processed alone; values remembered from A must not complete B's command
ARUBA_PAIRS = [
    [{"kind": "hand", "model": "Aruba AP-505", "old": "", "new": "ipaddr:10.0.0.2\nnetmask:255.255.255.0\ngatewayip:10.0.0.1\ndnsip:8.8.8.8\ndomainname:example.com\n"},
     {"kind": "hand", "model": "Aruba AP-505", "old": "ipaddr:10.1.0.2\nnetmask:255.255.255.0\ngatewayip:10.1.0.1\n", "new": "ipaddr:10.1.0.3\nnetmask:255.255.255.0\ngatewayip:10.1.0.1\n"}],
    [{"kind": "hand", "model": "Aruba AP-505", "old": "ipaddr:10.0.0.2\nnetmask:255.255.255.0\ngatewayip:10.0.0.1\ndnsip:8.8.8.8\ndomainname:example.com\n",
      "new": "ipaddr:10.0.0.9\nnetmask:255.255.255.0\ngatewayip:10.0.0.1\ndnsip:8.8.8.8\ndomainname:example.com\n"},
     {"kind": "hand", "model": "Aruba AP-505", "old": "", "new": "ipaddr:10.2.0.2\nnetmask:255.255.255.0\n"}],
]


# the same model and configurations under two software releases, one after the other: whatever a rule template makes of the release, the
# second device must get what it gets alone
SOFT_CONFIGS = [
    ("Huawei Quidway S5700", "ssh server-source -i Vlanif100\ntelnet server-source -i Vlanif100\nssh ipv6 server-source -a 2001:db8::1\n", "sysname a\n"),
    ("Huawei CE6870", "ssh server-source -i Vlanif100\ntelnet server-source -i Vlanif100\n", "sysname a\n"),
    ("Huawei Quidway S5300", "interface GE1/0/1\n trust dscp\n stp edged-port enable\n", "interface GE1/0/1\n trust 8021p\n"),
    ("Cisco Nexus 3432", "interface Ethernet1/1\n mtu 9000\n", "interface Ethernet1/1\n mtu 9100\n description x\n"),
    ("Arista DCS-7050", "ip load-sharing trident fields ip\n", "ip load-sharing trident fields mac\n"),
]
SOFT_RELEASES = {"Huawei": ["VRP V200R011C10SPC600", "VRP V200R021C00SPC100", "VRP V200R005C20"], "Cisco": ["NX-OS 7.0(3)I7(6)", "NX-OS 9.3(5)"], "Arista": ["EOS 4.20.1F", "EOS 4.28.3M"]}
SOFT_PAIRS = [
    [{"kind": "hand", "model": m, "soft": s1, "old": o, "new": n}, {"kind": "hand", "model": m, "soft": s2, "old": o, "new": n}]
    for m, o, n in SOFT_CONFIGS for s1 in SOFT_RELEASES[m.split()[0]] for s2 in SOFT_RELEASES[m.split()[0]] if s1 != s2
]


# one generator ACL nested three levels deep, used for devices of three vendors (a multi-vendor generator): every vendor compiles the same text
DEEP_ACL = "router bgp *\n    vrf *\n        router-id *\n        neighbor *\n            description ~\n    bgp router-id *\nhostname *\n"
DEEP_ACL_JOBS = [
    {"kind": "hand", "model": m, "old": "router bgp 65000\n vrf A\n  router-id 1.1.1.1\n  neighbor 10.0.0.1\n   description a\nhostname a\nntp server 1.1.1.1\n",
     "new": "router bgp 65000\n vrf A\n  router-id 2.2.2.2\n  neighbor 10.0.0.1\n   description b\nhostname b\n", "acl": DEEP_ACL}
    for m in ("Cisco Catalyst 2960", "Cisco Nexus 9316", "Arista DCS-7050", "Cisco ASR 9010")
]
# rows that two ordering rules of one level match (a specific interface kind and `interface *`): the first of them has a child block
TWO_ORDER_RULES = [
    {"kind": "hand", "model": "Huawei CE6870", "old": "interface Tunnel0/0/1\n description a\ninterface Vlanif10\n description a\ninterface LoopBack0\n description a\n",
     "new": "interface Tunnel0/0/1\n description b\n tunnel-protocol gre\ninterface Vlanif10\n description b\n mtu 1500\ninterface LoopBack0\n description b\ninterface Eth-Trunk1.100\n description s\n"},
    {"kind": "hand", "model": "Huawei NE40E-X8", "old": "interface Tunnel0/0/1\n description a\n", "new": "interface Tunnel0/0/1\n description b\ninterface GE1/0/1.100\n description s\n vlan-type dot1q 100\n"},
    {"kind": "hand", "model": "Cisco Nexus 9316", "old": "interface Vlan10\n description a\ninterface port-channel1\n description a\n",
     "new": "interface Vlan10\n description b\n mtu 9000\ninterface port-channel1\n description b\ninterface Ethernet1/1.100\n description s\ninterface loopback0\n description l\n"},
    {"kind": "hand", "model": "Arista DCS-7050", "old": "interface Vlan10\n description a\n", "new": "interface Vlan10\n description b\ninterface Port-Channel1\n description p\ninterface Loopback0\n description l\n"},
]


IGNORE_CASE_PAIR = [
    {"kind": "hand", "model": "Cisco Catalyst 2960", "old": "interface GigabitEthernet0/1\n ipv6 nd ra min-interval 10\n", "new": "interface GigabitEthernet0/1\n ipv6 nd ra min-interval 20\n",
     "acl": "interface *\n    ipv6 nd ra min-interval\n    ipv6 nd ra max-interval\n    ipv6 nd ra router-lifetime\n"},
    {"kind": "hand", "model": "Huawei CE6870", "old": "interface 10GE1/0/1\n ipv6 nd ra Min-interval 10\n ipv6 nd ra MAX-interval 30\n",
     "new": "interface 10GE1/0/1\n ipv6 nd ra min-interval 10\n ipv6 nd ra max-interval 30\n"},
]


SYNTH_RB = """
x * %logic=vfmut.leaky
y *
    z * %logic=vfmut.leaky
w * %logic=vfmut.leaky_comment %comment=c0
"""
SYNTH = [
    {"kind": "synth", "model": "Huawei", "old": "x 1\nx 2\nx 3\ny 1\n z 1\n z 2\n", "new": "y 1\n"},
    {"kind": "synth", "model": "Huawei", "old": "x 1\nx 2\n", "new": "x 1\n"},
    {"kind": "synth", "model": "Cisco Catalyst", "old": "x 5\ny 1\n z 7\n z 8\nw 1\nw 2\n", "new": "x 6\ny 1\n z 9\nw 3\n"},
    {"kind": "synth", "model": "Cisco Catalyst", "old": "w 1\nw 2\nw 3\n", "new": ""},
]


def install_leaky_logic():
    """a rulebook logic module whose functions write to their rule argument (the quantifier asks for such rules)"""
    import types
    if "annet.rulebook.vfmut" in sys.modules:
        return
    from annet.annlib.rulebook import common
    from annet.annlib.types import Op
    m = types.ModuleType("annet.rulebook.vfmut")

    def leaky(rule, key, diff, **_):
        if diff[Op.REMOVED]:
            rule["reverse"] = rule["reverse"] + " force"
        yield from common.default(rule, key, diff)

    def leaky_comment(rule, key, diff, **_):
        rule["comment"].append("k%s" % "".join(key))
        rule["reverse"] = rule["reverse"].replace("{}", "{} " + "+".join(rule["comment"]))
        yield from common.default(rule, key, diff)
    m.leaky, m.leaky_comment = leaky, leaky_comment
    sys.modules["annet.rulebook.vfmut"] = m
    import annet.rulebook
    annet.rulebook.vfmut = m


def all_jobs():
    from vf import corpus
    jobs = []
    for s in corpus.patch_samples():
        name, vk = s[0], s[1]
        jobs.append({"kind": "corpus", "sample": name, "model": corpus.STUB_HW[vk], "vk": vk})
        for m in FAMILIES.get(vk, [])[1:]:
            jobs.append({"kind": "corpus", "sample": name, "model": m, "vk": vk})
    for i, s in enumerate(corpus.patch_samples()):
        if i % 4 == 0:
            jobs.append({"kind": "corpus", "sample": s[0], "model": corpus.STUB_HW[s[1]], "vk": s[1], "acl": "~ %global"})
        if i % 4 == 2:
            jobs.append({"kind": "corpus", "sample": s[0], "model": corpus.STUB_HW[s[1]], "vk": s[1], "acl": "auto"})
    jobs += HAND
    jobs += NESTED
    jobs += SYNTH * 3
    return jobs


def plan(tier, seed):
    from vf import env
    env.setup()
    jobs = all_jobs()
    rng = random.Random("C20/%s/%s" % (tier, seed))
    nseq = 8 if tier == "quick" else 200
    specs = []
    for q in range(nseq):
        L = rng.randint(8, 12 if tier == "quick" else 16)
        seq = [rng.choice(jobs) for _ in range(L)]
        # force: a repeated job, and two hardware families of one vendor
        seq.insert(rng.randrange(len(seq)), dict(rng.choice(seq)))
        fam = rng.choice([j for j in jobs if j.get("vk") in FAMILIES or j["kind"] == "hand"])
        seq.append(fam)
        others = [j for j in jobs if j is not fam and j.get("sample") == fam.get("sample") and j["kind"] == fam["kind"] and j["model"] != fam["model"] and not j.get("acl")]
        if fam["kind"] == "hand":
            others = [j for j in HAND if j["model"] != fam["model"] and j["model"].split()[0] == fam["model"].split()[0]]
        if others:
            seq.insert(rng.randrange(len(seq)), rng.choice(others))
        seq += [dict(j) for j in rng.sample(HAND[7:10], 2)]  # two hardware families of one vendor on rules the templates render differently
        seq += [dict(rng.choice(SYNTH)) for _ in range(2)]  # rules whose logic writes to its rule argument, twice per sequence
        seq += [dict(j) for j in rng.sample(NESTED, 2)]     # nested rows that matching / vendor diff logic drops from its working copy
        jc = [j for j in jobs if j.get("sample", "").startswith("juniper_comments") and not j.get("acl")]
        seq += [dict(rng.choice(jc)) for _ in range(2)]     # the vendor diff logic that writes into the matched rule's attributes
        rng.shuffle(seq)
        if q % 2 == 0:
            ar = [j for j in jobs if j.get("vk") == "aruba" and not j.get("acl")]
            if ar:
                seq.insert(0, dict(rng.choice(ar)))  # the only shipped rulebook with a top-level %context directive, compiled before the others
        # ordered pairs (A then B): a shared compiled ACL, and a reference tracker followed by a tracker-less job
        pa, pr = rng.choice(ACL_PAIRS[:3]), rng.choice(REF_PAIRS)
        at = rng.randrange(len(seq) + 1)
        seq[at:at] = [dict(pa[0]), dict(pa[1])]
        for pb in rng.sample(ACL_PAIRS[3:], 2):
            at = rng.randrange(len(seq) + 1)
            seq[at:at] = [dict(pb[0]), dict(pb[1])]
        seq += [dict(pr[0]), dict(pr[1]), dict(pr[2])]
        for ps in rng.sample(SOFT_PAIRS, 4):
            at = rng.randrange(len(seq) + 1)
            seq[at:at] = [dict(ps[0]), dict(ps[1])]
        if q % 2 == 1:
            # before any Huawei rulebook has been compiled in the process: a job of another vendor whose ACL names, as plain case-sensitive rows,
            # lines that the Huawei rulebook marks %ignore_case; then a Huawei job that differs from its device in letter case only
            seq[0:0] = [dict(IGNORE_CASE_PAIR[0]), dict(IGNORE_CASE_PAIR[1])]
        for dj in rng.sample(DEEP_ACL_JOBS, 3):
            seq.insert(rng.randrange(len(seq) + 1), dict(dj))
        for tj in rng.sample(TWO_ORDER_RULES, 2):
            seq.insert(rng.randrange(len(seq) + 1), dict(tj))
        pu = rng.choice(ARUBA_PAIRS)
        at = rng.randrange(len(seq) + 1)
        seq[at:at] = [dict(pu[0]), dict(pu[1])]
        pv = rng.choice(VLAN_PAIRS)
        at = rng.randrange(len(seq) + 1)
        seq[at:at] = [dict(pv[0]), dict(pv[1])]
        arng = random.Random("C20/alias/%s/%s/%s" % (tier, seed, q))
        aj = arng.choice(ALIAS_JOBS[:3])
        for j_ in [aj, aj, arng.choice(ALIAS_JOBS)]:       # the alias vendor's job comes back later in the same process (first use and re-use of its rulebook)
            seq.insert(arng.randrange(len(seq) + 1), dict(j_))
        mj = MEMBER_JOBS[q % len(MEMBER_JOBS)]
        at = arng.randrange(len(seq) + 1)
        others_ = [dict(OTHER_FAMILY_JOBS[0]), dict(arng.choice(OTHER_FAMILY_JOBS[1:]))]
        arng.shuffle(others_)
        seq[at:at] = [dict(mj)] + others_ + [dict(mj)]
        specs.append({"mode": "seq", "tier": tier, "seed": seed, "seq": seq})
    specs.append({"mode": "overlay", "tier": tier, "seed": seed})
    return specs


def job_id(job):
    return hashlib.sha1(json.dumps({k: v for k, v in job.items() if k != "vk"}, sort_keys=True).encode()).hexdigest()[:12]


def materialise(job):
    """-> (hw, old, new, acl_text|None)"""
    from vf import corpus
    from annet.annlib.netdev.views.hardware import HardwareView
    from annet import tabparser
    from annet.vendors import registry_connector
    hw = HardwareView(job["model"], job.get("soft", ""))
    if job["kind"] == "synth":
        install_leaky_logic()
    if job["kind"] == "corpus":
        s = next(x for x in corpus.patch_samples() if x[0] == job["sample"])
        _, old, new = corpus.sample_configs(s)
    else:
        fmt = registry_connector.get().match(hw).make_formatter()
        old = tabparser.parse_to_tree(job["old"], fmt.split)
        new = tabparser.parse_to_tree(job["new"], fmt.split)
    acl = job.get("acl")
    if acl == "auto":
        words = sorted({r.split()[0] for r in list(old) + list(new)})
        acl = "\n".join("%s ~\n    ~ %%global" % w for w in words[: max(1, len(words) // 2 + 1)] if not any(c in w for c in "*()[]{}|?+\\"))
        acl = acl or "~ %global"
    return hw, old, new, acl


def norm_diff(diff):
    return [[getattr(op, "name", str(op)), row, norm_diff(ch)] for op, row, ch, _ in diff]


def synth_rb(hw):
    from annet.rulebook.patching import compile_patching_text
    from annet.annlib.rbparser.ordering import compile_ordering_text
    from annet.rulebook.deploying import compile_deploying_text
    install_leaky_logic()
    v = hw.vendor
    return {"patching": compile_patching_text(SYNTH_RB, v), "ordering": compile_ordering_text("", v), "deploying": compile_deploying_text("", v)}


REF_CLASSES = {}


def compute(hw, old, new, acl_text, synth=False, refs=None):
    """the observed computation: diff, patch, ordered config"""
    from annet.api import _diff_and_patch
    from annet.patching import Orderer
    from annet.annlib.patching import make_diff, make_pre, make_patch
    from annet.annlib.rbparser.acl import compile_acl_text
    from annet import rulebook
    from annet.vendors import registry_connector
    v = registry_connector.get().match(hw)
    fmt = v.make_formatter()
    out = {}
    try:
        acl = compile_acl_text(acl_text, v.NAME) if acl_text else None
    except Exception as e:
        return {"error": "acl:" + type(e).__name__, "error_direct": "acl:" + type(e).__name__}
    ref_track = None
    if refs:
        from annet.reference import RefTracker
        ref_track = RefTracker()
        for i, (rcfg, dcfg) in enumerate(refs):
            # generator classes live as long as the process: every device's tracker is keyed by the same class objects
            rc, dc = REF_CLASSES.setdefault(("RefGen", i), type("RefGen%d" % i, (), {})), REF_CLASSES.setdefault(("DefGen", i), type("DefGen%d" % i, (), {}))
            ref_track.add(rc, dc)
            if rcfg is not None:
                ref_track.config(rc, unplain(rcfg))
            if dcfg is not None:
                ref_track.config(dc, unplain(dcfg))
    try:
        diff, patch = _diff_and_patch(c01.Dev(hw), old, new, acl, None, False, ref_track=ref_track, rb=(synth_rb(hw) if synth else None))
        out["diff"] = norm_diff(diff)
        cp = fmt.cmd_paths(patch)
        out["cmds"] = [list(p) for p in cp]
        out["cmd_contexts"] = [json.loads(json.dumps(c, default=str, sort_keys=True)) for _, c in cp.items()]  # what %ifcontext deploy rules look at
    except Exception as e:
        out["error"] = type(e).__name__
    try:
        rb = synth_rb(hw) if synth else rulebook.get_rulebook(hw)
        d2 = make_diff(old, new, rb, [acl])
        p2 = make_patch(make_pre(d2), rb, hw, False)
        out["cmds_direct"] = [list(p) for p in fmt.cmd_paths(p2)]
    except Exception as e:
        out["error_direct"] = type(e).__name__
    if not synth:
        # the compiled rulebook the job worked with is part of what must not depend on the jobs before it (which logic each rule got, which flags)
        try:
            from vf.props import c18 as _c18
            out["rulebook"] = _c18.R_hash(_c18.rb_signature(rulebook.get_rulebook(hw)))
        except Exception as e:
            out["error_rulebook"] = type(e).__name__
    try:
        out["ordered"] = plain(Orderer.from_hw(hw).order_config(new))
    except Exception as e:
        out["error_order"] = type(e).__name__
    return out


def child():
    """fresh-process baseline: reads jobs (JSON list) on stdin, computes the FIRST only ... one job per process"""
    job = json.load(sys.stdin)
    hw, old, new, acl = materialise(job)
    print("RESULT " + json.dumps(compute(hw, old, new, acl, job["kind"] == "synth", job.get("refs")), sort_keys=True))


def baseline(job):
    env = dict(os.environ)
    p = subprocess.run([sys.executable, "-c", "from vf import env; env.setup(); from vf.props import c20; c20.child()"],
                       input=json.dumps(job), capture_output=True, text=True, env=env, timeout=600)
    for ln in p.stdout.splitlines():
        if ln.startswith("RESULT "):
            return json.loads(ln[7:])
    raise RuntimeError("baseline failed: %s" % p.stderr[-800:])


def first_difference(a, b):
    for k in sorted(set(a) | set(b)):
        if a.get(k) != b.get(k):
            return k
    return None


def run_overlay(spec, acc):
    """a provider with two rulebook directories (a site overlay that overrides one vendor's .rul in front of the stock directory):
    which file serves a vendor must not depend on which vendors the provider served before"""
    import shutil
    import tempfile
    from annet.annlib.netdev.views.hardware import HardwareView
    from annet.api import _diff_and_patch
    from annet.rulebook import DefaultRulebookProvider
    from annet import tabparser
    from annet.vendors import registry_connector
    from vf.props import c18
    stock = DefaultRulebookProvider.root_dir[0]
    d = tempfile.mkdtemp(prefix="vf_c20_overlay_")
    try:
        os.makedirs(os.path.join(d, "texts"))
        for name, first_rule in (("huawei.rul", "sysname *"), ("cisco.rul", "hostname *")):
            with open(os.path.join(stock, "texts", name)) as f:
                text = f.read()
            with open(os.path.join(d, "texts", name), "w") as f:
                f.write(first_rule + "\n" + text)  # the overlay's rule keys the host name: a rename becomes remove + add
        jobs = {"H": ("Huawei CE6870", "sysname a\n", "sysname b\n"), "C": ("Cisco Catalyst 2960", "hostname a\n", "hostname b\n"),
                "A": ("Arista", "hostname a\n", "hostname b\n"), "N": ("Huawei NE40E-X8", "sysname a\n", "sysname b\n")}

        def run(provider, j):
            model, ot, nt = jobs[j]
            hw = HardwareView(model, "")
            fmt = registry_connector.get().match(hw).make_formatter()
            rb = provider.get_rulebook(hw)
            _, patch = _diff_and_patch(c01.Dev(hw), tabparser.parse_to_tree(ot, fmt.split), tabparser.parse_to_tree(nt, fmt.split), None, None, False, rb=rb)
            return {"cmds": [list(p) for p in fmt.cmd_paths(patch)], "sig": c18.R_hash(c18.rb_signature(rb))}
        base = {j: run(DefaultRulebookProvider(root_dir=(d, stock)), j) for j in jobs}
        rng = random.Random("C20/overlay/%s" % spec["seed"])
        for k in range(12 if spec["tier"] == "quick" else 200):
            order = [rng.choice("HCAN") for _ in range(rng.randint(2, 5))]
            # the directory list may be any iterable (Union[str, Iterable[str]]): a tuple, a list, or something lazily filtered
            dirs = [(d, stock), [d, stock], (x for x in (d, stock)), filter(None, [d, stock])][k % 4]
            prov = DefaultRulebookProvider(root_dir=dirs)
            acc.count("overlay_providers_with_a_lazy_directory_list", 1 if k % 4 >= 2 else 0)
            for pos, j in enumerate(order):
                try:
                    got = run(prov, j)
                except Exception as e:
                    got = {"cmds": ["EXC %s" % type(e).__name__], "sig": None}
                acc.count("overlay_provider_jobs")
                acc.case(["overlay", order[:pos + 1]], nontrivial=pos >= 1)
                if got != base[j]:
                    acc.violation("C20/result-depends-on-history", "a job gives a different result after other jobs in the same process than alone in a fresh process",
                                  {"overlay": True, "order": order[:pos + 1], "job": list(jobs[j]), "in_sequence": got["cmds"], "fresh": base[j]["cmds"],
                                   "differs_in": "cmds" if got["cmds"] != base[j]["cmds"] else "compiled rulebook"})
                    return
    finally:
        shutil.rmtree(d, ignore_errors=True)


def deep_image(obj, _depth=0):
    """identity-free image of a compiled rulebook, every key and value of it (a field added to a rule while it is used shows)"""
    import types as _ty
    if isinstance(obj, dict):
        return ("d", [(deep_image(k, _depth + 1), deep_image(v, _depth + 1)) for k, v in obj.items()])
    if isinstance(obj, (list, tuple)):
        return ("l", [deep_image(x, _depth + 1) for x in obj])
    if isinstance(obj, (set, frozenset)):
        return ("s", sorted(repr(deep_image(x, _depth + 1)) for x in obj))
    if isinstance(obj, re.Pattern):
        return ("re", obj.pattern, obj.flags)
    if isinstance(obj, (_ty.FunctionType, _ty.BuiltinFunctionType, _ty.MethodType)):
        return ("fn", getattr(obj, "__module__", ""), getattr(obj, "__qualname__", repr(obj)))
    if isinstance(obj, (str, int, float, bool)) or obj is None:
        return obj
    return ("o", type(obj).__name__, repr(obj)[:200])


def image_hash(obj):
    return hashlib.sha1(repr(deep_image(obj)).encode()).hexdigest()


def run_seq(spec, acc):
    from annet import rulebook
    from vf.props import c18
    seq = spec["seq"]
    ids = [job_id(j) for j in seq]
    distinct = {}
    for j, i in zip(seq, ids):
        distinct.setdefault(i, j)
    with cf.ThreadPoolExecutor(max_workers=4) as ex:
        base = dict(zip(distinct, ex.map(baseline, distinct.values())))
    acc.count("fresh_baselines", len(base))
    mats = {}
    history = []
    seen_models = {}
    for pos, (job, jid) in enumerate(zip(seq, ids)):
        if jid not in mats:
            mats[jid] = materialise(job)
        else:
            acc.count("repeated_jobs")
        hw, old, new, acl = mats[jid]
        vendor = hw.vendor
        if any(v == vendor and m != job["model"] for m, v in seen_models.items()):
            acc.count("same_vendor_other_hw")
        seen_models[job["model"]] = vendor
        if acl:
            acc.count("acl_jobs")
        w = {"seq": seq[:pos + 1], "position": pos, "job": job}
        synth = job["kind"] == "synth"
        if any(job.get("old") == n["old"] and job["model"] == n["model"] for n in NESTED):
            acc.count("nested_dropped_row_jobs")
        if synth:
            acc.count("rule_mutating_logic_jobs")
        rb = synth_rb(hw) if synth else rulebook.get_rulebook(hw)
        snap = (plain(old), plain(new), c18.R_hash(c18.rb_signature(rb)), image_hash(rb))
        got = compute(hw, old, new, acl, synth, job.get("refs"))
        if job.get("refs"):
            acc.count("reference_tracker_jobs")
            if any(b is None for a, b in job["refs"]):
                acc.count("reference_tracker_jobs_with_a_silent_generator")
        if job.get("soft"):
            acc.count("jobs_with_a_software_release")
        if any(job.get("old") == m_["old"] and job["model"] == m_["model"] for m_ in MEMBER_JOBS):
            acc.count("port_channel_member_jobs_around_other_vendors_of_the_family")
        if job["model"].startswith("H3C"):
            acc.count("jobs_of_a_vendor_that_borrows_another_vendors_rule_text")
        if job.get("acl") == DEEP_ACL:
            acc.count("jobs_with_one_deep_acl_text_for_several_vendors")
        if any(job.get("old") == t_["old"] and job["model"] == t_["model"] for t_ in TWO_ORDER_RULES):
            acc.count("jobs_with_rows_matched_by_two_ordering_rules")
        if job["model"].startswith("Aruba") and job["kind"] == "hand":
            acc.count("collecting_logic_pair_jobs")
            if got.get("error"):
                acc.count("collecting_logic_jobs_refused")
        if job.get("acl") and any(job["acl"] == pr[0]["acl"] for pr in ACL_PAIRS):
            acc.count("shared_compiled_acl_jobs")
        rb_after = synth_rb(hw) if synth else rulebook.get_rulebook(hw)
        after = (plain(old), plain(new), c18.R_hash(c18.rb_signature(rb_after)), image_hash(rb_after))
        acc.count("jobs_in_sequences")
        acc.count("snapshots_compared", 3)
        acc.case([jid, ids[:pos]], nontrivial=(pos >= 1 and bool(got.get("cmds"))))
        if snap[0] != after[0] or snap[1] != after[1]:
            acc.violation("C20/input-tree-modified", "computing diff/patch/ordered config modified the caller's old or new configuration tree",
                          dict(w, which="old" if snap[0] != after[0] else "new", before=(snap[0] if snap[0] != after[0] else snap[1]),
                               after=(after[0] if snap[0] != after[0] else after[1])))
            return
        if snap[2] != after[2]:
            acc.violation("C20/compiled-rulebook-modified", "computing a patch changed the compiled (cached, shared) rulebook", w)
            return
        if snap[3] != after[3]:
            acc.violation("C20/compiled-rulebook-modified/scratch-data", "computing a patch left data behind inside the compiled (cached, shared) rulebook", w)
            return
        if any(k.startswith("error") and v in ("AttributeError", "NameError", "ImportError", "TypeError") and base[jid].get(k) == v for k, v in got.items()) and job["kind"] != "corpus":
            raise RuntimeError("harness problem (the job fails the same way alone in a fresh process): %r" % got)
        if synth:
            # the synthetic logics' own contract: the rule they receive is fresh for every (rule, key): exactly one mark per command
            bad = [c for c in got.get("cmds", []) + got.get("cmds_direct", [])
                   if c[-1].count(" force") > 1 or c[-1].count("+k") > 1 or (("c0" in c[-1]) and c[-1].count("c0") > 1)]
            if bad:
                acc.violation("C20/rule-attributes-shared-between-keys", "a logic function's write to its rule argument leaked into the command of another (rule, key) or another call",
                              dict(w, commands=bad[:5]))
                return
        if got != base[jid]:
            k = first_difference(got, base[jid])
            acc.violation("C20/result-depends-on-history", "a job gives a different result after other jobs in the same process than alone in a fresh process",
                          dict(w, differs_in=k, in_sequence=got.get(k), fresh=base[jid].get(k)))
            return
        again = compute(hw, old, new, acl, synth, job.get("refs"))
        if again != got:
            acc.violation("C20/repeat-differs", "repeating the same computation gives a different answer", dict(w, differs_in=first_difference(again, got)))
            return
        history.append(jid)
    acc.sample({"sequence": [dict(j, old=None, new=None) if j["kind"] == "hand" else j for j in seq][:6], "length": len(seq)})


def run_shard(spec, acc):
    if spec["mode"] == "overlay" or (spec["mode"] == "replay" and spec["witness"].get("overlay")):
        return run_overlay({"tier": spec.get("tier", "quick"), "seed": spec.get("seed", 0)}, acc)
    if spec["mode"] == "replay":
        w = spec["witness"]
        run_seq({"seq": w["seq"]}, acc)
        return
    run_seq(spec, acc)
