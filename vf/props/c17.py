"""C17 - implicit defaults never override explicit config and never cause commands alone.

Monitors on the real implicit.config / merge_dicts / _diff_and_patch / _old_new_per_device:
  (a) t is a subtree of m = t + implicit(t);  (b) completing m again adds nothing;
  (c) m equals the reference completion (R1 matching): a default row is present iff no row at that parent matches the
      rule's own pattern, recursion only under matching blocks;
  (d) for t, u completed the same way, neither the diff nor the patch mentions a row that is a pure default on both sides;
  (e) the production front end completes old and new identically (same law through _old_new_per_device, incl. an empty device config).
"""
import random
import re
from collections import OrderedDict as odict

from vf.ref import rulelang as R
from vf.util import plain, unplain, paths
from vf.props import c01, c07

LEVEL = "exploration"
RULE = ("all hardware models that have implicit rules (Huawei CE / NE / other, Arista, Nexus 3132 / 3432 / 9316 / 9364 / 9504 with and without the spine1 tag / other, Cisco "
        "Catalyst 2960 / 3560 / 3650 / other) x random trees mixing, per implicit rule, rows that match it (synthesised from the pattern), rows that nearly match, the default row "
        "itself, and unrelated rows, recursively under matching blocks; a third of the cases with ordinary lines (VRF membership, addresses, descriptions) inside the interface blocks, changing between the two sides. Non-trivial: >=1 rule suppressed by an explicit row and >=1 default added. Distinct: hash of (model, tags, tree).")
ASSUMPTIONS = [
    "rule patterns are read through the regex-level reference R1 (vf/ref/rulelang.py); the implicit rule texts themselves are taken from annet.implicit._implicit_tree (data)",
    "reference completion adds, with a default block, the defaults nested in it (what idempotence requires)",
]
FLOORS = {"quick": {"completions": 2000, "defaults_added": 2000, "defaults_suppressed": 1000, "patches_checked": 1500, "front_runs": 150, "front_safe_runs": 150, "front_runs_clear_mode": 150, "block_lines_added": 4000, "pairs_with_vrf_change_on_an_interface": 300, "ports_in_a_port_channel_on_both_sides": 500, "touch_patches_checked": 2500, "front_runs_with_defaults_covered_through_the_negated_form_of_a_rule": 150, "completed_trees_compared_after_the_diff": 1500, "completions_searched_for_comment_lines": 2000},
          "thorough": {"completions": 100000, "defaults_added": 100000, "defaults_suppressed": 50000, "patches_checked": 70000, "front_runs": 7000, "front_safe_runs": 7000, "front_runs_clear_mode": 7000, "block_lines_added": 80000, "pairs_with_vrf_change_on_an_interface": 6000}}
MODELS = [("Huawei CE6870", ()), ("Huawei NE40E-X8", ()), ("Huawei Quidway S5300", ()), ("Arista DCS-7050", ()),
          ("Cisco Nexus 3132", ()), ("Cisco Nexus 3432", ()), ("Cisco Nexus 9316", ()), ("Cisco Nexus N9K-C9364", ()), ("Cisco Nexus 9504", ("spine1",)),
          ("Cisco Nexus 9504", ()), ("Cisco Nexus 5548", ()), ("Cisco Catalyst 2960", ()), ("Cisco Catalyst 3560", ()), ("Cisco Catalyst 3650", ()), ("Cisco Catalyst 6500", ())]
KNOWN_NESTED = "C17/default-block-added-without-its-nested-defaults"


def plan(tier, seed):
    n = 8 if tier == "quick" else 16
    return [{"mode": "random", "tier": tier, "seed": seed, "shard": k, "nshards": n} for k in range(n)]


class Dev:
    def __init__(self, model, tags=()):
        from annet.annlib.netdev.views.hardware import HardwareView
        self.hw = HardwareView(model, "")
        self.tags = list(tags)
        self.hostname = "dev1"
        self.fqdn = "dev1.example"


def rules_of(dev):
    """[(pattern, is_ignore, children)] read from the implicit rule text of the model"""
    from annet import implicit

    def conv(tree):
        return [(a["row"], a["type"] == "ignore", conv(a["children"])) for a in tree.values()]
    return conv(implicit._implicit_tree(dev))


def rx(pat):
    return R.ref_regex(pat)


def ref_implicit(t, rules, ideal=True):
    out = []
    for pat, ign, ch in rules:
        matched = [row for row, _ in t if rx(pat).match(row)]
        if not ign and not matched and pat not in [r for r, _ in t]:
            out.append([pat, ref_implicit([], ch, ideal) if ideal else []])
        tm = {r: c for r, c in t}
        for row in matched:
            out.append([row, ref_implicit(tm[row], ch, ideal)])
    return out


def merge(a, b):
    out = [[r, list(c)] for r, c in a]
    idx = {r: i for i, (r, c) in enumerate(out)}
    for r, c in b:
        if r in idx:
            out[idx[r]][1] = merge(out[idx[r]][1], c)
        else:
            idx[r] = len(out)
            out.append([r, merge([], c)])
    return out


def gen_tree(rng, rules, depth=0):
    t, seen = [], set()

    def add(row, ch):
        if row and row not in seen and not row.startswith(("!", "#")):
            seen.add(row)
            t.append([row, ch])
    for pat, ign, ch in rules:
        r = rng.random()
        words = c07.synth_words(pat, rng)
        if words is None:
            continue
        if r < 0.4:
            add(" ".join(words), gen_tree(rng, ch, depth + 1) if ch and rng.random() < 0.8 else [])
            if not ign and rng.random() < 0.3:
                # the same kind of line spelled with trailing words, possibly next to the exact one
                add(" ".join(words + [rng.choice(["extra", "7", "vpn-instance x"])]), [])
            if "*" in pat and rng.random() < 0.4:
                w2 = c07.synth_words(pat, rng)
                if w2:
                    add(" ".join(w2[:-1] + [w2[-1] + "7"]), gen_tree(rng, ch, depth + 1) if ch else [])
        elif r < 0.55:
            near = list(words)
            i = rng.randrange(len(near))
            near[i] = near[i] + "x" if rng.random() < 0.5 else "zz"
            add(" ".join(near), gen_tree(rng, ch, depth + 1) if ch and rng.random() < 0.5 else [])
        elif r < 0.62 and not ign:
            add(pat, [])
        elif r < 0.68 and not ign:
            add(" ".join(words + ["extra"]), [])
            if rng.random() < 0.6:
                add(" ".join(words + ["other", "9"]), [])  # two lines of the kind, neither spelled exactly like the default
        elif r < 0.7 and len(words) > 1:
            add(" ".join(words[:-1]), [])
    for _ in range(rng.randint(0, 2)):
        add(rng.choice(["sysname x", "foo bar", "interface Vlanif10", "interface Ethernet1/1", "router bgp 65000", "bgp 65000", "ntp server 1.1.1.1"]),
            gen_tree(rng, [], depth + 1) if rng.random() < 0.2 else [])
    rng.shuffle(t)
    return t


def is_subtree(a, b):
    bm = {r: c for r, c in b}
    return all(r in bm and is_subtree(c, bm[r]) for r, c in a)


def count_kinds(t, rules):
    added = supp = 0
    for pat, ign, ch in rules:
        matched = [row for row, _ in t if rx(pat).match(row)]
        if not ign:
            if matched or pat in [r for r, _ in t]:
                supp += 1
            else:
                added += 1
        tm = {r: c for r, c in t}
        for row in matched:
            a, s = count_kinds(tm[row], ch)
            added += a
            supp += s
    return added, supp


def complete(dev, t):
    from annet import implicit
    from annet.annlib.lib import merge_dicts
    tree = unplain(t)
    imp = implicit.config(tree, implicit.compile_rules(dev))
    return plain(merge_dicts(tree, imp))


def pure_defaults(t, m):
    """paths present in the completed tree m but not in t"""
    tp = set(paths(unplain(t)))
    return {p for p in paths(unplain(m)) if p not in tp}


def diff_paths(diff, prefix=()):
    out = []
    for op, row, ch, _ in diff:
        out.append((str(getattr(op, "name", op)).upper(), prefix + (row,)))  # (Op members are plain lower-case strings)
        out += diff_paths(ch, prefix + (row,))
    return out


BLOCK_LINES = ["vrf member A", "vrf member B", "ip address 10.0.0.1/24", "ipv6 address 2001:db8::1/64", "description x", "description y", "mtu 9000",
               "ip binding vpn-instance A", "ip binding vpn-instance B", "vrf forwarding A", "vrf B"]  # (no channel-group lines: leaving a port-channel re-applies the whole interface by design, defaults included)


LAG_SPELLINGS = ["channel-group 10 mode active", "channel-group 10", "channel-group 10 force mode active", "channel-group 10 mode on"]


def add_block_lines(xrng, t):
    """ordinary lines (VRF membership, addresses, descriptions) inside the interface blocks of a configuration: block logics that look at them
    must still treat the completed defaults of both sides alike"""
    n = 0
    for row, ch in t:
        if row.startswith("interface ") and xrng.random() < 0.8:
            have = {r for r, _ in ch}
            for ln in xrng.sample(BLOCK_LINES, xrng.randint(1, 3)):
                if ln not in have and not any(r.split()[:2] == ln.split()[:2] for r in have):
                    ch.append([ln, []])
                    have.add(ln)
                    n += 1
    return n


def check_case(seed, acc, blk=False):
    from annet.api import _diff_and_patch
    from annet.annlib.patching import strip_unchanged
    from annet.vendors import registry_connector
    rng = random.Random(seed)
    model, tags = MODELS[rng.randrange(len(MODELS))]
    dev = Dev(model, tags)
    rules = rules_of(dev)
    t = gen_tree(rng, rules)
    xrng = random.Random(seed ^ 0xB10C)
    if blk:
        if not any(r.startswith("interface ") for r, _ in t):
            t.append([{"H": "interface 10GE1/0/1", "A": "interface Ethernet1"}.get(model[0], "interface Ethernet1/1"), []])
        acc.count("block_lines_added", add_block_lines(xrng, t))
        # ports that are members of a port-channel on BOTH sides (the channel-group line may be spelled differently on the device and in the
        # generator output: `channel-group 10`, `... mode active`, `... force mode active`); joining or leaving one re-applies the port by design
        lag_members = {r for r, _ in t if r.startswith("interface ") and xrng.random() < 0.35}
        for r, c in t:
            if r in lag_members:
                c.append([xrng.choice(LAG_SPELLINGS), []])
        if lag_members:
            acc.count("ports_in_a_port_channel_on_both_sides", len(lag_members))
    w = {"seed": seed, "blk": blk, "model": model, "tags": list(tags), "tree": t}
    try:
        m = complete(dev, t)
        m2 = complete(dev, m)
    except Exception as e:
        acc.violation("C17/exception/%s" % type(e).__name__, "implicit completion raised", dict(w, error=repr(e)[:200]))
        return None
    acc.count("completions")
    a, s = count_kinds(t, rules)
    acc.count("defaults_added", a)
    acc.count("defaults_suppressed", s)
    acc.case([model, list(tags), t], nontrivial=(a >= 1 and s >= 1))
    if not is_subtree(t, m):
        acc.violation("C17/explicit-line-lost", "completing a configuration with implicit defaults dropped or moved an explicit line", dict(w, completed=m))
        return w
    # what the completion adds are lines of configuration: a comment line of the table of defaults (`# SVI`, `! ...`) is not one
    def comment_rows(tree, explicit, path=()):
        em = {r_: c_ for r_, c_ in explicit}
        for r_, c_ in tree:
            if r_ not in em and r_.lstrip().startswith(("#", "!")):
                yield path + (r_,)
            yield from comment_rows(c_, em.get(r_, []), path + (r_,))
    acc.count("completions_searched_for_comment_lines")
    cr = list(comment_rows(m, t))
    if cr:
        acc.violation("C17/completion-adds-a-comment-line", "completing a configuration added a row that is a comment line of the table of defaults", dict(w, added=[list(x) for x in cr][:5]))
        return w
    exp = merge(t, ref_implicit(t, rules))
    if sorted_tree(m) != sorted_tree(exp):
        legacy = merge(t, ref_implicit(t, rules, ideal=False))
        key = KNOWN_NESTED if sorted_tree(m) == sorted_tree(legacy) else "C17/completion-differs-from-reference"
        acc.violation(key, "a default line was added although a line of the same kind is present, or was not added although none is, or outside a matching block" if key != KNOWN_NESTED else
                      "a default block is added without the defaults nested in it, so completing the result again adds more lines (not idempotent)",
                      dict(w, completed=sorted_tree(m), expected=sorted_tree(exp)))
        return w
    if sorted_tree(m2) != sorted_tree(m):
        acc.violation("C17/not-idempotent", "completing an already completed configuration adds lines", dict(w, completed=m, completed_twice=m2))
        return w
    # (d) two configurations completed the same way: pure defaults of both sides are invisible
    u = gen_tree(rng, rules) if rng.random() < 0.5 else mutate(rng, t, rules)
    if blk:
        import copy
        if xrng.random() < 0.7:
            # the same interfaces on both sides, with other block lines: what changes is e.g. the VRF membership only
            keep = {r for r, _ in u}
            u += [[r, [[r2, copy.deepcopy(c2)] for r2, c2 in c if r2 not in BLOCK_LINES]] for r, c in t if r.startswith("interface ") and r not in keep]
        u = [[r, [x for x in c if x[0] not in BLOCK_LINES and not x[0].startswith("channel-group")]] if r.startswith("interface ") else [r, c] for r, c in u]
        for r, c in u:
            if r in lag_members:
                c.append([xrng.choice(LAG_SPELLINGS), []])
        acc.count("block_lines_added", add_block_lines(xrng, u))
        ti = {r: {x[0] for x in c} for r, c in t if r.startswith("interface ")}
        if any(r in ti and any(x[0].startswith(("vrf ", "ip binding")) for x in c) and {x[0] for x in c if x[0].startswith(("vrf ", "ip binding"))} != {y for y in ti[r] if y.startswith(("vrf ", "ip binding"))}
               for r, c in u if r.startswith("interface ")):
            acc.count("pairs_with_vrf_change_on_an_interface")
    w["other"] = u
    try:
        mu = complete(dev, u)
        m_tree, mu_tree = unplain(m), unplain(mu)
        diff, patch = _diff_and_patch(dev, m_tree, mu_tree, None, None, False)
        # the completed configurations are used again after the diff (shown, diffed against another target): they are what the completion made them
        acc.count("completed_trees_compared_after_the_diff")
        if plain(m_tree) != m or plain(mu_tree) != mu:
            side = "current" if plain(m_tree) != m else "desired"
            acc.violation("C17/completed-configuration-changed-by-the-diff", "computing the diff and the patch altered the completed configuration handed to it (its defaults are gone or moved)",
                          dict(w, side=side, before=(m if side == "current" else mu), after=(plain(m_tree) if side == "current" else plain(mu_tree))))
            return w
        v = registry_connector.get().match(dev.hw)
        cmds = [tuple(p) for p in v.make_formatter().cmd_paths(patch)]
    except Exception as e:
        acc.count("patch_skipped_exception")
        return w
    acc.count("patches_checked")
    # (d') the same configuration on both sides but for one more description line in every block: whatever the completion put beside the explicit
    # lines is unchanged on both sides and must neither show up nor make the patch fail
    import copy
    t2 = copy.deepcopy(t)
    for r_, c_ in t2:
        if c_ and all(x[0] != "description vf-touch" for x in c_):
            c_.append(["description vf-touch", []])
    t2.append(["sysname vf-touch" if model.startswith("Huawei") else "hostname vf-touch", []])
    try:
        _diff_and_patch(dev, unplain(t), unplain(t2), None, None, False)
        raw_ok = True
    except Exception:
        raw_ok = False
    if raw_ok:
        try:
            m2 = complete(dev, t2)
            _, patch_t = _diff_and_patch(dev, unplain(m), unplain(m2), None, None, False)
            cmds_t = [tuple(p) for p in v.make_formatter().cmd_paths(patch_t)]
        except Exception as e:
            acc.violation("C17/defaults-make-the-patch-fail", "a patch that only adds a description line per block fails once both sides are completed with the implicit defaults",
                          dict(w, error="%s: %s" % (type(e).__name__, str(e)[:200])))
            return w
        acc.count("touch_patches_checked")
        P2 = pure_defaults(t, m) & pure_defaults(t2, m2)
        for c in cmds_t:
            row = c[-1][len(v.reverse) + 1:] if c[-1].startswith(v.reverse + " ") else c[-1]
            if (c[:-1] + (row,) in P2 or c in P2 or c[:-1] + (v.reverse + " " + c[-1],) in P2) and not any(len(o) > len(c) and o[:len(c)] == c for o in cmds_t):
                acc.violation("C17/command-for-pure-default", "a patch command concerns a default line that is absent from both configurations", dict(w, command=list(c), touch=True))
                return w
    P = pure_defaults(t, m) & pure_defaults(u, mu)
    for op, p in diff_paths(strip_unchanged(diff)):
        if p in P and op in ("ADDED", "REMOVED", "MOVED"):
            acc.violation("C17/diff-mentions-pure-default", "a default line absent from both configurations appears in the diff", dict(w, path=list(p), op=op))
            return w
    pre = v.reverse + " "
    for c in cmds:
        row = c[-1][len(pre):] if c[-1].startswith(pre) else c[-1]
        cand = {c[:-1] + (row,), c[:-1] + (c[-1],), c[:-1] + (pre + c[-1],)}   # the line, its removal, or the positive command removing a line spelled negated
        hit = [x for x in cand if x in P]
        # a block header on the way to a real change is fine; a leaf command about a pure default is not
        if hit and not any(len(o) > len(c) and o[:len(c)] == c for o in cmds):
            acc.violation("C17/command-for-pure-default", "a patch command concerns a default line that is absent from both configurations", dict(w, command=list(c)))
            return w
    return w


def sorted_tree(t):
    return sorted([[r, sorted_tree(c)] for r, c in t])


def mutate(rng, t, rules):
    out = []
    for r, c in t:
        x = rng.random()
        if x < 0.25:
            continue
        out.append([r, mutate(rng, c, []) if c and x < 0.6 else c])
    extra = gen_tree(rng, rules)
    have = {r for r, _ in out}
    out += [[r, c] for r, c in extra if r not in have and rng.random() < 0.4]
    return out


def check_front(seed, acc, clear=False, flipacl=False):
    """production composition: _old_new_per_device(add_implicit=True) then _diff_and_patch; clear=True: the --clear mode (nothing is
    generated, the device is to be emptied of what the generators own)"""
    from annet.api import _diff_and_patch
    from annet.annlib.patching import strip_unchanged
    from annet.generators import GeneratorError
    from annet.vendors import registry_connector
    from vf import harness_gen as H
    rng = random.Random(seed)
    model, tags = rng.choice([m for m in MODELS if not m[0].startswith("Huawei CE")])
    dev = H.FakeDevice(Dev(model).hw)
    dev.tags = list(tags)
    rules = rules_of(dev)
    v = registry_connector.get().match(dev.hw)
    fmt = v.make_formatter()
    t = [] if rng.random() < 0.3 else gen_tree(rng, rules)
    u = gen_tree(rng, rules)
    if clear:
        t = t or gen_tree(rng, rules)
        acc.count("front_runs_clear_mode")
    w = {"front": True, "clear": clear, "flipacl": flipacl, "seed": seed, "model": model, "tags": list(tags), "tree": t, "other": u}
    acl_text = "~ %global"
    if flipacl:
        # the generator wants what the device has, plus a description in some blocks: every default that is pure on one side is pure on the other
        urng = random.Random(seed ^ 0xF11B)
        t = t or gen_tree(rng, rules)
        u = [[r, ([["description zz", []]] if c and urng.random() < 0.5 and all(x[0] != "description zz" for x in c) else []) + [list(x) for x in c]] for r, c in t]
        w["tree"], w["other"] = t, u
        # the generator's ACL names every line of both sides and every default by its own text, and a line spelled negated (`no shutdown`,
        # `undo synchronization`) by the POSITIVE command: such a line is covered through the negated form of that rule
        t0 = t
        if not t0:
            from annet import generators as _g
            t0 = plain(_g.run_partial_initial(dev).config_tree())
        allrows = merge(merge(merge(u, t0), ref_implicit(t0, rules)), ref_implicit(u, rules))
        pre_ = v.reverse + " "
        nflip = [0]

        def acl_lines(tree, ind=0):
            out = []
            for r, c in tree:
                if any(ch in r for ch in "*~()[]{}|?+\\^$%") or r.startswith(("!", "#")):
                    return None
                if r.startswith(pre_):
                    nflip[0] += 1
                out.append(" " * ind + (r[len(pre_):] if r.startswith(pre_) else r))
                sub = acl_lines(c, ind + 4)
                if sub is None:
                    return None
                out += sub
            return out
        lines = acl_lines(allrows)
        if lines is None or not nflip[0]:
            acc.count("front_flip_skipped")
            return
        acl_text = "\n".join(lines)
        acc.count("front_runs_with_defaults_covered_through_the_negated_form_of_a_rule")
        w["acl"] = acl_text
    gen = H.make_partial("GenAll", v.NAME, acl_text, H.tree_runner(u))
    if clear:
        u = []
    try:
        res = H.old_new(dev, [gen], fmt.join(unplain(t)), add_implicit=True, no_new=clear)
        if res.err:
            raise res.err
        diff, patch = _diff_and_patch(dev, res.old, res.new, res.acl_rules, res.filter_acl_rules, False)
        cmds = [tuple(p) for p in fmt.cmd_paths(patch)]
    except GeneratorError:
        acc.count("front_skipped")
        return
    except Exception as e:
        acc.count("front_skipped_exception")
        return
    acc.count("front_runs")
    if not t:
        acc.count("front_runs_empty_device")
    # the explicit device configuration: the text, or the vendor's initial configuration when the text is empty
    t_eff = t
    if not t:
        from annet import generators
        t_eff = plain(generators.run_partial_initial(dev).config_tree())
    dt = ref_implicit(t_eff, rules)
    du = ref_implicit(u, rules)

    def pure(def_tree, explicit, prefix=()):
        em = {r: c for r, c in explicit}
        out = set()
        for r, c in def_tree:
            if r not in em:
                out.add(prefix + (r,))
                out |= pure(c, [], prefix + (r,))
            else:
                out |= pure(c, em[r], prefix + (r,))
        return out
    P = pure(dt, t_eff) & pure(du, u)
    acc.case(["front", model, t, u], nontrivial=bool(P))
    for op, p in diff_paths(strip_unchanged(diff)):
        if p in P and op in ("ADDED", "REMOVED"):
            acc.violation("C17/front-end-diff-mentions-pure-default", "through the production front end, a default line absent from both the device text and the generator output appears in the diff",
                          dict(w, path=list(p), op=op))
            return
    pre = v.reverse + " "
    for c in cmds:
        row = c[-1][len(pre):] if c[-1].startswith(pre) else c[-1]
        # (a command concerns a line when it is the line, its removal, or - for a line that is itself spelled negated - the positive command)
        if ({c[:-1] + (row,), c[:-1] + (pre + c[-1],)} & P) and not any(len(o) > len(c) and o[:len(c)] == c for o in cmds):
            acc.violation("C17/front-end-command-for-pure-default", "through the production front end, a patch command concerns a default line absent from both sides", dict(w, command=list(c)))
            return


def check_front_safe(seed, acc):
    """--acl-safe with implicit completion: the safe configuration is completed from the safe generators' output only"""
    from annet.generators import GeneratorError
    from annet.vendors import registry_connector
    from vf import harness_gen as H
    rng = random.Random(seed)
    model, tags = rng.choice([m for m in MODELS if not m[0].startswith("Huawei CE")])
    dev = H.FakeDevice(Dev(model).hw)
    dev.tags = list(tags)
    rules = rules_of(dev)
    v = registry_connector.get().match(dev.hw)
    fmt = v.make_formatter()
    t = [] if rng.random() < 0.3 else gen_tree(rng, rules)
    u_unsafe = gen_tree(rng, rules)
    u_safe = [x for x in gen_tree(rng, rules) if x[0] not in {r for r, _ in u_unsafe}]  # the two generators own different top-level rows
    w = {"front": "safe", "seed": seed, "model": model, "tags": list(tags), "tree": t, "unsafe_output": u_unsafe, "safe_output": u_safe}
    acl_u = "\n".join(sorted({r for r, _ in u_unsafe})) or "nothing"
    acl_s = "\n".join(sorted({r for r, _ in u_safe})) or "nothing"

    def block_acl(tree):
        return "\n".join("%s\n    ~ %%global" % r.replace("*", "\\*") for r, _ in tree) or "nothing"
    g_u = H.make_partial("GenUnsafe", v.NAME, block_acl(u_unsafe), H.tree_runner(u_unsafe))
    g_s = H.make_partial("GenSafe", v.NAME, block_acl(u_safe), H.tree_runner(u_safe), acl_safe_text=block_acl(u_safe))
    try:
        res = H.old_new(dev, [g_u, g_s], fmt.join(unplain(t)), add_implicit=True, acl_safe=True, no_acl_exclusive=True)
        if res.err:
            raise res.err
    except GeneratorError:
        acc.count("front_safe_skipped")
        return
    except Exception:
        acc.count("front_safe_skipped_exception")
        return
    acc.count("front_safe_runs")
    got = plain(res.safe_new)
    top_safe = {r for r, _ in u_safe}
    exp_full = merge(u_safe, ref_implicit(u_safe, rules))
    from vf.ref import rulelang as Rl
    # the safe ACL lists the safe generator's own top-level rows as patterns (a pattern also covers rows that continue it) and everything below them
    exp = [x for x in exp_full if any(Rl.match(r, x[0]) is not None for r in top_safe if "*" not in r) or x[0] in top_safe]
    acc.case(["front-safe", model, t, u_unsafe, u_safe], nontrivial=bool(u_unsafe) and bool(u_safe))
    if sorted_tree(got) != sorted_tree(exp):
        leaked = sorted(r for r, _ in got if r not in {x[0] for x in exp})
        acc.violation("C17/front-end-safe-config-not-completed-from-safe-output",
                      "with --acl-safe the safe configuration is not the safe generators' output completed with its own implicit defaults (lines of other generators leak in, or defaults are missing)",
                      dict(w, safe_new=sorted_tree(got), expected=sorted_tree(exp), leaked_top_level_rows=leaked))


def run_shard(spec, acc):
    if spec["mode"] == "replay":
        w = spec["witness"]
        if w.get("front") == "safe":
            check_front_safe(w["seed"], acc)
        else:
            if w.get("front"):
                check_front(w["seed"], acc, clear=bool(w.get("clear")), flipacl=bool(w.get("flipacl")))
            else:
                check_case(w["seed"], acc, blk=bool(w.get("blk")))
        return
    tier, k, n = spec["tier"], spec["shard"], spec["nshards"]
    total = 6000 if tier == "quick" else 120000
    rng = random.Random("C17/%s/%s" % (spec["seed"], k))
    frng = random.Random("C17/flipacl/%s/%s" % (spec["seed"], k))
    for j in range(total // n):
        w = check_case(rng.randrange(1 << 48), acc)
        if j < 2 and w:
            acc.sample({k2: w[k2] for k2 in ("model", "tags", "tree")})
        if j % 3 == 1:
            check_case(rng.randrange(1 << 48), acc, blk=True)
        if j % 8 == 0:
            check_front(rng.randrange(1 << 48), acc)
        if j % 8 == 4:
            check_front_safe(rng.randrange(1 << 48), acc)
        if j % 8 == 6:
            check_front(rng.randrange(1 << 48), acc, clear=True)
        if j % 8 in (2, 5):
            check_front(frng.randrange(1 << 48), acc, flipacl=True)
