"""C07 - rule patterns mean what the rule language says, in every rulebook kind.

Monitors (oracle = vf.ref.rulelang, R1):
  A  word-level reference vs compile_row_regexp on an exhaustive pattern x row scope; reverse templates
     (patching._make_reverse) and reverse recognisers (acl._make_reverse, ordering reverse_regexp) on every match;
  B  the five text compilers (patching, acl, ordering, deploying, implicit) on one shared text must all give
     rules whose regexps agree with the reference (they share one compiler);
  C  every rule line of every shipped .rul/.order/.deploy file (rendered for each hardware family the templates
     branch on): the *production* compiled regexp / reverse of that line vs the regex-level reference on rows
     synthesised from the line and near-miss mutations of them.
"""
import itertools
import random
import re

from vf.ref import rulelang as R

LEVEL = "exploration"
RULE = ("A: all patterns of <=3 (quick) / <=4 (thorough) tokens over {a, b, *, */[ab]+/} with and without a trailing ~, "
        "with and without the vendor negation word in front, x all rows of <=4 / <=5 words over {a, b, c, ab} (+ negated rows), "
        "plus (?i), '...' and <name> classes; B: the same patterns through the five compile_*_text compilers for every "
        "negation word; C: every rule line of every shipped rule file x hardware families, rows synthesised from the line "
        "(placeholders filled, regex fragments instantiated by an sre_parse sampler) and near-miss mutations (drop/append/"
        "alter a word, glue a suffix, change case, add/remove negation word). Non-trivial: the pattern has >=1 placeholder "
        "and the row matches or misses by exactly one word. Distinct: hash of (pattern, row).")
ASSUMPTIONS = [
    "R1 (vf/ref/rulelang.py) is the meaning of the rule language; generated literals contain no regex metacharacters",
    "shipped lines embed regex fragments in literals: judged by the token-wise regex-level reference, match result and groups compared",
    "lines whose fragments the sampler cannot instantiate are skipped and counted (skipped_unsampled)",
]
EXHAUSTIVE = {"quick": True, "thorough": True}
FLOORS = {"quick": {"A_matches": 5000, "A_reverse": 2000, "B_rules": 150, "B_ignore_rules": 100, "B_ignore_case_rules": 100, "C_lines": 1500, "C_rows": 10000, "B_inline_flag_rules": 400, "B_nested_ignore_rules": 200, "B_governing_rule_lookups": 8000, "B_implicit_completions": 60, "B_inline_flag_diffs": 30, "B_inline_flag_negated_forms": 200, "B_texts_with_parameters_on_a_line_at_the_left_margin": 1, "B_texts_loaded_through_the_provider": 9},
          "thorough": {"A_matches": 5000, "A_reverse": 2000, "B_rules": 150, "B_ignore_rules": 100, "B_ignore_case_rules": 100, "C_lines": 1500, "C_rows": 10000}}
PREFIXES = ["undo", "no", "delete", "remove", "-"]
VENDOR_BY_PREFIX = {"undo": "huawei", "no": "cisco", "delete": "juniper", "remove": "routeros", "-": "pc"}
TOKS = ["a", "b", "*", "*/[ab]+/"]
WORDS = ["a", "b", "c", "ab"]


def plan(tier, seed):
    n = 8 if tier == "quick" else 16
    specs = [{"mode": "A", "tier": tier, "seed": seed, "shard": k, "nshards": n} for k in range(n)]
    specs.append({"mode": "B", "tier": tier, "seed": seed})
    from vf import corpus, env
    env.setup()
    for name in corpus.rule_files():
        specs.append({"mode": "C", "tier": tier, "seed": seed, "file": name})
    for ext_ in ("rul", "order", "deploy"):
        specs.append({"mode": "C", "tier": tier, "seed": seed, "file": "vf_extra." + ext_})
    return specs


def patterns(maxtok):
    for n in range(0, maxtok + 1):
        for toks in itertools.product(TOKS, repeat=n):
            for tilde in (False, True):
                if n == 0 and not tilde:
                    continue
                yield " ".join(toks + (("~",) if tilde else ()))


def rows(maxw):
    for n in range(1, maxw + 1):
        for ws in itertools.product(WORDS, repeat=n):
            yield " ".join(ws)


def n_placeholders(p):
    toks, tail, _ = R.tokenize(p)
    return sum(1 for t in toks if t[0] != "lit") + (1 if tail == "tilde" else 0)


def near(p, r):
    """row matches, or misses by one word: dropping/altering exactly one word could flip the outcome"""
    toks, tail, _ = R.tokenize(p)
    need = len(toks) + (1 if tail == "tilde" else 0)
    return abs(len(r.split()) - need) <= 1


def check_match(p, r, acc, flags=0, real=None, tag="A"):
    from annet.annlib.rbparser.syntax import compile_row_regexp
    rx = real or compile_row_regexp(p, flags)
    m = rx.match(r)
    got = None if m is None else tuple(m.groups())
    if p.endswith(" ..."):
        # a free-standing ellipsis: the words in front of it, then at least one more word of any kind
        pw, ws = p[:-4].split(), r.split()
        exp = R.match(" ".join(pw) + " ~", r) if len(ws) > len(pw) else None
        exp = None if exp is None else tuple(exp[:-1])
    else:
        exp = R.match(p, r)
    acc.case([p, r], nontrivial=(n_placeholders(p) >= 1 and near(p, r)))
    if exp is not None:
        acc.count(tag + "_matches")
    if (got is None) != (exp is None):
        kind = "matches-too-much" if exp is None else "fails-to-match"
        acc.violation("C07/%s/%s" % (tag, kind), "compiled rule pattern %s against the language definition" % kind,
                      {"pattern": p, "row": r, "flags": flags, "expected_key": exp, "got_key": got, "regex": rx.pattern})
        return None
    if got != exp:
        acc.violation("C07/%s/wrong-key" % tag, "key extracted from a matching row differs from the words bound to the placeholders",
                      {"pattern": p, "row": r, "flags": flags, "expected_key": exp, "got_key": got, "regex": rx.pattern})
        return None
    return exp


def check_reverse(p, r, key, prefix, acc):
    from annet.rulebook.patching import _make_reverse as p_rev
    from annet.annlib.rbparser.acl import _make_reverse as a_rev
    from annet.annlib.rbparser.syntax import compile_row_regexp
    exp = R.reverse(p, prefix, key)
    try:
        got = p_rev(p, prefix).format(*key)
    except Exception as e:
        got = "<%s>" % type(e).__name__
    acc.count("A_reverse")
    if got != exp:
        acc.violation("C07/A/reverse-template", "removal command derived from a rule is not <negation word> + rule words with the key substituted",
                      {"pattern": p, "row": r, "prefix": prefix, "key": key, "expected": exp, "got": got})
    # the removal command is recognised by the reverse form of the pattern (ACL recogniser), and negating twice is the identity
    rp = a_rev(p, prefix)
    exp_rp = " ".join(R.reverse_words(p, prefix))
    for row2 in (exp, r):
        m = compile_row_regexp(rp).match(row2)
        e2 = R.match(exp_rp, row2)
        if (m is None) != (e2 is None) or (m is not None and tuple(m.groups()) != e2):
            acc.violation("C07/A/acl-reverse-recogniser", "reverse form of an ACL rule does not recognise exactly the negated rows",
                          {"pattern": p, "prefix": prefix, "reverse_pattern": rp, "expected_reverse_pattern": exp_rp, "row": row2})
    back = a_rev(a_rev(p, prefix), prefix)
    p_sans = p
    if R.reverse_words(" ".join(R.reverse_words(p, prefix)), prefix) != back.split():
        acc.violation("C07/A/double-negation", "negating a negated rule does not give back the plain rule",
                      {"pattern": p, "prefix": prefix, "got": back})


def run_A(spec, acc):
    tier, k, n = spec["tier"], spec["shard"], spec["nshards"]
    maxtok, maxw = (3, 4) if tier == "quick" else (4, 5)
    allrows = list(rows(maxw))
    i = 0
    for p0 in patterns(maxtok):
        for neg in (None, "undo", "no"):
            i += 1
            if i % n != k:
                continue
            p = p0 if neg is None else neg + " " + p0
            rs = allrows if neg is None else [neg + " " + r for r in allrows if len(r.split()) < maxw] + allrows[:40]
            for r in rs:
                key = check_match(p, r, acc)
                if key is not None and len(r.split()) <= 3:
                    for prefix in (PREFIXES if neg is None else [neg, "delete"]):
                        check_reverse(p, r, key, prefix, acc)
            if i % 50 == k:
                acc.sample({"pattern": p, "row": rs[len(rs) // 2], "ref_key": R.match(p, rs[len(rs) // 2])})
    if k == 1 % n:
        # first word merely *begins with* the negation word (notification / undoable / deleted ...): not a negated rule
        for prefix in PREFIXES:
            for first in (prefix + "x", prefix + "-a", prefix + prefix):
                for tail in ("", " *", " a *", " * ~", " */[ab]+/"):
                    p = first + tail
                    for r in [first, first + " a", first + " a b", first + " b a c", prefix + " " + first + " a", prefix + " a", "x a"]:
                        key = check_match(p, r, acc)
                        acc.count("A_lookalike")
                        if key is not None:
                            check_reverse(p, r, key, prefix, acc)
    if k == 2 % n:
        # rules written in negated form whose next word begins with letters of the negation word (undo dhcp, no negotiation)
        for prefix in PREFIXES:
            for w in ("d", "nd", "o", "un", "n", "-", "r", "e"):
                for tail in ("", " *", " a ~"):
                    p = prefix + " " + w + tail
                    for r in [prefix + " " + w, prefix + " " + w + " a", prefix + " " + w + " a b", w, w + " a", w + " a b", "x"]:
                        key = check_match(p, r, acc)
                        acc.count("A_negform")
                        if key is not None:
                            check_reverse(p, r, key, prefix, acc)
    if k == 0:
        # flag, ellipsis and named-group classes
        for p0 in patterns(2):
            p = "(?i)" + p0
            for r in rows(3):
                for r2 in (r, r.upper(), r.capitalize()):
                    check_match(p, r2, acc)
                    acc.count("A_icase")
        for p, rs in [("a b...", ["a b", "a bc", "a c", "a", "a b c", "ab b"]), ("a...", ["a", "ab", "b", "a b"]),
                      ("a ...", ["a", "a b", "ab", "ab c", "a-x y", "a  b c"]), ("a * ...", ["a b", "a bc d", "a", "a b", "a bx"]), ("a */[ab]+/ ...", ["a ab c", "a abc d", "a ab", "a a b"]),
                      ("* a...", ["x a", "x ab c", "x b"]), ("a <name>", ["a b", "a b-c", "a", "a b_1 c"]),
                      ("<n1> a <n2>", ["x a y", "x a", "x-y a z"]), ("a */[ab]+/ ~", ["a ab c d", "a c d", "a ab"])]:
            for r in rs:
                check_match(p, r, acc)
                acc.count("A_special")


def run_B(spec, acc):
    """one shared text through all five compilers"""
    from annet.rulebook.patching import compile_patching_text
    from annet.annlib.rbparser.acl import compile_acl_text
    from annet.annlib.rbparser.ordering import compile_ordering_text
    from annet.rulebook.deploying import compile_deploying_text, match_deploy_rule
    from annet.annlib.rbparser import syntax
    from annet import implicit
    maxtok = 2 if spec["tier"] == "quick" else 3
    pats = [p for p in patterns(maxtok)]
    # column-aligned / tab-separated spellings and negation-word lookalikes go through the text compilers too
    pats += ["c  a *", "c\tb  *", "undo   c a", "no  c\tb", "c   ~", "undox *", "nox a *", "notify *", "deleted *", "removex ~", "-x *"]
    text = "\n".join(pats)
    probe_rows = list(rows(3)) + ["undo " + r for r in rows(2)] + ["no " + r for r in rows(2)]
    probe_rows += ["c a x", "c b y", "undo c a", "no c b", "c z z", "undox q", "nox a q", "notify q", "deleted q", "removex q r", "-x q",
                   "undo undox q", "no nox a q", "no notify q", "delete deleted q", "remove removex q r", "- -x q", "x q", "ify q", "tify q", "c a", "a x"]
    for prefix, vendor in VENDOR_BY_PREFIX.items():
        comp = {
            "patching": compile_patching_text(text, vendor)["local"],
            "acl": compile_acl_text(text, vendor)["local"],
            "ordering": compile_ordering_text(text, vendor),
            "deploying": compile_deploying_text(text, vendor),
            "implicit": implicit.compile_tree(syntax.parse_text(text, {})),
        }
        for p in pats:
            regs = {}
            pc = " ".join(p.split())  # some compilers key their rules by the whitespace-normalised row
            rule_of = {kind: (d[p] if p in d else d.get(pc)) for kind, d in comp.items()}
            try:
                if any(v is None for v in rule_of.values()):
                    raise KeyError([k for k, v in rule_of.items() if v is None])
                regs["patching"] = rule_of["patching"]["attrs"]["regexp"]
                regs["acl"] = rule_of["acl"]["attrs"]["direct_regexp"]
                regs["ordering"] = rule_of["ordering"]["attrs"]["direct_regexp"]
                regs["deploying"] = rule_of["deploying"]["attrs"]["regexp"]
                regs["implicit"] = rule_of["implicit"]["regexp"]
            except KeyError as e:
                acc.violation("C07/B/rule-lost", "a compiler lost a rule line of the shared text", {"pattern": p, "vendor": vendor, "err": repr(e)})
                continue
            acc.count("B_rules")
            exp_rp = " ".join(R.reverse_words(p, prefix))
            for r in probe_rows:
                exp = R.match(p, r)
                for kind, rx in regs.items():
                    m = rx.match(r)
                    got = None if m is None else tuple(m.groups())
                    acc.case([kind, p, r], nontrivial=(n_placeholders(p) >= 1 and near(p, r)))
                    if got != exp:
                        acc.violation("C07/B/%s-compiler-disagrees" % kind, "rule compiled by the %s compiler does not mean what the language says" % kind,
                                      {"pattern": p, "row": r, "vendor": vendor, "expected_key": exp, "got_key": got})
                # deploy rule matching of a one-element path
                rule = match_deploy_rule(comp["deploying"], (r,), {})
                first = next((q for q in pats if R.match(q, r) is not None), None)
                got_first = next((q for q, v in comp["deploying"].items() if v is rule), None)
                if got_first != first:
                    acc.violation("C07/B/match_deploy_rule", "deploy rule chosen for a command is not the first rule whose pattern matches",
                                  {"row": r, "expected_rule": first, "got_rule": got_first})
                # reverse recognisers
                e2 = R.match(exp_rp, r)
                for kind, rx in (("acl", rule_of["acl"]["attrs"]["reverse_regexp"]), ("ordering", rule_of["ordering"]["attrs"]["reverse_regexp"])):
                    m = rx.match(r)
                    got = None if m is None else tuple(m.groups())
                    if got != e2:
                        acc.violation("C07/B/%s-reverse-recogniser" % kind, "reverse form of a %s rule does not recognise exactly the negated rows" % kind,
                                      {"pattern": p, "row": r, "vendor": vendor, "expected_key": e2, "got_key": got})
                if exp is not None:
                    got_rev = rule_of["patching"]["attrs"]["reverse"].format(*exp)
                    if got_rev != R.reverse(p, prefix, exp):
                        acc.violation("C07/B/reverse-template", "removal command template of a compiled patching rule is wrong",
                                      {"pattern": p, "row": r, "vendor": vendor, "expected": R.reverse(p, prefix, exp), "got": got_rev})
        # filter ACLs (--filter-acl / --filter-ifaces / --filter-peers) are compiled with allow_ignore=True and may hold '!'-rules:
        # an ignore rule recognises the same rows, directly and in negated form, as the plain rule
        ipats = [q for q in pats if not q.startswith("-")]
        icomp = compile_acl_text("\n".join("!" + q for q in ipats), vendor, True)["local"]
        for q in ipats:
            rule = icomp.get("!" + q) or icomp.get("!" + " ".join(q.split()))
            if rule is None or rule["type"] != "ignore":
                acc.violation("C07/B/rule-lost", "the ACL compiler lost an ignore rule of the text", {"pattern": "!" + q, "vendor": vendor})
                continue
            acc.count("B_ignore_rules")
            exp_rp = " ".join(R.reverse_words(q, prefix))
            for r in probe_rows:
                for which, rx, e in (("direct", rule["attrs"]["direct_regexp"], R.match(q, r)), ("reverse", rule["attrs"]["reverse_regexp"], R.match(exp_rp, r))):
                    m = rx.match(r)
                    got = None if m is None else tuple(m.groups())
                    if got != e:
                        acc.violation("C07/B/acl-ignore-rule-%s-recogniser" % which, "an ignore rule of a filter ACL does not recognise the rows its pattern (or its negated form) means",
                                      {"pattern": "!" + q, "row": r, "vendor": vendor, "expected_key": e, "got_key": got})
        # ... and the same ignore rules one and two levels down inside blocks
        nq = [q for q in ipats if "\t" not in q][:30]
        ntext = "\n".join("w%d *\n    !%s\n    v%d *\n        !%s" % (i, q, i, q) for i, q in enumerate(nq))
        try:
            ncomp = compile_acl_text(ntext, vendor, True)["local"]
        except Exception as e:
            acc.violation("C07/B/nested-ignore-rules-do-not-compile", "a filter ACL with ignore rules inside blocks is refused although ignore rules are allowed", {"vendor": vendor, "error": repr(e)[:200]})
            ncomp = {}
        for i, q in enumerate(nq):
            blk = ncomp.get("w%d *" % i)
            if blk is None:
                continue
            lvl1 = blk["children"]["local"]
            r1 = lvl1.get("!" + q) or lvl1.get("!" + " ".join(q.split()))
            blk2 = lvl1.get("v%d *" % i)
            lvl2 = blk2["children"]["local"] if blk2 else {}
            r2 = lvl2.get("!" + q) or lvl2.get("!" + " ".join(q.split()))
            for depth, rule in ((1, r1), (2, r2)):
                if rule is None or rule["type"] != "ignore":
                    acc.violation("C07/B/rule-lost", "the ACL compiler lost an ignore rule of the text", {"pattern": "!" + q, "vendor": vendor, "depth": depth})
                    continue
                acc.count("B_nested_ignore_rules")
                for r in probe_rows[:40]:
                    m = rule["attrs"]["direct_regexp"].match(r)
                    got = None if m is None else tuple(m.groups())
                    if got != R.match(q, r):
                        acc.violation("C07/B/acl-ignore-rule-direct-recogniser", "an ignore rule of a filter ACL does not recognise the rows its pattern (or its negated form) means",
                                      {"pattern": "!" + q, "row": r, "vendor": vendor, "depth": depth, "expected_key": R.match(q, r), "got_key": got})
        # the same rows once more with %ignore_case (compiled AFTER their case-sensitive twins in this process): the flag belongs
        # to the rule, not to the row text
        ic = compile_patching_text("\n".join(q + "  %ignore_case" for q in ipats), vendor)["local"]
        for q in ipats:
            rule = ic.get(q + "  %ignore_case") or ic.get(q) or ic.get(" ".join(q.split()))
            plain_rule = comp["patching"].get(q) or comp["patching"].get(" ".join(q.split()))
            if rule is None or plain_rule is None:
                continue
            acc.count("B_ignore_case_rules")
            for r in probe_rows[:60]:
                for r2 in (r, r.upper()):
                    for which, rx, e in (("ignore_case", rule["attrs"]["regexp"], R.match("(?i)" + q, r2)), ("plain", plain_rule["attrs"]["regexp"], R.match(q, r2))):
                        m = rx.match(r2)
                        got = None if m is None else tuple(m.groups())
                        if got != e:
                            acc.violation("C07/B/ignore_case-flag-%s-rule" % which, "a row compiled with and without %ignore_case in one process: the flag of one leaks into the other",
                                          {"pattern": q, "row": r2, "vendor": vendor, "expected_key": e, "got_key": got})
        # the inline flag `(?i)` (in front of the row, or inside a placeholder's regex) through every compiler: the rule recognises its rows in any letter case
        iq = [q for q in ipats if "\t" not in q and "  " not in q][:40]
        itexts = {("(?i)" + q): "(?i)" + q for q in iq}
        # ... also with three placeholders of one kind in one rule
        for q in ("a * * *", "* * *", "c */[a-c]+/ */[a-c]+/ */[a-c]+/ x", "b * * * ~"):
            itexts["(?i)" + q] = "(?i)" + q
        itext = "\n".join(itexts)
        try:
            icomp5 = {
                "patching": compile_patching_text(itext, vendor)["local"],
                "acl": compile_acl_text(itext, vendor)["local"],
                "ordering": compile_ordering_text(itext, vendor),
                "deploying": compile_deploying_text(itext, vendor),
                "implicit": implicit.compile_tree(syntax.parse_text(itext, {})),
            }
        except Exception as e:
            acc.violation("C07/B/inline-flag-text-does-not-compile", "a rule text using the inline (?i) flag is refused by a compiler", {"vendor": vendor, "error": repr(e)[:200]})
            icomp5 = {}
        key_of = {"patching": "regexp", "acl": "direct_regexp", "ordering": "direct_regexp", "deploying": "regexp"}
        for line, refpat in itexts.items():
            for kind, d in icomp5.items():
                rule = d.get(line)
                if rule is None:
                    acc.violation("C07/B/rule-lost", "a compiler lost a rule line of the shared text", {"pattern": line, "vendor": vendor, "compiler": kind})
                    continue
                rx = rule["regexp"] if kind == "implicit" else rule["attrs"][key_of[kind]]
                acc.count("B_inline_flag_rules")
                for r in probe_rows[:50] + ["a b c a", "a b c", "b a c", "c a b c x", "c a b d x", "b a b c a b", "a b c a b"]:
                    for r2 in (r, r.upper(), r.title()):
                        m = rx.match(r2)
                        got = None if m is None else tuple(m.groups())
                        e = R.match(refpat, r2)
                        if got != e:
                            acc.violation("C07/B/inline-ignore-case-flag/%s" % kind, "a rule written with the inline (?i) flag does not recognise its rows independently of letter case in the %s compiler" % kind,
                                          {"pattern": line, "row": r2, "vendor": vendor, "expected_key": e, "got_key": got})
        # ... the negated form of such a rule (ACL and ordering rules carry one) recognises the negated rows in any letter case too
        for line, refpat in itexts.items():
            q0 = refpat[len("(?i)"):]
            if q0.split()[0] == prefix:
                continue
            for kind in ("acl", "ordering"):
                rule = icomp5.get(kind, {}).get(line)
                if rule is None:
                    continue
                rx2 = rule["attrs"]["reverse_regexp"]
                acc.count("B_inline_flag_negated_forms")
                for r in probe_rows[:40] + ["a b c a", "a b c", "b a c", "c a b c x"]:
                    for r2 in (prefix + " " + r, (prefix + " " + r).upper(), prefix + " " + r.title()):
                        got = rx2.match(r2) is not None
                        e = R.match("(?i)" + prefix + " " + q0, r2) is not None
                        if got != e:
                            acc.violation("C07/B/inline-ignore-case-flag/%s-negated-form" % kind, "the negated form of a rule written with the inline (?i) flag does not recognise its rows independently of letter case",
                                          {"pattern": line, "row": r2, "vendor": vendor, "expected_match": e, "got_match": got})
        # ... and where the compiled rules are applied to configuration lines: the rule that governs a line in a patching rulebook is the first
        # one whose pattern matches it (case-insensitively for %ignore_case rules), with the key its placeholders bind
        from annet.annlib.patching import _match_row_to_rules
        full = compile_patching_text(text, vendor)
        full_ic = compile_patching_text("\n".join(q + "  %ignore_case" for q in ipats), vendor)
        for rules_c, plist, fl, tag_ in ((full, pats, "", "plain"), (full_ic, ipats, "(?i)", "ignore_case")):
            for r in probe_rows[:70]:
                for r2 in ((r,) if tag_ == "plain" else (r, r.upper(), r.title())):
                    m_, _ = _match_row_to_rules(r2, rules_c)
                    want = next((q for q in plist if R.match(fl + q, r2) is not None), None)
                    got_rule = None if m_ is None else m_["raw_rule"]
                    acc.count("B_governing_rule_lookups")
                    ok = (want is None and got_rule is None) or (want is not None and got_rule is not None and " ".join(got_rule.replace("%ignore_case", "").split()) == " ".join(want.split()))
                    if not ok:
                        acc.violation("C07/B/governing-rule-lookup/%s" % tag_, "the rule found for a configuration line is not the first rule of the text whose pattern matches it",
                                      {"row": r2, "vendor": vendor, "expected_rule": want, "got_rule": got_rule})
                    elif want is not None and tuple(m_["key"]) != tuple(R.match(fl + want, r2)):
                        acc.violation("C07/B/governing-rule-key/%s" % tag_, "the key extracted for a configuration line is not what the placeholders of its rule bind",
                                      {"row": r2, "vendor": vendor, "rule": want, "expected_key": R.match(fl + want, r2), "got_key": list(m_["key"])})
        # ... each %ignore_case rule on its own (in the shared text the placeholder-headed rules come first and take most lines)
        for q in [q_ for q_ in ipats if "\t" not in q_ and "  " not in q_ and q_.split()[0].isalnum()][:30]:
            alone = compile_patching_text(q + "  %ignore_case\n", vendor)
            for r in probe_rows[:60]:
                for r2 in (r, r.upper(), r.title()):
                    m_, _ = _match_row_to_rules(r2, alone)
                    e_ = R.match("(?i)" + q, r2)
                    acc.count("B_governing_rule_lookups")
                    if (m_ is None) != (e_ is None) or (m_ is not None and tuple(m_["key"]) != tuple(e_)):
                        acc.violation("C07/B/governing-rule-lookup/ignore_case", "the rule found for a configuration line is not the first rule of the text whose pattern matches it",
                                      {"row": r2, "vendor": vendor, "rule": q + " %ignore_case", "expected_key": e_, "got_key": None if m_ is None else list(m_["key"])})
        # implicit rule texts: a plain rule with a nested default; every line it matches keeps its place and gets the nested default
        for q in [q_ for q_ in ipats if "\t" not in q_ and "  " not in q_][:25]:
            itree = implicit.compile_tree(syntax.parse_text("%s\n    zz-default 1\n" % q, {}))
            rows_m = [r for r in probe_rows[:60] if R.match(q, r) is not None][:3]
            if not rows_m:
                continue
            from collections import OrderedDict as _od
            cfg = _od((r, _od()) for r in rows_m)
            got_i = implicit.config(cfg, itree)
            acc.count("B_implicit_completions")
            if sorted(got_i) != sorted(rows_m) or any(list(got_i[r]) != ["zz-default 1"] for r in got_i):
                acc.violation("C07/B/implicit-rule-applied-to-other-lines", "an implicit rule with a nested default does not complete exactly the lines its pattern matches",
                              {"pattern": q, "vendor": vendor, "lines": rows_m, "completion": {k: list(v) for k, v in got_i.items()}})
        # ... the (?i) marker of a patching rule is also what the diff goes by: two lines that differ in letter case only are one line
        from annet.annlib.patching import make_diff, strip_unchanged
        from collections import OrderedDict as _od2
        for q in [q_ for q_ in iq if q_.split()[0].isalnum()][:12]:
            rows_m = [r for r in probe_rows[:70] if R.match(q, r) is not None and r.upper() != r][:2]
            for r in rows_m:
                for fl_, want_empty in (("(?i)", True), ("", False)):
                    rb_ = {"patching": compile_patching_text(fl_ + q + "\n", vendor)}
                    try:
                        d_ = strip_unchanged(make_diff(_od2([(r, _od2())]), _od2([(r.upper(), _od2())]), rb_, []))
                    except Exception as e:
                        acc.violation("C07/B/inline-flag-diff-exception", "make_diff raised under a one-rule rulebook", {"pattern": fl_ + q, "row": r, "vendor": vendor, "error": repr(e)[:200]})
                        continue
                    acc.count("B_inline_flag_diffs")
                    if want_empty and d_:
                        acc.violation("C07/B/inline-ignore-case-flag/diff", "under a patching rule written with the inline (?i) flag, two lines that differ in letter case only are reported as a change",
                                      {"pattern": fl_ + q, "old": r, "new": r.upper(), "vendor": vendor, "diff_entries": len(d_)})
        run_B_provider(acc, vendor)
    acc.sample({"shared_text_lines": pats[:8], "probe_rows": probe_rows[:8]})
    run_B_nested(acc)


PROVIDER_LINES = ["# a comment line", "channel#1 *", "alias */\\w+#\\d+/ ~", "   # an indented comment line", "save#force ~ %timeout=45", "plain *", "c#"]


def run_B_provider(acc, vendor):
    """rule texts reach the compilers through the rulebook provider (files under <root>/texts): what it hands on is the file's text without
    its comment LINES - a `#` inside a word or a placeholder's expression belongs to the rule"""
    import shutil
    import tempfile
    from annet.rulebook import DefaultRulebookProvider
    from annet.rulebook.patching import compile_patching_text
    from annet.annlib.rbparser.ordering import compile_ordering_text
    from annet.rulebook.deploying import compile_deploying_text
    from annet.vendors import registry_connector
    v = registry_connector.get()[vendor]
    hw = v.hardware
    text = "\n".join(PROVIDER_LINES) + "\n"
    own = "\n".join(ln for ln in PROVIDER_LINES if not ln.lstrip().startswith("#")) + "\n"
    d = tempfile.mkdtemp(prefix="vf_c07_")
    try:
        import os
        os.makedirs(os.path.join(d, "texts"))
        from annet.annlib.rbparser.platform import VENDOR_ALIASES
        for name in {VENDOR_ALIASES.get(hw.vendor, hw.vendor) + ".rul", hw.vendor + ".order", hw.vendor + ".deploy"}:
            with open(os.path.join(d, "texts", name), "w") as f:
                f.write(text)
        try:
            rb = DefaultRulebookProvider(root_dir=[d]).get_rulebook(hw)
            want = {"patching": compile_patching_text(own, VENDOR_ALIASES.get(hw.vendor, hw.vendor)), "ordering": compile_ordering_text(own, hw.vendor), "deploying": compile_deploying_text(own, hw.vendor)}
        except Exception as e:
            acc.violation("C07/B/provider-text-does-not-compile", "a rule text with `#` inside words is refused when it is loaded from a file", {"vendor": vendor, "error": repr(e)[:300]})
            return

        def sig(kind, comp):
            if kind == "patching":
                return sorted((raw, r["attrs"]["regexp"].pattern) for raw, r in comp["local"].items())
            if kind == "ordering":
                return sorted((raw, r["attrs"]["direct_regexp"].pattern) for raw, r in comp.items())
            return sorted((raw, r["attrs"]["regexp"].pattern, r["attrs"]["timeout"]) for raw, r in comp.items())
        for kind in ("patching", "ordering", "deploying"):
            acc.count("B_texts_loaded_through_the_provider")
            if sig(kind, rb[kind]) != sig(kind, want[kind]):
                acc.violation("C07/B/provider-changes-rule-text/%s" % kind, "a rule text loaded from a file compiles to other rules than the same text handed to the compiler (a `#` inside a word is not a comment)",
                              {"vendor": vendor, "text": text, "from_file": sig(kind, rb[kind]), "direct": sig(kind, want[kind])})
    finally:
        shutil.rmtree(d, ignore_errors=True)


NESTED = [("a *", {"timeout": 11}, [("b *", {"timeout": 12}, [("c", {"timeout": 13}, [])]), ("c ~", {"timeout": 14}, [])]),
          ("b", {"timeout": 15}, [("a", {"timeout": 16}, [])]),
          ("c *", {"timeout": 17}, [])]


def run_B_nested(acc):
    """path-wise deploy rule matching (R7) on a nested rule text with disjoint siblings"""
    from annet.rulebook.deploying import compile_deploying_text, match_deploy_rule
    from vf.ref import deploy as RD

    def text(rules, ind=0):
        out = []
        for pat, attrs, ch in rules:
            if cont and attrs["timeout"] % 2:
                out.append(" " * ind + pat)
                out.append("%%timeout=%d" % attrs["timeout"])       # the parameters on a line of their own, at the left margin
            else:
                out.append(" " * ind + pat + "  %%timeout=%d" % attrs["timeout"])
            out.extend(text(ch, ind + 2))
        return out
    cont = False
    comp = compile_deploying_text("\n".join(text(NESTED)), "huawei")
    cont = True
    comp_c = compile_deploying_text("\n".join(text(NESTED)), "huawei")

    def shape(c_):
        return [(raw.split("%")[0].strip(), r_["attrs"]["regexp"].pattern, r_["attrs"]["timeout"], shape(r_["children"])) for raw, r_ in c_.items()]
    acc.count("B_texts_with_parameters_on_a_line_at_the_left_margin")
    if shape(comp_c) != shape(comp):
        acc.violation("C07/B/continuation-line-changes-the-rule", "a rule whose parameters stand on a line of their own at the left margin compiles to another pattern (or other parameters) than the one-line spelling",
                      {"one_line": shape(comp), "two_lines": shape(comp_c)})
    rws = ["a x", "a", "b", "b x", "c y", "c", "a b", "d", "b c", "a x y"]
    for n in (1, 2, 3):
        for path in itertools.product(rws, repeat=n):
            if n == 3 and path[0] not in ("a x", "b", "d"):
                continue
            exp = RD.find(NESTED, path)
            got = match_deploy_rule(comp, path, {})
            exp_t = exp[1]["timeout"] if exp else 30
            acc.case(["deploy-path", list(path)], nontrivial=n >= 2)
            acc.count("B_deploy_paths")
            if got["attrs"]["timeout"] != exp_t:
                acc.violation("C07/B/match_deploy_rule-path", "deploy rule chosen for a command path is not the rule chain matching that path",
                              {"path": list(path), "expected_timeout": exp_t, "got_timeout": got["attrs"]["timeout"]})


# ---------------------------------------------------------------------------------------------
META = re.compile(r"[\\\[\](){}|?+.^$]")


def synth_words(pat, rng):
    """words instantiating a shipped pattern, or None"""
    p, _ = R.split_flags(pat)
    tilde = p.endswith("~")
    if tilde:
        p = p[:-1]
    if p.endswith("..."):
        p = p[:-3]
    words = []
    for w in p.split():
        if w == "*":
            words.append("X%d" % len(words))
            continue
        w2 = w
        m = re.search(r"\*/(\S+)/", w2)
        if m:
            w2 = w2[:m.start()] + "(" + m.group(1) + ")" + w2[m.end():]
        elif w2.startswith("*"):
            w2 = r"[^\s]+" + w2[1:]
        w2 = re.sub(r"<(\w+)>", r"\\w+", w2)
        w2 = re.sub(r"~/(((?!~/).)+)/", r"\1", w2)
        if not META.search(w2):
            words.append(w2)
            continue
        s = R.sample_regex(w2, rng)
        if s is None or not s or re.search(r"\s", s):
            return None
        words.append(s)
    if tilde:
        words += ["t1", "t2"]
    return words


def mutations(words, prefix, rng):
    yield words
    yield words + ["zz"]
    yield words + ["zz", "yy"]
    if len(words) > 1:
        yield words[:-1]
        yield words[1:]
    for i in range(len(words)):
        yield words[:i] + [words[i] + "Q"] + words[i + 1:]
        yield words[:i] + ["Q" + words[i]] + words[i + 1:]
        yield words[:i] + [words[i].swapcase()] + words[i + 1:]
        if len(words) > 1:
            yield words[:i] + words[i + 1:]
        yield words[:i] + ["ins"] + words[i:]
    yield [prefix] + words
    if words[0] == prefix and len(words) > 1:
        yield words[1:]
    yield [" ".join(words).replace(" ", "  ")]


def walk_compiled(kind, rules, depth=0):
    """yields (raw_rule, attrs) of every compiled rule at any depth"""
    if kind in ("patching",):
        for scope in ("local", "global"):
            for raw, rule in rules[scope].items():
                yield raw, rule
                if rule.get("children"):
                    yield from walk_compiled(kind, rule["children"], depth + 1)
    else:
        for raw, rule in rules.items():
            yield raw, rule
            if rule.get("children"):
                yield from walk_compiled(kind, rule["children"], depth + 1)


def own_pattern(raw):
    pat = re.split(r"\s%[a-zA-Z_]", raw)[0].strip()
    if pat.startswith("!"):
        pat = pat[1:].strip()
    return re.sub(r"\s+", " ", pat)


EXTRA_RULES = "\n".join([
    r"interface ~/GigabitEthernet\d+/\d+/\d+$/",
    r"~/xe-\d+/\d+/\d+/",
    r"port */\d+/\d+/ speed *",
    r"load limit 80%",
    r"threshold */\d+%/ warn",
    r"cpu 90% alarm *",
    r"usage *% of */\d+/",
    r"path */[a-z]+(?:/[a-z]+)+/ weight *",
    r"sampler *  %timeout=45",
]) + "\n"


def run_C(spec, acc):
    from vf import corpus
    from annet.rulebook.patching import compile_patching_text
    from annet.annlib.rbparser.ordering import compile_ordering_text
    from annet.rulebook.deploying import compile_deploying_text
    from annet.vendors import registry_connector
    name = spec["file"]
    base, ext = name.rsplit(".", 1)
    rng = random.Random("C07/C/%s/%s" % (name, spec["seed"]))
    nmut = 1 if spec["tier"] == "quick" else 3
    vendors_for_file = [v for v in corpus.RULE_HW if v == base or (base == "huawei" and v == "h3c" and ext == "rul")]
    jobs = [(vendor, model, None) for vendor in vendors_for_file for model in corpus.RULE_HW[vendor]]
    if base == "vf_extra":
        # rule shapes the shipped files use rarely or not at all, but the language allows: regular expressions that contain
        # slashes, a percent sign inside a word (not a %parameter), several placeholders in one row
        jobs = [(v_, corpus.RULE_HW[v_][0], EXTRA_RULES) for v_ in ("huawei", "cisco", "juniper")]
    for vendor, model, extra_text in jobs:
        if True:
            text = extra_text if extra_text is not None else corpus.rendered(name, model)
            prefix = registry_connector.get()[vendor].reverse
            cvendor = vendor if extra_text is not None else (base if ext == "rul" else vendor)
            if ext == "rul":
                compiled, kind = compile_patching_text(text, cvendor), "patching"
            elif ext == "order":
                compiled, kind = compile_ordering_text(text, cvendor), "ordering"
            else:
                compiled, kind = compile_deploying_text(text, cvendor), "deploying"
            # every line I read in the text must be present in the compiled rulebook
            own = [(pat, raw) for pat, raw, ind, ign in corpus.rule_lines(text)]
            comp_rules = list(walk_compiled(kind, compiled))
            comp_pats = {own_pattern(raw) for raw, _ in comp_rules}
            for pat, raw in own:
                if kind == "deploying" and pat.startswith(("ignore:", "dialog:")):
                    continue
                if pat not in comp_pats:
                    acc.violation("C07/C/line-not-compiled", "a rule line of a shipped file is missing from the compiled rulebook",
                                  {"file": name, "model": model, "line": raw})
            for raw, rule in comp_rules:
                pat = own_pattern(raw)
                attrs = rule["attrs"]
                if kind == "patching":
                    regs = [("regexp", attrs["regexp"], pat)]
                elif kind == "ordering":
                    regs = [("direct_regexp", attrs["direct_regexp"], pat),
                            ("reverse_regexp", attrs["reverse_regexp"], " ".join(R.reverse_words(pat, prefix)))]
                else:
                    regs = [("regexp", attrs["regexp"], pat)]
                acc.count("C_lines")
                for _ in range(nmut):
                    words = synth_words(pat, rng)
                    if words is None:
                        acc.count("skipped_unsampled")
                        break
                    for which, rx, refpat in regs:
                        ref = R.ref_regex(refpat, rx.flags & re.IGNORECASE)
                        for mw in mutations(words if which != "reverse_regexp" else ([prefix] + words if words[0] != prefix else words[1:]), prefix, rng):
                            row = " ".join(mw)
                            m, e = rx.match(row), ref.match(row)
                            got = None if m is None else tuple(m.groups())
                            exp = None if e is None else tuple(e.groups())
                            acc.case([refpat, row], nontrivial=("*" in refpat or "~" in refpat))
                            acc.count("C_rows")
                            if got != exp:
                                acc.violation("C07/C/%s/%s" % (kind, "match" if (got is None) != (exp is None) else "key"),
                                              "compiled regexp of a shipped %s rule disagrees with the language definition" % kind,
                                              {"file": name, "model": model, "line": raw, "which": which, "row": row,
                                               "expected_key": exp, "got_key": got, "regex": rx.pattern, "ref_regex": ref.pattern})
                    if kind == "patching" and rule["type"] != "ignore":
                        m = attrs["regexp"].match(" ".join(words))
                        if m is not None and "<" not in pat:
                            key = m.groups()
                            try:
                                got = attrs["reverse"].format(*key)
                            except Exception as e:
                                got = "<%s>" % type(e).__name__
                            exp = ref_reverse_shipped(pat, prefix, key)
                            acc.count("C_reverse")
                            if exp is not None and got != exp:
                                acc.violation("C07/C/patching/reverse-template", "removal command of a shipped rule is not <negation> + rule words with the key substituted",
                                              {"file": name, "model": model, "line": raw, "row": " ".join(words), "key": key, "expected": exp, "got": got})
                if rng.random() < 0.01:
                    acc.sample({"file": name, "model": model, "line": raw, "synth_row": " ".join(words) if words else None})


def ref_reverse_shipped(pat, prefix, key):
    """regex-level variant of R.reverse: placeholders are exactly the capturing tokens `*`, `*/re/`, trailing `~`.
    Returns None when the line has capturing groups that are not placeholders (no `*` anywhere => literal groups capture)."""
    p, _ = R.split_flags(pat)
    words = p.split()
    if "*" not in p and re.search(r"\((?!\?)", p):
        return None
    if len(words) > 1 and words[0] == prefix:
        words = words[1:]
    else:
        words = [prefix] + words
    key = list(key)
    out = []
    try:
        for i, w in enumerate(words):
            if w == "~" and i == len(words) - 1:
                out.append(key.pop(0))
            elif w.startswith("~/"):
                continue
            elif w.endswith("~") and i == len(words) - 1 and not w.startswith("*"):
                out.append(w[:-1] + key.pop(0))
            elif "*" in w:
                # `*` or `*/re/` possibly glued with literal text
                out.append(re.sub(r"\*(/\S+/)?", lambda m: key.pop(0), w))
            else:
                out.append(w)
    except IndexError:
        return None
    return " ".join(out)


def run_shard(spec, acc):
    if spec["mode"] == "replay":
        w = spec["witness"]
        if "file" in w:
            run_C({"file": w["file"], "tier": "thorough", "seed": 0}, acc)
        elif "vendor" in w:
            run_B({"tier": "thorough", "seed": 0}, acc)
        else:
            key = check_match(w["pattern"], w["row"], acc, w.get("flags", 0))
            if key is not None:
                for prefix in PREFIXES:
                    check_reverse(w["pattern"], w["row"], key, prefix, acc)
        return
    {"A": run_A, "B": run_B, "C": run_C}[spec["mode"]](spec, acc)
