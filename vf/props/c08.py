"""C08 - ordering follows the ordering rulebook and only permutes lines.

Monitors:
  P  on every PatchTree.sort call (hooked): the multiset of (row, child object) is unchanged - sorting only permutes, children stay with their parent;
  R  rank oracle (R6): for generated ordering rulebooks with disjoint sibling languages, pairs of sibling commands of the real patch obey the ranks;
     removals matched through the negated form precede every non-removal sibling; for one (rule,key) the removal precedes the re-creation;
  C  Orderer.order_config: permutation at every depth, idempotent, ranked rows obey the ranks, rows no rule mentions keep their relative order;
  M  metamorphic, shipped *.order + fixture corpus: deleting an unrelated top-level row from old and new leaves the relative order of the remaining commands unchanged.
"""
import random
import re
from collections import OrderedDict as odict

from vf.gen import rb as G
from vf.ref import order as RO
from vf.ref import rulebook as RB
from vf.ref import rulelang as R
from vf.util import plain, unplain
from vf.props import c01

LEVEL = "exploration"
RULE = ("R/C: random patching rulebooks (default logic, nesting<=3, %global, catch-all) x ordering rulebooks over the same vocabulary (random subset and order of the "
        "sibling patterns => disjoint languages, nested <=3, %global entries, %order_reverse entries written in negated form) x block-CLI vendors x pairs (old,new) "
        "mixing additions and removals of several ordered families; M: every fixture pair x every top-level row. Non-trivial: a block with >=2 ranked sibling "
        "commands of different rank. Distinct: hash of (vendor, rulebook, ordering, old, new).")
ASSUMPTIONS = [
    "R6 (vf/ref/order.py); a command is a removal iff it starts with the vendor's negation word (patching rulebooks are generated without rules written in negated form)",
    "commands no ordering rule mentions are not ranked; ties inside one rank are not judged",
    "metamorphic relation is evaluated only when the reduced patch's commands are a sub-multiset of the full patch's commands (otherwise the deleted row was not unrelated)",
]
FLOORS = {"quick": {"patches_ranked": 1500, "ranked_pairs": 3000, "sort_calls": 3000, "configs_ordered": 1500, "metamorphic_pairs": 150, "several_global_rule_cases": 300, "echoed_family_cases": 300, "unordered_blocks_compared": 500, "commented_patches": 300, "commented_commands": 600, "scoped_rule_cases": 300, "ordering_lines_with_tab_before_params": 300, "mirrored_pairs_checked": 150, "cases_with_a_global_block_rule_that_has_nested_rules": 150, "ordering_rules_with_an_inline_letter_case_marker": 1000, "removals_spelled_positively_under_a_positive_pin": 300, "global_pins": 500, "undo_redo_changes_beside_their_own_removal": 50, "ordering_rules_with_params_on_a_line_at_the_left_margin": 60, "cases_with_two_block_kinds_sharing_nested_rule_texts": 500},
          "thorough": {"patches_ranked": 60000, "ranked_pairs": 100000, "sort_calls": 100000, "configs_ordered": 60000, "metamorphic_pairs": 300, "several_global_rule_cases": 10000, "echoed_family_cases": 10000, "unordered_blocks_compared": 15000, "commented_patches": 10000, "commented_commands": 20000, "scoped_rule_cases": 10000}}
VENDORS = c01.BLOCK_VENDORS
KNOWN_ZERO = "C08/first-ordering-rule-has-rank-zero"


def plan(tier, seed):
    n = 8 if tier == "quick" else 16
    specs = [{"mode": "random", "tier": tier, "seed": seed, "shard": k, "nshards": n} for k in range(n)]
    m = 4 if tier == "quick" else 16
    specs += [{"mode": "meta", "tier": tier, "seed": seed, "shard": k, "nshards": m} for k in range(m)]
    specs.append({"mode": "mirror", "tier": tier, "seed": seed})
    return specs


def gen_order(rng, rules, prefix, depth=0, many_globals=False, echo=False, scoped=False, gblock=None, gpin=None):
    """gblock: a separate RNG; block rules with nested rules may then be %global themselves (they reach every depth and bring their children along)"""
    pats = [r for r in rules if r.pat != "~" and not r.ignore]
    rng.shuffle(pats)
    out = []
    for r in pats:
        if many_globals and r.glob:
            if gpin is not None and any(o.pat in (r.pat, prefix + " " + r.pat) for o in out):
                continue      # (a rule text repeated in the rulebook is one rule)
            if gpin is not None and gpin.random() < 0.6 and not r.pat.startswith(prefix + " "):
                out.append(RO.ORule(prefix + " " + r.pat, glob=True, order_reverse=True))  # a pin that holds at every depth: `undo x * %order_reverse %global`
            else:
                out.append(RO.ORule(r.pat, glob=True))  # every %global command family is ordered, at every depth
            continue
        if many_globals and r.children and rng.random() < 0.5:
            continue  # a block header the ordering rulebook does not mention: the %global rules still reach its children
        if rng.random() > 0.75:
            continue
        if rng.random() < 0.12:
            out.append(RO.ORule(prefix + " " + r.pat, order_reverse=True))
            continue
        o = RO.ORule(r.pat)
        if scoped and rng.random() < 0.35:
            o.scope = "patch"  # a rule that orders patches only; `annet gen` / `annet diff` order the configuration without it
        if echo and r.children and depth == 0 and rng.random() < 0.7:
            out.append(o)  # a block the ordering rulebook mentions without saying anything about its children
            continue
        if r.children and rng.random() < 0.8:
            o.children = gen_order(rng, r.children, prefix, depth + 1, many_globals, False, scoped)
            if gblock is not None and o.children and gblock.random() < 0.6:
                o.glob = True
        elif not r.children and rng.random() < 0.1:
            o.glob = True
        out.append(o)
    return out


# ---- P: permutation hook -------------------------------------------------------------------------
_sort_log = {"calls": 0, "bad": []}


def install_sort_hook():
    from annet.annlib import patching as P
    if getattr(P.PatchTree.sort, "_vf", False):
        return
    orig = P.PatchTree.sort

    def sort(self):
        before = sorted((str(i.row), id(i.child)) for i in self.itms)
        orig(self)
        after = sorted((str(i.row), id(i.child)) for i in self.itms)
        _sort_log["calls"] += 1
        if before != after:
            _sort_log["bad"].append((before, after))
    sort._vf = True
    P.PatchTree.sort = sort


def patch_paths(pt, prefix=()):
    out = []
    for it in pt.itms:
        out.append(prefix + (str(it.row),))
        if it.child is not None:
            out += patch_paths(it.child, prefix + (str(it.row),))
    return out


# ---- R: rank oracle ------------------------------------------------------------------------------
def check_level(items, olevel, prefix, rl, rg, acc, w, path=()):
    """items: [(row, child PatchTree|None)] in emitted order"""
    info = []
    for row, child in items:
        rem = row.startswith(prefix + " ") or row in w.get("_pos_removals", {}).get(tuple(path), ())
        rk, ch_level = RO.rank(row, olevel, prefix, rem)
        info.append((row, rem, rk, ch_level, child))
    if not olevel and path and "_neutral" in w:
        acc.count("unordered_blocks_compared")
        want = w["_neutral"].get(tuple(path))
        got = [x[0] for x in info]
        if want is not None and sorted(want) == sorted(got) and want != got:
            acc.violation("C08/unordered-block-reordered", "no ordering rule is in force inside this block, yet its commands are not in the order an empty ordering rulebook gives",
                          dict({k: v for k, v in w.items() if not k.startswith("_")}, block=list(path), emitted_order=got, neutral_order=want))
            return
    ranked = [(i, x) for i, x in enumerate(info) if x[2] is not None]
    if len({x[2] for _, x in ranked}) >= 2:
        w["_nontrivial"] = True
    for a in range(len(info)):
        for b in range(a + 1, len(info)):
            ra, rb_ = info[a], info[b]
            bad = None
            if ra[2] is not None and rb_[2] is not None:
                acc.count("ranked_pairs")
                if ra[2] > rb_[2]:
                    bad = ("rank-order", "a command matched by a later ordering rule (or a non-removal) precedes one that must come earlier")
            if bad is None and rb_[1] and rb_[2] is not None and rb_[2] < 0 and not ra[1]:
                bad = ("removal-after-non-removal", "a removal matched through the negated form of an ordering rule comes after a non-removal sibling")
            if bad is None and rb_[1] and not ra[1]:
                sa = RB.select(ra[0], rl, rg)
                sb = RB.select(rb_[0][len(prefix) + 1:], rl, rg)
                if sa is not None and sb is not None and sa[0] is sb[0] and sa[1] == sb[1]:
                    bad = ("recreate-before-remove", "for one rule and key the re-creation precedes the removal")
            if bad:
                first_rule = (ra[2] in (1, -1)) or (rb_[2] in (1, -1))
                key = KNOWN_ZERO if (first_rule and bad[0] != "recreate-before-remove") else "C08/" + bad[0]
                acc.violation(key, bad[1] if key != KNOWN_ZERO else
                              "a command matched by the FIRST rule of its ordering level gets order index 0, which is also 'no rule': it is not ranked against its siblings",
                              dict({k: v for k, v in w.items() if not k.startswith("_")}, block=list(path), first=[ra[0], ra[2]], second=[rb_[0], rb_[2]],
                                   emitted_order=[x[0] for x in info]))
                return
    for row, rem, rk, ch_level, child in info:
        if child is not None and child.itms:
            s = RB.select(row, rl, rg)
            cl, cg = (s[2], s[3]) if s is not None else ([], rg)
            check_level([(str(i.row), i.child) for i in child.itms], ch_level, prefix, cl, cg, acc, w, path + (row,))


# ---- C: order_config -----------------------------------------------------------------------------
def multiset_tree(t):
    return sorted((r, multiset_tree(c)) for r, c in t)


def check_config_level(tree_before, tree_after, olevel, prefix, acc, w, path=()):
    rows_b = [r for r, c in tree_before]
    rows_a = [r for r, c in tree_after]
    if sorted(rows_b) != sorted(rows_a):
        acc.violation("C08/order_config-not-a-permutation", "ordering a configuration lost or duplicated a line", dict(w, block=list(path), before=rows_b, after=rows_a))
        return False
    info = []
    for r in rows_a:
        rem = r.startswith(prefix + " ")
        rk, chl = RO.rank(r, olevel, prefix, rem)
        info.append((r, rem, rk, chl))
    for a in range(len(info)):
        for b in range(a + 1, len(info)):
            if info[a][2] is not None and info[b][2] is not None and info[a][2] > info[b][2]:
                first_rule = info[a][2] in (1, -1) or info[b][2] in (1, -1)
                acc.violation(KNOWN_ZERO if first_rule else "C08/order_config-rank-order",
                              "ordered configuration has a line matched by a later rule before one matched by an earlier rule" if not first_rule else
                              "a command matched by the FIRST rule of its ordering level gets order index 0, which is also 'no rule': it is not ranked against its siblings",
                              dict(w, block=list(path), first=[info[a][0], info[a][2]], second=[info[b][0], info[b][2]], ordered=rows_a))
                return False
    # (negated lines are placed in front of the others by design, so the relative order is required per polarity)
    bad_unm = False
    for pol in (False, True):
        unm_a = [x[0] for x in info if x[2] is None and x[1] == pol]
        unm_b = [r for r in rows_b if r in set(unm_a)]
        bad_unm = bad_unm or unm_a != unm_b
    unm_a = [x[0] for x in info if x[2] is None]
    unm_b = [r for r in rows_b if r in set(unm_a)]
    if bad_unm:
        acc.violation("C08/order_config-unmentioned-rows-reordered", "rows no ordering rule mentions changed their relative order", dict(w, block=list(path), before=unm_b, after=unm_a))
        return False
    bmap = {r: c for r, c in tree_before}
    for (r, c), x in zip(tree_after, info):
        if not check_config_level(bmap[r], c, x[3], prefix, acc, w, path + (r,)):
            return False
    return True


def make_case(seed, many_globals=False, echo=False, scoped=False, gblock=False, pospin=False, gpin=False, twins=False, urpin=False):
    rng = random.Random(seed)
    vname = VENDORS[rng.randrange(len(VENDORS))]
    v, prefix, exitw, hw, fmt = c01.vendor_env(vname)
    rules = G.gen_rulebook(rng, depth=3, prefix=prefix, allow=("global", "catchall"))
    if many_globals:
        leaves = [r for r in rules if not r.children and r.pat != "~" and not r.pat.startswith(prefix + " ")]
        if len(leaves) < 2:
            leaves += [RB.Rule("g%d *" % i) for i in range(2 - len(leaves))]
            rules[0:0] = leaves[-2:]
        for r in leaves[:3]:
            r.glob, r.logic, r.ordered = True, None, False
    if echo:
        # command families that exist both at the top level and inside blocks (`description`, `shutdown`, ...): the top-level
        # ordering rules for them say nothing about their order inside a block
        leaves = [r for r in rules if not r.children and r.pat != "~" and not r.glob and not r.pat.startswith(prefix + " ")]
        for b in rules:
            if b.children and not any(c.rewrite or c.ordered for c in b.children):
                for l_ in leaves[:3]:
                    if all(c.pat != l_.pat for c in b.children):
                        b.children.append(RB.Rule(l_.pat))
    order = gen_order(rng, rules, prefix, 0, many_globals, echo, scoped, random.Random(seed ^ 0x6B10) if gblock else None, random.Random(seed ^ 0x6915) if gpin else None)
    if twins:
        # two kinds of block whose nested rules are spelled alike one level down (`tf *`) and order the lines below in opposite ways
        rules[0:0] = [RB.Rule("ta *", children=[RB.Rule("tf *", children=[RB.Rule("tg *"), RB.Rule("th *")])]),
                      RB.Rule("tb *", children=[RB.Rule("tf *", children=[RB.Rule("tg *"), RB.Rule("th *")])])]
        order[0:0] = [RO.ORule("ta *", children=[RO.ORule("tf *", children=[RO.ORule("tg *"), RO.ORule("th *")])]),
                      RO.ORule("tb *", children=[RO.ORule("tf *", children=[RO.ORule("th *"), RO.ORule("tg *")])])]
    if urpin:
        # a family that is changed by removing and re-creating the line (undo_redo); its removal is pinned by the FIRST rule of the ordering text,
        # or no ordering rule mentions the family: either way removal and re-creation of one key stand side by side, removal first
        urng = random.Random(seed ^ 0x0421)
        rules.insert(0, RB.Rule("ur *", logic="common.undo_redo"))
        if urng.random() < 0.6:
            order.insert(0, RO.ORule(prefix + " ur *", order_reverse=True))
    if pospin:
        # a line of configuration that is itself spelled negated (`undo portswitch`): its removal is the positive command, which an ordering
        # rule written in the positive form pins to its place with %order_reverse (as the shipped `portswitch %order_reverse` does)
        prng = random.Random(seed ^ 0x9051)
        rules.insert(0, RB.Rule(prefix + " np *"))
        order.insert(prng.randrange(len(order) + 1), RO.ORule("np *", order_reverse=True))
    old = G.gen_tree(rng, rules, fill=0.75)
    new = G.mutate_tree(rng, old, rules, rate=0.6) if rng.random() < 0.7 else G.gen_tree(rng, rules, fill=0.75)
    return vname, rules, order, old, new


def check_case(seed, acc, many_globals=False, echo=False, scoped=False, tabs=False, gblock=False, icase=False, pospin=False, gpin=False, twins=False, urpin=False):
    from annet.api import _diff_and_patch
    from annet.annlib.patching import Orderer
    from annet.annlib.rbparser.ordering import compile_ordering_text
    install_sort_hook()
    vname, rules, order, old, new = make_case(seed, many_globals, echo, scoped, gblock, pospin, gpin, twins, urpin)
    if urpin:
        acc.count("undo_redo_changes_beside_their_own_removal", sum(1 for r_ in old if r_.startswith("ur ") and r_ not in new and any(n_.split()[:2] == r_.split()[:2] for n_ in new)))
    if twins:
        acc.count("cases_with_two_block_kinds_sharing_nested_rule_texts")
    if gpin:
        acc.count("global_pins", sum(1 for o in order if o.glob and o.order_reverse))
    if gblock and any(o.glob and o.children for o in order):
        acc.count("cases_with_a_global_block_rule_that_has_nested_rules")
    if scoped:
        acc.count("scoped_rule_cases")
    if many_globals:
        acc.count("several_global_rule_cases")
    if echo:
        acc.count("echoed_family_cases")
    v, prefix, exitw, hw, fmt = c01.vendor_env(vname)
    rtext, otext = RB.render(rules), RO.render(order)
    if tabs:
        # column-aligned rule files: TABs (or a blank and TABs) in front of the first parameter of a line
        trng = random.Random(seed ^ 0x7AB5)
        lines = []
        for ln in otext.split("\n"):
            i = ln.find(" %")
            if i > 0 and trng.random() < 0.7:
                # (the last spelling: the parameters on a line of their own at the left margin, where a rule file can hold such a line)
                ln = ln[:i].rstrip() + trng.choice(["\t", "\t\t", " \t", "\n"]) + ln[i:].lstrip()
            lines.append(ln)
        otext = "\n".join(lines)
        acc.count("ordering_lines_with_tab_before_params", sum(1 for ln in lines if "\t%" in ln))
        acc.count("ordering_rules_with_params_on_a_line_at_the_left_margin", sum(1 for ln in lines if "\n%" in ln))
    if icase:
        # ordering rules that say "letter case does not matter" in the text itself: `(?i)` in front of a rule spelled in capitals, or inside
        # the expression of a `*/.../` word; the commands keep their lower-case spelling, so every match (direct or through the negated
        # form) needs the marker to be honoured
        irng = random.Random(seed ^ 0x1CA8)
        lines, n_, respelled = [], 0, {}
        for ln in otext.split("\n"):
            body, sep, params = ln.partition(" %")
            ind = body[:len(body) - len(body.lstrip())]
            ws = body.split()
            if tuple(ws) in respelled:       # a line repeated in the text stays ONE rule: the same spelling everywhere
                ws = respelled[tuple(ws)]
            elif ws and ws[0] != prefix and irng.random() < 0.6:
                ws0 = tuple(ws)
                if "*" in ws and irng.random() < 0.4:
                    ws[ws.index("*")] = "*/(?i)[A-Z]\\S*/"
                else:
                    ws = [w_.upper() if re.fullmatch(r"[a-z0-9]+", w_) else w_ for w_ in ws]
                    ws[0] = "(?i)" + ws[0]
                respelled[ws0] = ws
                n_ += 1
            else:
                respelled[tuple(ws)] = ws
            lines.append(ind + " ".join(ws) + sep + params)
        otext = "\n".join(lines)
        acc.count("ordering_rules_with_an_inline_letter_case_marker", n_)
    w = {"seed": seed, "many_globals": many_globals, "echo": echo, "scoped": scoped, "tabs": tabs, "gblock": gblock, "icase": icase, "pospin": pospin, "gpin": gpin, "twins": twins, "urpin": urpin, "vendor": vname, "rulebook": rtext, "ordering": otext, "old": plain(old), "new": plain(new)}
    try:
        rb = c01.compile_rb(rtext, vname)
        rb["ordering"] = compile_ordering_text(otext, vname)
        calls0, bad0 = _sort_log["calls"], len(_sort_log["bad"])
        diff, patch = _diff_and_patch(c01.Dev(hw), old, new, None, None, False, rb=rb)
    except Exception as e:
        acc.violation("C08/exception/%s" % type(e).__name__, "patch computation raised", dict(w, error=repr(e)[:300]))
        return None
    acc.count("sort_calls", _sort_log["calls"] - calls0)
    if len(_sort_log["bad"]) > bad0:
        acc.violation("C08/sort-not-a-permutation", "PatchTree.sort lost, duplicated or re-parented a command", dict(w, before_after=_sort_log["bad"][-1]))
        return w
    w["patch"] = fmt.patch(patch).split("\n")[:60]
    rl, rg = RB.split_level(rules)
    acc.count("patches_ranked")
    # the neutral order: the same patch computed with an empty ordering rulebook; a block for whose children no ordering rule
    # is in force must hold its commands in that order
    try:
        rb0 = dict(rb, ordering=compile_ordering_text("", vname))
        _, patch0 = _diff_and_patch(c01.Dev(hw), old, new, None, None, False, rb=rb0)
        neutral = {}

        def walk0(pt, path):
            neutral[path] = [str(i.row) for i in pt.itms]
            for i in pt.itms:
                if i.child is not None:
                    walk0(i.child, path + (str(i.row),))
        walk0(patch0, ())
        w["_neutral"] = neutral
    except Exception as e:
        acc.violation("C08/exception/%s" % type(e).__name__, "patch computation with an empty ordering rulebook raised", dict(w, error=repr(e)[:300]))
        return None
    if pospin:
        w["_pos_removals"] = {(): {r[len(prefix) + 1:] for r in old if r.startswith(prefix + " np ") and r not in new}}
        acc.count("removals_spelled_positively_under_a_positive_pin", len(w["_pos_removals"][()]))
    check_level([(str(i.row), i.child) for i in patch.itms], RO.for_scope(order, "patch"), prefix, rl, rg, acc, w)
    w.pop("_pos_removals", None)
    w.pop("_neutral", None)
    acc.case([vname, rtext, otext, w["old"], w["new"]], nontrivial=bool(w.pop("_nontrivial", False)))
    # order_config on new (what `annet gen` prints); negated rows are legitimate config lines too (`undo portswitch`)
    from vf.props import c06
    new = c06.add_negated(random.Random(seed ^ 0x5A5A), new, prefix, 0.15)
    w["config"] = plain(new)
    try:
        o = Orderer(rb["ordering"], vname)
        once = o.order_config(new)
        twice = o.order_config(once)
    except Exception as e:
        acc.violation("C08/order_config-exception/%s" % type(e).__name__, "order_config raised", dict(w, error=repr(e)[:300]))
        return w
    acc.count("configs_ordered")
    if plain(twice) != plain(once):
        acc.violation("C08/order_config-not-idempotent", "ordering an already ordered configuration changes it", dict(w, once=plain(once), twice=plain(twice)))
    elif multiset_tree(plain(once)) != multiset_tree(plain(new)):
        acc.violation("C08/order_config-not-a-permutation", "ordering a configuration lost, duplicated or re-parented a line", dict(w, ordered=plain(once)))
    else:
        check_config_level(plain(new), plain(once), RO.for_scope(order, None), prefix, acc, w)
    return w


# ---- K: comments are presentation only -------------------------------------------------------------------------
def check_comments_case(seed, acc):
    """`annet patch --add-comments`: rules carrying %comment get their comment appended to the command; the order of the commands
    must be the one of the same patch without comments (ordering rules anchored at the end of the command are the sensitive ones)"""
    from annet.api import _diff_and_patch
    from annet.annlib.rbparser.ordering import compile_ordering_text
    rng = random.Random(seed)
    vname = VENDORS[rng.randrange(len(VENDORS))]
    v, prefix, exitw, hw, fmt = c01.vendor_env(vname)
    rules = G.gen_rulebook(rng, depth=3, prefix=prefix, allow=("global", "catchall"))
    n = [0]

    def comment(level):
        for r in level:
            if r.pat != "~" and rng.random() < 0.5:
                n[0] += 1
                r.extra = "%%comment=cmt%d" % n[0]
            comment(r.children)
    comment(rules)
    order = gen_order(rng, rules, prefix)

    def anchor(level):
        for o in level:
            if not o.children and not o.glob and not o.pat.endswith("~") and rng.random() < 0.5:
                o.pat += "$"
            anchor(o.children)
    anchor(order)
    old = G.gen_tree(rng, rules, fill=0.75)
    new = G.mutate_tree(rng, old, rules, rate=0.6) if rng.random() < 0.7 else G.gen_tree(rng, rules, fill=0.75)
    rtext, otext = RB.render(rules), RO.render(order)
    w = {"seed": seed, "comments": True, "vendor": vname, "rulebook": rtext, "ordering": otext, "old": plain(old), "new": plain(new)}
    try:
        rb = c01.compile_rb(rtext, vname)
        rb["ordering"] = compile_ordering_text(otext, vname)
        _, p0 = _diff_and_patch(c01.Dev(hw), old, new, None, None, False, rb=rb)
        _, p1 = _diff_and_patch(c01.Dev(hw), old, new, None, None, True, rb=rb)
    except Exception as e:
        acc.violation("C08/exception/%s" % type(e).__name__, "patch computation raised", dict(w, error=repr(e)[:300]))
        return

    def ser(pt, strip):
        out = []
        for i in pt.itms:
            row = str(i.row)
            if strip:
                row = re.sub(r"( cmt\d+)+$", "", row)
            out.append([row, ser(i.child, strip) if i.child is not None else None])
        return out
    a, b = ser(p0, False), ser(p1, True)
    commented = sum(1 for x in fmt.patch(p1).split("\n") if re.search(r" cmt\d+$", x))
    acc.count("commented_patches")
    acc.count("commented_commands", commented)
    acc.case(["comments", vname, rtext, otext, w["old"], w["new"]], nontrivial=commented >= 2)
    if a != b:
        acc.violation("C08/comments-change-the-order", "with --add-comments the commands come in another order than without (comments are presentation only)",
                      dict(w, without_comments=fmt.patch(p0).split("\n")[:40], with_comments=fmt.patch(p1).split("\n")[:40]))


# ---- M: metamorphic on the shipped ordering rulebooks ---------------------------------------------
KNOWN_TIES = "C08/equal-rank-commands-keep-positional-diff-order"


def serial(pt):
    return [(str(i.row), serial(i.child) if i.child is not None else None) for i in pt.itms]


def jsonable(x):
    return [[r, jsonable(c) if c is not None else None] for r, c in x]


def _family(hw, row):
    from annet import rulebook
    from annet.annlib.patching import _match_row_to_rules
    from annet.vendors import registry_connector
    prefix = registry_connector.get().match(hw).reverse
    if row.startswith(prefix + " "):
        row = row[len(prefix) + 1:]
    m, _ = _match_row_to_rules(row, rulebook.get_rulebook(hw)["patching"])
    if not m:
        return None
    return (m["raw_rule"], m["key"][:1])


def is_subsequence(sub, seq):
    it = iter(seq)
    return all(any(x == y for y in it) for x in sub)


def run_meta(spec, acc):
    from vf import corpus
    from annet.api import _diff_and_patch
    samples = corpus.patch_samples()
    install_sort_hook()
    for idx, s in enumerate(samples):
        if idx % spec["nshards"] != spec["shard"] or (spec.get("only") and s[0] != spec["only"]):
            continue
        try:
            hw, old, new = corpus.sample_configs(s)
        except Exception:
            acc.count("meta_skipped_unparsable")
            continue
        dev = c01.Dev(hw)
        try:
            bad0 = len(_sort_log["bad"])
            _, p0 = _diff_and_patch(dev, old, new, None, None, False)
        except Exception:
            acc.count("meta_skipped_exception")
            continue
        acc.count("sort_calls_corpus", 1)
        if len(_sort_log["bad"]) > bad0:
            acc.violation("C08/sort-not-a-permutation", "PatchTree.sort lost, duplicated or re-parented a command",
                          {"sample": s[0], "meta": True, "before_after": _sort_log["bad"][-1]})
            continue
        s0 = serial(p0)
        rows = list(dict.fromkeys(list(old) + list(new)))
        if spec["tier"] == "quick":
            rows = rows[:6]
        for r in rows:
            o2 = odict((k, v) for k, v in old.items() if k != r)
            n2 = odict((k, v) for k, v in new.items() if k != r)
            try:
                _, p1 = _diff_and_patch(dev, o2, n2, None, None, False)
            except Exception:
                acc.count("meta_skipped_exception")
                continue
            s1 = serial(p1)
            pool = list(s0)
            unrelated = True
            for x in s1:
                if x in pool:
                    pool.remove(x)
                else:
                    unrelated = False
                    break
            if not unrelated:
                acc.count("meta_skipped_related_row")
                continue
            acc.count("metamorphic_pairs")
            acc.case(["meta", s[0], r], nontrivial=len(s1) >= 2)
            if not is_subsequence(s1, s0):
                # which pair swapped? equal sort keys => the sort is a tie and the commands keep the order of the diff, which merges old and new
                # positions (known mechanism); different sort keys => the ranking itself depends on the deleted row
                keys = {}
                for it in p0.itms:
                    keys.setdefault(str(it.row), it.sort_key)
                pos0 = {}
                for i, x in enumerate(s0):
                    pos0.setdefault(x[0], i)
                swapped = [(a[0], b[0]) for i, a in enumerate(s1) for b in s1[i + 1:]
                           if a[0] in pos0 and b[0] in pos0 and pos0[a[0]] > pos0[b[0]]]
                tie = bool(swapped) and all(keys.get(a) == keys.get(b) for a, b in swapped)
                # the deleted row is not "unrelated" when it belongs to the same object (rule and first key element) as a command that moved
                fam = _family(hw, r)
                if fam is not None and any(_family(hw, c) == fam for pair in swapped for c in pair):
                    acc.count("meta_skipped_same_object")
                    continue
                acc.violation(KNOWN_TIES if tie else "C08/order-depends-on-unrelated-row",
                              "deleting an unrelated top-level row from old and new changes the relative order of the remaining commands" +
                              (" (commands of equal rank keep the order of the diff, which interleaves old and new row positions)" if tie else ""),
                              {"sample": s[0], "deleted_row": r, "full": [x[0] for x in s0], "reduced": [x[0] for x in s1], "swapped": swapped[:3], "meta": True})
    acc.sample({"metamorphic_samples": len(samples)})


_CISCO_MORE = "ip domain-name example.com\nip name-server 8.8.8.8\naaa new-model\nspanning-tree mode rapid-pvst\nlldp run\nclock timezone MSK 3\nusername u privilege 15 secret x\ntacacs-server host 1.1.1.1\nip route 0.0.0.0 0.0.0.0 10.0.0.1\nip prefix-list PL seq 5 permit 10.0.0.0/8\n"
_HUAWEI_MORE = "dns domain example.com\nstp mode rstp\nlldp enable\nclock timezone MSK add 03:00:00\nip route-static 0.0.0.0 0.0.0.0 10.0.0.1\nip ip-prefix PL index 5 permit 10.0.0.0 8\nssh server-source -i LoopBack0\nhwtacacs-server template T\n"
MIRROR_PAIRS = [
    # (model, config A, config B): top-level lines of several command families present on one side only, incl. VLAN lists handled by vendor logic
    ("Cisco Catalyst 2960", "vlan 5-6,10\nsnmp-server community x RO\nntp server 1.1.1.1\nhostname a\nip ssh version 2\nlogging host 10.0.0.1\n" + _CISCO_MORE, "vlan 7,10\nhostname a\n"),
    ("Cisco Catalyst", "vlan 5-6,10\nsnmp-server location x\nntp server 1.1.1.1\nhostname a\n" + _CISCO_MORE, "vlan 10\nhostname a\nvlan group G1 vlan-list 10\n"),
    ("Cisco Nexus 9316", "vlan 5-6,10\nsnmp-server community x group network-operator\nntp server 1.1.1.1\nhostname a\nfeature bgp\n" + _CISCO_MORE, "vlan 7,10\nhostname a\n"),
    ("Cisco ASR 9010", "vlan 5-6,10\nsnmp-server community x RO\nntp server 1.1.1.1\nhostname a\n" + _CISCO_MORE, "vlan 7,10\nhostname a\n"),
    ("Huawei CE6870", "vlan batch 5 to 6 10\nsnmp-agent community read x\nntp-service unicast-server 1.1.1.1\nsysname a\ninfo-center loghost 10.0.0.1\n" + _HUAWEI_MORE, "vlan batch 7 10\nsysname a\n"),
    ("Huawei NE40E-X8", "snmp-agent community read x\nntp-service unicast-server 1.1.1.1\nsysname a\ninfo-center loghost 10.0.0.1\n" + _HUAWEI_MORE, "sysname a\n"),
    ("Arista DCS-7050", "vlan 5-6,10\nsnmp-server community x ro\nntp server 1.1.1.1\nhostname a\nlogging host 10.0.0.1\n" + _CISCO_MORE, "vlan 7,10\nhostname a\n"),
]


def run_mirror(spec, acc):
    """removals are issued in the reverse of the order in which the same lines are created: for two top-level lines that the patch A->B removes and
    the patch B->A creates (exact negations of each other), ranked differently by the ordering rulebook, the two patches hold them in opposite
    orders. Shipped rulebooks; fixture corpus pairs and hand-written pairs; rules marked %order_reverse are exempt (they say so)."""
    from vf import corpus
    from annet.api import _diff_and_patch
    from annet.annlib.netdev.views.hardware import HardwareView
    from annet.annlib import tabparser
    from annet.vendors import registry_connector
    from annet import rulebook
    jobs = []
    for s in corpus.patch_samples():
        try:
            hw, old, new = corpus.sample_configs(s)
            jobs.append((s[0], hw, old, new))
        except Exception:
            continue
    for model, a, b in MIRROR_PAIRS:
        hw = HardwareView(model, "")
        fmt = registry_connector.get().match(hw).make_formatter()
        jobs.append(("hand:" + model, hw, tabparser.parse_to_tree(a, fmt.split), tabparser.parse_to_tree(b, fmt.split)))
    for name, hw, a, b in jobs:
        v = registry_connector.get().match(hw)
        prefix = v.reverse
        if not prefix:
            continue
        try:
            _, pf = _diff_and_patch(c01.Dev(hw), a, b, None, None, False)
            _, pb = _diff_and_patch(c01.Dev(hw), b, a, None, None, False)
            ordering = rulebook.get_rulebook(hw)["ordering"]
        except Exception:
            acc.count("mirror_skipped_exception")
            continue
        for fwd, bwd, tag in ((pf, pb, "A->B"), (pb, pf, "B->A")):
            F = [str(i.row) for i in fwd.itms if i.child is None or not i.child.itms]
            B = [str(i.row) for i in bwd.itms if i.child is None or not i.child.itms]
            created = [r for r in B if not r.startswith(prefix + " ") and (prefix + " " + r) in F]
            exempt = {r for r in created if any(rule["attrs"]["order_reverse"] and rule["attrs"]["direct_regexp"].match(prefix + " " + r) for rule in ordering.values())}
            created = [r for r in created if r not in exempt]
            keyb = {str(i.row): i.sort_key[0] for i in bwd.itms}
            acc.count("mirror_patches")
            for i, x in enumerate(created):
                for y in created[i + 1:]:
                    if keyb[x] == keyb[y]:
                        continue  # equal rank: positional order, nothing to mirror
                    acc.count("mirrored_pairs_checked")
                    acc.case(["mirror", name, tag, x, y], nontrivial=True)
                    if F.index(prefix + " " + x) < F.index(prefix + " " + y):
                        acc.violation("C08/removals-not-in-mirrored-order", "two lines created in one order are removed in the same order although the ordering rulebook ranks them differently (removals mirror the creation order)",
                                      {"mirror": True, "sample": name, "direction": tag, "created_order": [x, y], "removal_order": [c for c in F if c in (prefix + " " + x, prefix + " " + y)],
                                       "ranks": [keyb[x], keyb[y]]})


def run_shard(spec, acc):
    if spec["mode"] == "mirror" or (spec["mode"] == "replay" and spec["witness"].get("mirror")):
        return run_mirror(spec, acc)
    if spec["mode"] == "replay":
        w = spec["witness"]
        if w.get("comments"):
            check_comments_case(w["seed"], acc)
        elif w.get("meta"):
            run_meta({"tier": "thorough", "shard": 0, "nshards": 1, "only": w.get("sample")}, acc)
        else:
            check_case(w["seed"], acc, many_globals=bool(w.get("many_globals")), echo=bool(w.get("echo")), scoped=bool(w.get("scoped")), tabs=bool(w.get("tabs")), gblock=bool(w.get("gblock")), icase=bool(w.get("icase")), pospin=bool(w.get("pospin")), gpin=bool(w.get("gpin")), twins=bool(w.get("twins")), urpin=bool(w.get("urpin")))
        return
    if spec["mode"] == "meta":
        return run_meta(spec, acc)
    tier, k, n = spec["tier"], spec["shard"], spec["nshards"]
    total = 4000 if tier == "quick" else 70000
    rng = random.Random("C08/%s/%s" % (spec["seed"], k))
    for j in range(total // n):
        w = check_case(rng.randrange(1 << 48), acc)
        if j < 2 and w:
            acc.sample({k2: w.get(k2) for k2 in ("vendor", "rulebook", "ordering", "old", "new", "patch")})
        if j % 5 == 4:
            check_case(rng.randrange(1 << 48), acc, many_globals=True)
        if j % 5 == 2:
            check_case(rng.randrange(1 << 48), acc, echo=True)
        if j % 5 == 0:
            check_comments_case(rng.randrange(1 << 48), acc)
        if j % 5 == 3:
            check_case(rng.randrange(1 << 48), acc, scoped=True)
        if j % 5 == 1:
            check_case(rng.randrange(1 << 48), acc, tabs=True, scoped=(j % 10 == 1))
        if j % 5 == 4:
            check_case(rng.randrange(1 << 48), acc, gblock=True)
        if j % 5 == 2:
            check_case(rng.randrange(1 << 48), acc, icase=True, many_globals=(j % 10 == 2))
        if j % 5 == 3:
            check_case(rng.randrange(1 << 48), acc, pospin=True)
        if j % 5 == 0:
            check_case(rng.randrange(1 << 48), acc, many_globals=True, gpin=True)
        if j % 5 == 1:
            check_case(rng.randrange(1 << 48), acc, twins=True)
        if j % 5 == 4:
            check_case(rng.randrange(1 << 48), acc, urpin=True)
