"""C04 - vendor text and config trees round-trip for every supported vendor.

Pure law monitor on the real formatters: parse(join_v(t), split_v) == t (ordered) and join_v(parse(s)) == s for
s = join_v(t'). No reference model. Exhaustive over small tree shapes x row forms, then random trees to depth 5;
vendor-significant row classes (Cisco `address-family ...`, RouterOS nested sections / top-level leaves) are generated
as their own classes so that a failure is attributed to a mechanism.
"""
import itertools
import random
from collections import OrderedDict as odict

from vf.util import plain, unplain, depth as tdepth

LEVEL = "exploration"
RULE = ("all 14 registered vendors; exhaustive: every ordered tree shape with <=4 (quick) / <=5 (thorough) nodes x 3 row-form assignments; random: trees of depth<=5, "
        "<=4 rows per level, rows of 1-4 words over a printable alphabet without the vendor's delimiters (leading !/#, runs of spaces, { } ; [ ] for brace vendors, "
        "block-end keywords the splitters drop on purpose, a top-level `configure` on Nokia, leading / on RouterOS leaves); RouterOS trees = section words then leaf rows. "
        "Classes: plain, cisco-address-family, routeros-depth1, routeros-nested. Non-trivial: depth>=2. Distinct: hash of (vendor, tree).")
ASSUMPTIONS = [
    "comment markers are the parser defaults ('!', '#'); rows never start with them",
    "sibling rows are distinct (a tree is a mapping)",
    "RouterOS: a block is a section (its row is one path word), leaves live under sections (a leaf outside every section does not exist in RouterOS exports and is outside the domain)",
]
EXHAUSTIVE = {"quick": True, "thorough": True}
FLOORS = {"quick": {"roundtrips": 20000, "vendors": 14, "fixpoints": 20000, "custom_indent_roundtrips": 5000, "device_texts": 1500, "annotations_written": 1500, "nokia_nested_configure_rows": 150, "iosxr_block_end_lookalike_rows": 300, "cli_vocabulary_trees": 4000, "rendered_texts_compared_with_rows": 15000, "trees_through_a_formatter_that_served_other_texts": 1500, "texts_read_by_one_vendor_after_another": 2000},
          "thorough": {"roundtrips": 400000, "vendors": 14, "fixpoints": 400000, "custom_indent_roundtrips": 80000, "device_texts": 25000, "annotations_written": 25000, "nokia_nested_configure_rows": 2500, "iosxr_block_end_lookalike_rows": 5000, "cli_vocabulary_trees": 60000}}
WORDS = ["a", "b1", "Eth-Trunk1", "10.0.0.1/24", "x.y", "k=v", "q_1", "peer", "description", "1", "ge-0/0/1", "descr:foo", "100:1"]
BRACE = {"juniper", "ribbon", "nokia"}
KNOWN = {
    "cisco-address-family": "C04/cisco/address-family-row-shifts-indentation",
}
WHAT = {
    "C04/cisco/address-family-row-shifts-indentation": "CiscoFormatter.split re-indents every line after an `address-family ...` row (it waits for an `exit-address-family` that join never prints): ParserError or wrong nesting",
}


def plan(tier, seed):
    from vf import env
    env.setup()
    vs = list(env.vendors().vendors)
    return [{"mode": "vendor", "tier": tier, "seed": seed, "vendor": v} for v in vs] + [{"mode": "shared", "tier": tier, "seed": seed}]


def shapes(n):
    """all ordered forests with n nodes, as nested lists of children"""
    if n == 0:
        yield []
        return
    for k in range(1, n + 1):
        for first in shapes(k - 1):
            for rest in shapes(n - k):
                yield [first] + rest


def label(shape, namer, path=()):
    out = []
    for i, ch in enumerate(shape):
        out.append([namer(path + (i,)), label(ch, namer, path + (i,))])
    return out


ROWFORMS = [
    lambda p: "r" + "".join(map(str, p)),
    lambda p: "%s %s" % (WORDS[sum(p) % len(WORDS)], "".join(map(str, p))),
    lambda p: "%s %s %s" % (WORDS[(3 * len(p) + p[-1]) % len(WORDS)], WORDS[(sum(p) * 7) % len(WORDS)], "".join(map(str, p))),
]


def random_tree(rng, d=0, maxd=5):
    t = []
    seen = set()
    for _ in range(rng.randint(1, 4) if d else rng.randint(1, 5)):
        row = " ".join(rng.choice(WORDS) for _ in range(rng.randint(1, 4)))
        if row in seen:
            continue
        seen.add(row)
        ch = random_tree(rng, d + 1, maxd) if d < maxd - 1 and rng.random() < 0.45 else []
        t.append([row, ch])
    return t


def ros_tree(rng, nested, toplevel_leaf):
    def leaves():
        out, seen = [], set()
        for _ in range(rng.randint(1, 3)):
            r = "%s %s=%s" % (rng.choice(["add", "set"]), rng.choice(["name", "address", "disabled"]), rng.choice(WORDS))
            if r not in seen:
                seen.add(r)
                out.append([r, []])
        return out
    t = []
    shared = leaves() if rng.random() < 0.3 else None  # adjacent sections with identical bodies (/ip and /ipv6 both `set allow-remote-requests=no`)
    for s in rng.sample(["ip", "interface", "system", "user", "routing"], rng.randint(1, 3)):
        if shared is not None and not nested:
            t.append([s, [list(x) for x in shared]])
            continue
        if nested and rng.random() < 0.7:
            subs = []
            for s2 in rng.sample(["address", "bridge", "group", "ntp"], rng.randint(1, 2)):
                if nested and rng.random() < 0.3:
                    subs.append([s2, [["client", leaves()]]])
                else:
                    subs.append([s2, leaves()])
            t.append([s, subs])
        else:
            t.append([s, leaves()])
    if toplevel_leaf:
        t.insert(rng.randrange(len(t) + 1), ["set top=%s" % rng.choice(WORDS), []])
    return t


VOCAB = ["address-family ipv4 unicast", "address-family ipv6", "address-family l2vpn evpn", "template peer-policy PP", "template peer-session PS", "route-policy RP",
         "prefix-set PS1", "as-path-set A1", "community-set C1", "policy-map PM", "class-map match-any CM", "vrf definition V", "xpl route-filter RF",
         "interface GigabitEthernet0/1", "router bgp 65000", "neighbor 1.1.1.1", "route-map RM permit 10", "ip access-list extended ACL", "control-plane",
         "line vty 0 4", "bgp 65000", "ipv4-family unicast", "ospf 1", "area 0.0.0.0", "aaa", "user-interface vty 0 4", "vlan batch 10 20", "policy-options",
         "protocols", "group G1", "class C1", "if destination in PS1 then", "else", "apply RP2",
         # single words that end something in some CLI, as plain rows (a `return` / `end` line also closes a device dump)
         "end", "return", "commit", "abort", "exit", "quit",
         # a row whose last character is a backslash (a Windows / UNC path, the tail of a regular expression)
         "tftp-server \\\\fs01\\cfg\\", "as-path-regex ^65\\d+_\\"]


def vocab_tree(rng, vname, d=0, maxd=4):
    """trees over block headers and lines of the vendors' real CLIs (every vendor reads every row as plain text, unless its syntax says otherwise)"""
    t, seen = [], set()
    for _ in range(rng.randint(1, 4)):
        row = rng.choice(VOCAB) if rng.random() < 0.7 else " ".join(rng.choice(WORDS) for _ in range(rng.randint(1, 3)))
        if row in seen or (vname == "cisco" and row.startswith("address-family")):  # (cisco + address-family: the listed finding, class cisco-address-family)
            continue
        seen.add(row)
        t.append([row, vocab_tree(rng, vname, d + 1, maxd) if d < maxd - 1 and rng.random() < 0.5 else []])
    return t


def in_domain(vname, tree, top=True):
    for row, ch in tree:
        if top and vname == "nokia" and row == "configure":
            return False
        if not in_domain(vname, ch, False):
            return False
    return True


INDENTS = ["\t", " ", "    ", "\t\t"]


def roundtrip(vname, tree, cls, acc, indent=None):
    """indent: render with make_formatter(indent=...) (what `annet gen --indent` does); the text is read back by the DEFAULT formatter"""
    from annet.annlib.tabparser import parse_to_tree, ParserError
    from vf import env
    rd = env.vendors()[vname].make_formatter()
    fmt = rd if indent is None else env.vendors()[vname].make_formatter(indent=indent)
    w = {"vendor": vname, "class": cls, "tree": tree}
    if indent is not None:
        w["indent"] = indent
        acc.count("custom_indent_roundtrips")
    acc.count("roundtrips")
    acc.case([vname, tree], nontrivial=tdepth(unplain(tree)) >= 2)
    key_known = KNOWN.get(cls)
    if vname not in BRACE and vname != "routeros":
        # an indentation-structured vendor: the rendered configuration is the rows of the tree, top-down, one per line, and nothing else
        # (block terminators belong to patches)
        try:
            s0 = fmt.join(unplain(tree))
        except Exception:
            s0 = None
        if s0 is not None:
            def pre(t):
                for r, c in t:
                    yield r
                    yield from pre(c)
            acc.count("rendered_texts_compared_with_rows")
            if [ln.strip() for ln in s0.split("\n") if ln.strip()] != list(pre(tree)):
                acc.violation("C04/%s/rendered-text-is-not-the-rows-of-the-tree" % vname, "the rendered configuration holds lines that are not rows of the tree (or lacks some)",
                              dict(w, text=s0.split("\n")[:40]))
                return
    try:
        s = fmt.join(unplain(tree))
        t2 = plain(parse_to_tree(s, rd.split))
    except ParserError as e:
        acc.violation(key_known or "C04/%s/parse-error" % vname, WHAT.get(key_known, "text rendered from a tree of the vendor's domain is refused by the vendor's own parser"),
                      dict(w, error=str(e)[:200]))
        return
    except Exception as e:
        acc.violation(key_known or "C04/%s/exception-%s" % (vname, type(e).__name__), WHAT.get(key_known, "join/parse raised"), dict(w, error=repr(e)[:200]))
        return
    if t2 != tree:
        acc.violation(key_known or "C04/%s/tree-changed" % vname, WHAT.get(key_known, "rendering a tree and parsing the text back gives a different tree (rows, nesting or order)"),
                      dict(w, text=s.split("\n")[:40], parsed=t2))
        return
    try:
        s2 = fmt.join(unplain(t2))
    except Exception as e:
        acc.violation("C04/%s/exception-%s" % (vname, type(e).__name__), "re-rendering a parsed config raised", dict(w, error=repr(e)[:200]))
        return
    acc.count("fixpoints")
    if s2 != s:
        acc.violation(key_known or "C04/%s/not-a-fixed-point" % vname, "re-rendering a parsed config and parsing again is not a fixed point", dict(w, text=s.split("\n")[:40], text2=s2.split("\n")[:40]))


def brace_device_text(rng, tree, style, annotate=0.25):
    """what `show configuration` prints (style 'device': `;`, `; ## SECRET-DATA`) or what a generator returns (style 'plain');
    /* annotations */ in front of some nested statements. -> (text, [(path_of_annotated_row, comment_text)])"""
    lines, notes = [], []

    def emit(nodes, depth, path):
        ind = "    " * depth
        for row, ch in nodes:
            if depth >= 1 and rng.random() < annotate:
                c = " ".join(rng.choice(["rotated", "noc", "2024-05", "mgmt only", "x"]) for _ in range(rng.randint(1, 2)))
                lines.append("%s/* %s */" % (ind, c))
                notes.append((list(path + (row,)), c))
            if ch:
                lines.append("%s%s {" % (ind, row))
                emit(ch, depth + 1, path + (row,))
                lines.append("%s}" % ind)
            elif style == "device":
                lines.append("%s%s;%s" % (ind, row, " ## SECRET-DATA" if rng.random() < 0.2 else ""))
            else:
                lines.append("%s%s" % (ind, row))
    emit(tree, 0, ())
    return "\n".join(lines), notes


def strip_annotations(t):
    return [[r, strip_annotations(c)] for r, c in t if not r.startswith("/*")]


def annotations_of(t, fmt, path=()):
    out = []
    rows = [r for r, c in t]
    for i, (r, c) in enumerate(t):
        if r.startswith("/*"):
            try:
                cm = fmt.Comment.loads(r)
                out.append((list(path), cm.row, cm.comment, rows[i + 1] if i + 1 < len(rows) else None))
            except Exception as e:
                out.append((list(path), "UNREADABLE %r" % e, r, None))
        out += annotations_of(c, fmt, path + (r,))
    return out


def device_text_case(vname, tree, sub, acc):
    """a device / generator text with annotations: the parsed tree holds the statements unchanged, every annotation sits in
    front of the statement it annotates and remembers it, and render -> parse is a fixed point"""
    from annet.annlib.tabparser import parse_to_tree
    from vf import env
    fmt = env.vendors()[vname].make_formatter()
    rng = random.Random(sub)
    style = "plain" if vname == "nokia" else rng.choice(["device", "device", "plain"])
    text, notes = brace_device_text(rng, tree, style)
    w = {"vendor": vname, "class": "brace-device-text", "tree": tree, "sub": sub, "text": text.split("\n")[:60], "style": style}
    acc.count("device_texts")
    acc.count("annotations_written", len(notes))
    acc.case(["device-text", vname, text], nontrivial=bool(notes))
    try:
        t1 = plain(parse_to_tree(text, fmt.split))
        s = fmt.join(unplain(t1))
        t2 = plain(parse_to_tree(s, fmt.split))
        s2 = fmt.join(unplain(t2))
    except Exception as e:
        acc.violation("C04/%s/device-text-exception-%s" % (vname, type(e).__name__), "parsing / re-rendering a device text raised", dict(w, error=repr(e)[:200]))
        return
    if strip_annotations(t1) != tree:
        acc.violation("C04/%s/device-text-statements-changed" % vname, "parsing a device text does not give its statements (rows, nesting, order)", dict(w, parsed=t1))
        return
    got = annotations_of(t1, fmt)
    want = [(p[:-1], " ".join(x.strip("\"'") for x in p[-1].split(" ")), c, p[-1]) for p, c in notes]
    if [(a, b, c, d) for a, b, c, d in got] != [(a, b, c, d) for a, b, c, d in want]:
        acc.violation("C04/%s/annotation-detached" % vname, "an annotation is not kept in front of the statement it annotates / does not remember that statement",
                      dict(w, got=[list(x) for x in got][:6], expected=[list(x) for x in want][:6]))
        return
    acc.count("fixpoints")
    if t2 != t1 or s2 != s:
        acc.violation("C04/%s/device-text-not-a-fixed-point" % vname, "re-rendering a parsed device config and parsing again is not a fixed point",
                      dict(w, parsed=t1, rendered=s.split("\n")[:60], parsed_again=t2))


def run_vendor(spec, acc):
    vname, tier = spec["vendor"], spec["tier"]
    acc.count("vendors")
    from vf import env as _env
    _env.vendors()[vname].make_formatter(indent="")  # what the patch / deploy paths ask for first in a process
    rng = random.Random("C04/%s/%s" % (spec["seed"], vname))
    if vname == "routeros":
        n = 2500 if tier == "quick" else 40000
        for j in range(n):
            r = rng.random()
            if r < 0.5:
                roundtrip(vname, ros_tree(rng, False, False), "routeros-depth1", acc)
            elif r < 0.8:
                t = ros_tree(rng, True, False)
                nested = any(any(c for _, c in subs) and any(cc and any(x[1] for x in cc) for _, cc in subs) for _, subs in t)
                roundtrip(vname, t, "routeros-nested" if tdepth(unplain(t)) >= 3 else "routeros-depth1", acc)
            else:
                roundtrip(vname, ros_tree(rng, True, False), "routeros-nested", acc)
            if j % 4 == 0:
                roundtrip(vname, ros_tree(rng, True, False), "routeros-nested", acc, indent=INDENTS[(j // 4) % len(INDENTS)])
        acc.sample({"vendor": vname, "tree": ros_tree(rng, True, False)})
        return
    maxn = 4 if tier == "quick" else 5
    for n in range(1, maxn + 1):
        for sh in shapes(n):
            for namer in ROWFORMS:
                roundtrip(vname, label(sh, namer), "plain", acc)
    nrand = 2000 if tier == "quick" else 30000
    for j in range(nrand):
        t = random_tree(rng)
        if not in_domain(vname, t):
            continue
        roundtrip(vname, t, "plain", acc)
        if j % 4 == 0:
            roundtrip(vname, t, "plain", acc, indent=INDENTS[(j // 4) % len(INDENTS)])
        if j < 1:
            acc.sample({"vendor": vname, "tree": t})
    for j in range(400 if tier == "quick" else 6000):
        t = vocab_tree(rng, vname)
        if t and in_domain(vname, t):
            acc.count("cli_vocabulary_trees")
            roundtrip(vname, t, "vocabulary", acc)
    if vname in BRACE:
        for j in range(600 if tier == "quick" else 10000):
            t = random_tree(rng, maxd=4)
            if in_domain(vname, t):
                device_text_case(vname, t, rng.randrange(1 << 48), acc)
    if vname == "nokia":
        # a nested row that reads exactly `configure` is an ordinary row (only the top-level wrapper is special)
        for j in range(300 if tier == "quick" else 5000):
            t = random_tree(rng, maxd=3)
            blocks = [n for n in t if n[1]] or None
            if not in_domain(vname, t) or not blocks:
                continue
            tgt = rng.choice(blocks)
            if rng.random() < 0.5 and tgt[1][0][1]:
                tgt = tgt[1][0]
            if all(r != "configure" for r, _ in tgt[1]):
                tgt[1].insert(rng.randrange(len(tgt[1]) + 1), ["configure", [] if rng.random() < 0.5 else [["router Base", []]]])
            acc.count("nokia_nested_configure_rows")
            roundtrip(vname, t, "plain", acc)
    if vname == "nokia":
        # a device text wraps the configuration in `configure { ... }`, possibly followed by other top-level blocks: the wrapper is transparent
        from annet.annlib.tabparser import parse_to_tree
        from vf import env
        fmt = env.vendors()[vname].make_formatter()
        for j in range(300 if tier == "quick" else 5000):
            t = random_tree(rng, maxd=4)
            if not in_domain(vname, t):
                continue
            body = fmt.join(unplain(t))
            text = "# TiMOS-C-20.10.R1\nconfigure {\n" + "\n".join("    " + ln for ln in body.split("\n")) + "\n}\n"
            if rng.random() < 0.5:
                text += "persistent-indices {\n    description {\n    }\n}\n"
            acc.count("roundtrips")
            acc.count("nokia_wrapped_texts")
            try:
                got = plain(parse_to_tree(text, fmt.split))
            except Exception as e:
                got = "EXC %r" % e
            acc.case(["nokia-wrapped", t], nontrivial=True)
            if got != t:
                acc.violation("C04/nokia/configure-wrapper", "a Nokia device text (configuration inside `configure { }`) does not parse to the tree of its content",
                              {"vendor": vname, "class": "nokia-wrapped", "tree": t, "text": text.split("\n")[:30], "parsed": got})
            else:
                acc.count("fixpoints")
    if vname == "iosxr":
        # rows that merely begin with a block-end word the splitter drops (`end-policy-map`, `endif-marker x`) are ordinary rows
        for j in range(400 if tier == "quick" else 6000):
            t = random_tree(rng, maxd=3)
            blocks = [n for n in t if n[1]]
            tgt = rng.choice(blocks)[1] if blocks and rng.random() < 0.7 else t
            row = rng.choice(["end-policy-map", "endif-marker x", "end-set-of-rows here", "end-policy-global a", "endif1"])
            if all(r != row for r, _ in tgt):
                tgt.insert(rng.randrange(len(tgt) + 1), [row, [] if rng.random() < 0.6 else [["x 1", []]]])
            acc.count("iosxr_block_end_lookalike_rows")
            roundtrip(vname, t, "plain", acc)
    if vname in ("cisco",):
        for j in range(300 if tier == "quick" else 5000):
            t = random_tree(rng, maxd=3)
            blk = ["router bgp 65000", [["address-family ipv4 unicast", [["neighbor 1.1.1.1 activate", []]]], ["bgp log-neighbor-changes", []]]]
            t.insert(rng.randrange(len(t) + 1), blk)
            roundtrip(vname, t, "cisco-address-family", acc)


def run_shared(spec, acc, only=None):
    """one process, as `annet` is: (a) the formatter object of a vendor serves many texts and trees in turn - flat ones, nested ones, in any order;
    (b) one and the same text is read by several vendors one after another (hardware guessing, mixed fleets)"""
    from annet.annlib.tabparser import parse_to_tree
    from vf import env
    vs = [v for v in env.vendors().vendors]
    ind = [v for v in vs if v not in BRACE and v != "routeros"]
    kept = {v: env.vendors()[v].make_formatter() for v in vs}
    rng = random.Random("C04/shared/%s" % spec["seed"])
    n = 600 if spec["tier"] == "quick" else 10000
    cases = []
    if only is not None:
        cases = [only]
    for j in range(0 if only is not None else n):
        t = random_tree(rng, maxd=4) if rng.random() < 0.6 else (vocab_tree(rng, "cisco") or random_tree(rng, maxd=3))  # (no address-family rows: the listed cisco finding)
        flat = [[r, []] for r, _ in random_tree(rng, maxd=1)]
        bgp = rng.random() < 0.5
        order = list(ind)
        rng.shuffle(order)
        bgp = bgp and all(r != "router bgp 65000" for r, _ in t)
        cases.append({"tree": t, "flat": flat, "bgp": bgp, "order": order, "reuse": rng.sample([v for v in vs if v != "routeros"], 4)})  # (RouterOS trees have their own shape)
    for c in cases:
        t, flat = c["tree"], c["flat"]
        # (a) a kept formatter: reads a flat text, then renders and reads a nested tree
        for v in c["reuse"]:
            if not in_domain(v, t) or not in_domain(v, flat):
                continue
            fresh = env.vendors()[v].make_formatter()
            w = {"shared": True, "case": c, "vendor": v, "class": "kept-formatter"}
            try:
                parse_to_tree(fresh.join(unplain(flat)), kept[v].split)
                s = kept[v].join(unplain(t))
                back = plain(parse_to_tree(s, kept[v].split))
                s_fresh = fresh.join(unplain(t))
            except Exception as e:
                acc.violation("C04/%s/kept-formatter-exception-%s" % (v, type(e).__name__), "a formatter object that served other texts before raises on a tree of the vendor's domain", dict(w, error=repr(e)[:200]))
                continue
            acc.count("trees_through_a_formatter_that_served_other_texts")
            acc.case(["kept", v, t, flat], nontrivial=tdepth(unplain(t)) >= 2)
            if s != s_fresh or back != t:
                acc.violation("C04/%s/formatter-remembers-earlier-texts" % v, "a formatter object that read another text before renders (or reads back) a tree differently from a fresh formatter",
                              dict(w, text=s.split("\n")[:30], fresh_text=s_fresh.split("\n")[:30], parsed=back))
        # (b) one text, several vendors
        tb = list(t)
        if c["bgp"]:
            tb = tb + [["router bgp 65000", [["address-family ipv4 unicast", [["neighbor 1.1.1.1 activate", []]]], ["bgp log-neighbor-changes", []]]]]
        texts = {}
        for v in c["order"]:
            if in_domain(v, tb):
                try:
                    texts[v] = env.vendors()[v].make_formatter().join(unplain(tb))
                except Exception:
                    pass
        if not texts:
            continue
        T = texts[next(iter(texts))]
        for v in c["order"]:
            if texts.get(v) != T:
                continue
            fmt = env.vendors()[v].make_formatter()
            w = {"shared": True, "case": c, "vendor": v, "class": "one-text-several-vendors", "text": T.split("\n")[:30]}
            try:
                got = plain(parse_to_tree(T, fmt.split))
            except Exception as e:
                got = "EXC %r" % (e,)
            if v == "cisco" and c["bgp"]:
                continue     # (the listed finding C04/cisco/address-family-row-shifts-indentation: read, not judged)
            acc.count("texts_read_by_one_vendor_after_another")
            if got != tb:
                acc.violation("C04/%s/text-read-differently-after-another-vendor-read-it" % v, "a text that another vendor's reader saw before is not read as the tree it was rendered from",
                              dict(w, parsed=got, readers_before=c["order"][:c["order"].index(v)]))


def run_shard(spec, acc):
    if spec["mode"] == "shared":
        return run_shared(spec, acc)
    if spec["mode"] == "replay" and spec["witness"].get("shared"):
        return run_shared({"seed": 0, "tier": "quick"}, acc, only=spec["witness"]["case"])
    if spec["mode"] == "replay":
        w = spec["witness"]
        if w.get("class") == "brace-device-text":
            device_text_case(w["vendor"], w["tree"], w["sub"], acc)
        else:
            roundtrip(w["vendor"], w["tree"], w.get("class", "plain"), acc, indent=w.get("indent"))
        return
    run_vendor(spec, acc)
