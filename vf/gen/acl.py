"""Seeded generator of ACLs (vf.ref.acl.AclRule trees) over the vocabulary of a universe rulebook, so that
configuration trees generated from the universe have covered rows, uncovered rows and near misses."""
from vf.ref import acl as A


def generalise(rng, pat):
    words = pat.split()
    x = rng.random()
    if x < 0.55 or len(words) == 0:
        return pat
    if x < 0.7 and len(words) > 1:
        # literal -> * somewhere after the first word
        i = rng.randrange(1, len(words))
        if words[i] not in ("~",):
            words[i] = "*"
        return " ".join(words)
    if x < 0.85:
        # truncate and close with ~ (always wider than the original: a pattern must not split the rows of one rulebook key)
        if len(words) < 2:
            return pat
        k = rng.randint(1, len(words) - 1)
        w = words[:k]
        if w[-1] == "~":
            return " ".join(w)
        return " ".join(w + ["~"])
    if x < 0.93 and len(words) > 1 and words[-1] == "*":
        return " ".join(words[:-1] + ["k1"])  # narrower: one specific key
    return " ".join(words)


def gen_acl(rng, ulevel, gens=("g1",), depth=0, p_include=0.65, allow_global=True):
    """-> list[AclRule] for one generator"""
    out = []
    for ur in ulevel:
        if ur.ignore:
            continue
        if rng.random() > p_include:
            continue
        pat = generalise(rng, ur.pat)
        r = A.AclRule(pat, gens=())
        if allow_global and rng.random() < 0.12:
            r.glob = True
        elif ur.children and rng.random() < 0.85:
            r.children = gen_acl(rng, ur.children, gens, depth + 1, p_include, allow_global)
        elif not ur.children and rng.random() < 0.1:
            r.children = [A.AclRule("~")]
        x = rng.random()
        if x < 0.12:
            r.explicit_cd = [True]
            r.cant_delete = [True]
        elif x < 0.2:
            r.explicit_cd = [False]
            r.cant_delete = [False]
        if rng.random() < 0.08:
            r.prio = rng.choice([1, 2, 5])
        out.append(r)
        if ur.children and rng.random() < 0.25:
            # three competing rules of different specificity: narrow local, %global in between, broad local
            words = ur.pat.split()
            narrow = " ".join(words[:-1] + ["k1"]) if words[-1] in ("*", "~") and len(words) > 1 else ur.pat
            broad = " ".join(words[:1] + ["~"])
            mid = ur.pat
            trio = [A.AclRule(narrow, gen_acl(rng, ur.children, gens, depth + 1, 0.6, allow_global)),
                    A.AclRule(mid, glob=True),
                    A.AclRule(broad, gen_acl(rng, ur.children, gens, depth + 1, 0.6, allow_global))]
            rng.shuffle(trio)
            out.extend(t for t in trio if all(t.pat != o.pat or o.glob == t.glob for o in out))
        if rng.random() < 0.15:
            # a competing rule with an overlapping language and other children
            pat2 = generalise(rng, ur.pat)
            if pat2 != pat:
                r2 = A.AclRule(pat2)
                if ur.children and rng.random() < 0.7:
                    r2.children = gen_acl(rng, ur.children, gens, depth + 1, 0.5, allow_global)
                out.append(r2)
    if depth and rng.random() < 0.08:
        out.append(A.AclRule("~", glob=(allow_global and rng.random() < 0.7)))
    return out


def tag_generator(level, name):
    """what RunGeneratorResult.acl_text does: every line of a generator's ACL carries its name"""
    for r in level:
        r.gens = [name]
        tag_generator(r.children, name)
    return level
