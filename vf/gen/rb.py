"""Seeded generators of rulebooks (vf.ref.rulebook.Rule trees) and of configuration trees instantiating them.

Sibling rules have pairwise disjoint languages (distinct first word) except catch-alls (`~`, possibly %global)
which come last. Trees hold at most one row per (rule, key) at a level. Words come from tiny alphabets so that keys
collide between old and new and between levels.
"""
from collections import OrderedDict as odict

from vf.ref import rulebook as RB
from vf.ref import rulelang as R

KEYS = ["k1", "k2", "k3", "k4"]
EXTRA = ["x1", "x2", "x3"]
LOGICS = [None, None, None, "common.undo_redo", "common.permanent", "common.ignore_changes"]


DEFAULT_ALLOW = ("global", "ordered", "rewrite", "logic", "negform", "catchall")


def gen_rulebook(rng, depth=3, prefix="undo", allow=DEFAULT_ALLOW, lvl=0, tag=""):
    """-> list[Rule]"""
    n = rng.randint(1, 3 if lvl else 4)
    rules = []
    for i in range(n):
        # first letters include the letters of the negation words (u,n,d,o): a removal template built by character
        # stripping instead of word stripping shows up only there
        first = "%s%s%d" % (rng.choice(("abc"[lvl % 3], "dnu"[lvl % 3], "o")), tag, i)
        if rng.random() < 0.1:
            first = prefix + first  # a word that merely begins with the negation word (notify, undoable, -x)
        toks = [first]
        shape = rng.random()
        if shape < 0.25:
            pass  # single literal word
        elif shape < 0.6:
            toks.append("*")
        elif shape < 0.75:
            toks += ["*", rng.choice(["m", "*"])]
        elif shape < 0.9:
            toks += [rng.choice(["m", "*"]), "~"]
        else:
            toks.append("~")
        flat = "flat" in allow  # Junos-like: a block's row has a fixed number of words, no catch-alls (commands are segmented by word count)
        if flat and toks[-1] == "~" and rng.random() < 0.5:
            toks = toks[:-1] if len(toks) > 1 else toks
        negform = "negform" in allow and rng.random() < 0.08
        if negform:
            toks = [prefix] + toks
        r = RB.Rule(" ".join(toks))
        kind = rng.random()
        if lvl < depth - 1 and kind < 0.45 and not (flat and toks[-1] == "~"):
            # block rule
            sub = rng.random()
            if "rewrite" in allow and sub < 0.15:
                r.children = [RB.Rule("~", glob=True, rewrite=True)]
            elif "ordered" in allow and sub < 0.35:
                if "ordrw" in allow and rng.random() < 0.5:
                    # entries of an ordered list whose bodies are rewritten as a whole (policy terms, route-filter bodies)
                    r.children = [RB.Rule("q%d *" % lvl, ordered=True, children=[RB.Rule("~", glob=True, rewrite=True)])]
                elif rng.random() < 0.5:
                    r.children = [RB.Rule("q%d ~" % lvl, ordered=True)]
                elif flat:
                    r.children = [RB.Rule("q%d *" % lvl, ordered=True, children=[RB.Rule("y *")])]
                else:
                    r.children = [RB.Rule("q%d *" % lvl, ordered=True, children=[RB.Rule("~")])]
                if rng.random() < 0.5:
                    r.children.append(RB.Rule("p%d *" % lvl))
            else:
                r.children = gen_rulebook(rng, depth, prefix, allow, lvl + 1, tag + str(i))
                if "logic" in allow and lvl == 0 and rng.random() < 0.15:
                    r.logic = "common.permanent"  # the shipped use: interface blocks that cannot be deleted
                elif "icblocks" in allow and rng.random() < 0.4:
                    r.logic = "common.ignore_changes"  # a block that is created and removed, but whose own line is never rewritten
                elif "urblocks" in allow and toks[-1] != "~" and rng.random() < 0.5:
                    # a block whose header carries a value after its key (`peer 10.0.0.1 as-number 100`): changing the value
                    # re-creates the block, which undo_redo is for
                    r.logic = "common.undo_redo"
        else:
            if "logic" in allow:
                r.logic = rng.choice(LOGICS)
            if ("ordered" in allow and r.logic is None and rng.random() < 0.1 and r.pat.split()[-1] in ("*", "~") and not negform
                    and not any(x.ordered for x in rules)):
                r.ordered = True  # at most one %ordered rule per level: the order between two ordered lists is not defined
        if "global" in allow and lvl == 0 and not r.children and rng.random() < 0.15 and not negform:
            r.glob = True
            r.logic = None
            r.ordered = False
        if ("overlap" in allow and r.children and "*" in toks and not r.children[0].rewrite and not any(c.ordered for c in r.children)
                and rng.random() < 0.5):
            # a more specific rule in front of a generic one (`interface */Tunnel.+/` before `interface *`): rows it matches
            # take their children rules from BOTH rules
            st = list(toks)
            st[st.index("*")] = "*/k[12]/"
            sub_allow = tuple(a for a in allow if a in ("logic", "flat"))
            rules.append(RB.Rule(" ".join(st), children=gen_rulebook(rng, depth, prefix, sub_allow, lvl + 1, tag + str(i) + "s")))
        rules.append(r)
    if "catchall" in allow and rng.random() < (0.35 if lvl else 0.25):
        rules.append(RB.Rule("~", glob=("global" in allow and rng.random() < 0.6)))
    return rules


def instantiate(rng, pat, long_rows=True):
    """a row matched by a generated pattern"""
    toks, tail, _ = R.tokenize(pat)
    words = []
    for t in toks:
        if t[0] == "lit":
            words.append(t[1])
        elif t[0] == "starre":
            import re
            words.append(rng.choice([k for k in KEYS if re.fullmatch(t[1], k)]))
        else:
            words.append(rng.choice(KEYS))
    if tail == "tilde":
        words += [rng.choice(KEYS + EXTRA) for _ in range(rng.randint(1, 2))]
    elif long_rows and rng.random() < 0.35:
        words.append(rng.choice(EXTRA))
    return " ".join(words)


def gen_tree(rng, level, inherited=(), depth=0, maxdepth=4, fill=0.6, foreign=0.0):
    """random tree instantiating the rules; <=1 row per (rule,key) per level; `foreign` adds rows no rule knows"""
    locals_, globals_ = RB.split_level(level, inherited)
    tree = odict()
    seen = set()
    cands = list(locals_) + list(globals_)
    rows = []
    for r in cands:
        if r.ignore:
            continue
        reps = 1 if r.pat.split()[-1] not in ("*", "~") and "*" not in r.pat else rng.randint(1, 3)
        if r.pat == "~":
            reps = rng.randint(0, 2)
        for _ in range(reps):
            if rng.random() > fill:
                continue
            if r.pat == "~":
                row = " ".join([rng.choice(["z1", "z2", "z3"])] + [rng.choice(KEYS + EXTRA) for _ in range(rng.randint(0, 2))])
            else:
                row = instantiate(rng, r.pat, long_rows=((not r.children or r.logic == "common.undo_redo") and not r.ordered and r.logic != "common.permanent"))
            rows.append(row)
    if foreign and rng.random() < foreign:
        rows.append("f%d %s" % (depth, rng.choice(KEYS)))
    rng.shuffle(rows)
    for row in rows:
        s = RB.select(row, locals_, globals_)
        if s is None:
            if row.startswith("f") and row not in tree:
                tree[row] = odict()
                if rng.random() < 0.4 and depth < maxdepth:
                    tree[row]["f%d %s" % (depth + 1, rng.choice(KEYS))] = odict()
            continue
        ident = (id(s[0]), s[1])
        if ident in seen or row in tree:
            continue
        seen.add(ident)
        sub = odict()
        exact = s[0].pat.split()[-1] == "~" or len(row.split()) == len(s[0].pat.split()) or (s[0].children and s[0].logic == "common.undo_redo")
        if depth < maxdepth and exact and (s[2] or s[3]) and (s[0].children or s[0].pat == "~"):
            if s[0].children or (s[0].rewrite and rng.random() < 0.4) or (s[0].pat == "~" and s[3] and rng.random() < 0.15):
                sub = gen_tree(rng, s[2], s[3], depth + 1, maxdepth, fill, foreign)
                # gen_tree takes a level list + inherited; s[2] are locals, s[3] globals in force
        tree[row] = sub
    return tree


def mutate_tree(rng, tree, level, inherited=(), depth=0, maxdepth=4, rate=0.3):
    """derive a new tree from an old one: drop rows, change trailing words, add rows, reorder, edit children"""
    locals_, globals_ = RB.split_level(level, inherited)
    out = []
    used = set()
    for row, ch in tree.items():
        s = RB.select(row, locals_, globals_)
        x = rng.random()
        if x < rate * 0.35:
            continue  # dropped
        new_row = row
        if s is not None and x < rate * 0.6:
            # same key, different text (when the pattern allows trailing words) or different key
            has_kids = bool(ch)
            if s[0].pat != "~":
                cand = instantiate(rng, s[0].pat, long_rows=(((not s[0].children and not has_kids) or (s[0].children and s[0].logic == "common.undo_redo"))
                                                              and not s[0].ordered and s[0].logic != "common.permanent"))
            else:
                cand = row if has_kids else row + " " + rng.choice(EXTRA)
            new_row = cand
        new_ch = ch
        if s is not None and ch is not None and (len(ch) or s[0].children) and rng.random() < 0.7:
            new_ch = mutate_tree(rng, ch, s[2], s[3], depth + 1, maxdepth, rate)
        elif s is None and ch and rng.random() < 0.3:
            new_ch = odict(list(ch.items())[:-1])
        out.append((new_row, new_ch))
    if rng.random() < rate:
        extra = gen_tree(rng, level, inherited, depth, maxdepth, fill=0.3)
        out.extend(extra.items())
    if rng.random() < rate * 0.7:
        rng.shuffle(out)
    res = odict()
    for row, ch in out:
        s = RB.select(row, locals_, globals_)
        ident = (id(s[0]), s[1]) if s is not None else ("?", row)
        if ident in used or row in res:
            continue
        used.add(ident)
        res[row] = ch if ch is not None else odict()
    return res


def has_feature(level, pred):
    for r in level:
        if pred(r):
            return True
        if r.children and has_feature(r.children, pred):
            return True
    return False
